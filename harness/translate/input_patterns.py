"""Translator: the regular-expression constants of the two input loaders -> Gen/InputPatterns.lean.

Reads the live module objects (SQL loader: io/_validation.py; pandas path: DataTypes/_time_checking.py),
parses each pattern with CPython's own regex parser and transcribes the parse tree (never interprets it)
into `VtlModel.Input.Re` terms.  A construct it does not know raises vlib.ShapeError.
"""
from __future__ import annotations

import os
import sys

sys.path.insert(0, os.path.join(os.path.dirname(os.path.abspath(__file__)), '..'))
import vlib

SQL_PATTERNS = ['TIME_PERIOD_PATTERN', 'TIME_INTERVAL_PATTERN', 'DURATION_PATTERN', 'VALID_DATE_REGEX']
# (name, how the code applies it): 'match$' = re.match with explicit anchors, 'full' = re.fullmatch
PANDAS_PATTERNS = [('_STRICT_DATETIME_RE', 'anchored'), ('time_pattern', 'anchored'), ('year_pattern', 'full'),
                   ('month_pattern', 'full'), ('_vtl_period_re', 'anchored'), ('_sdmx_period_re', 'anchored'),
                   ('_iso_date_re', 'anchored'), ('_iso_month_re', 'anchored')]


def _parser():
    try:
        import re._parser as sp
        import re._constants as sc
    except ImportError:  # < 3.11
        import sre_parse as sp
        import sre_constants as sc
    return sp, sc


def _tr_items(items, sc, anchors):
    out = []
    items = list(items)
    for k, (op, av) in enumerate(items):
        if op is sc.AT:
            if av is sc.AT_BEGINNING and k == 0:
                anchors.add('^'); continue
            if av is sc.AT_END and k == len(items) - 1:
                anchors.add('$'); continue
            raise vlib.ShapeError('anchor in the middle of a pattern: %r' % (av,))
        out.append(_tr(op, av, sc))
    if not out:
        return 'Re.eps'
    if len(out) == 1:
        return out[0]
    return '(Re.seqs [' + ', '.join(out) + '])'


def _tr_class(av, sc):
    rs = []
    for op, a in av:
        if op is sc.LITERAL:
            rs.append((a, a))
        elif op is sc.RANGE:
            rs.append((a[0], a[1]))
        elif op is sc.CATEGORY and a is sc.CATEGORY_DIGIT:
            rs.append((48, 57))
        else:
            raise vlib.ShapeError('character class item not known: %r %r' % (op, a))
    return '(Re.cls [' + ', '.join('(%d, %d)' % r for r in rs) + '])'


def _tr(op, av, sc):
    if op is sc.LITERAL:
        return '(Re.cls [(%d, %d)])' % (av, av)
    if op is sc.IN:
        return _tr_class(av, sc)
    if op is sc.MAX_REPEAT:
        lo, hi, sub = av
        inner = _tr_items(sub, sc, set())
        if hi is sc.MAXREPEAT:
            if lo == 0:
                return '(Re.star %s)' % inner
            if lo == 1:
                return '(Re.plus %s)' % inner
            raise vlib.ShapeError('unbounded repeat with min %d' % lo)
        return '(Re.rep %s %d %d)' % (inner, lo, hi)
    if op is sc.SUBPATTERN:
        sub = av[-1]
        return '(' + _tr_items(sub, sc, set()) + ')'
    if op is sc.BRANCH:
        return '(Re.alts [' + ', '.join(_tr_items(b, sc, set()) for b in av[1]) + '])'
    raise vlib.ShapeError('regex construct not known to the translator: %r' % (op,))


def split_top(pattern: str):
    """split at `|` outside groups and character classes"""
    parts, depth, in_cls, cur, i = [], 0, False, '', 0
    while i < len(pattern):
        c = pattern[i]
        if c == '\\':
            cur += pattern[i:i + 2]; i += 2; continue
        if in_cls:
            if c == ']': in_cls = False
        elif c == '[': in_cls = True
        elif c == '(': depth += 1
        elif c == ')': depth -= 1
        elif c == '|' and depth == 0:
            parts.append(cur); cur = ''; i += 1; continue
        cur += c; i += 1
    parts.append(cur)
    return parts


def transcribe(pattern: str, mode: str):
    """-> Lean term; every top-level alternative must be anchored at both ends (or applied with fullmatch)."""
    sp, sc = _parser()
    outs = []
    for part in split_top(pattern):
        if mode != 'full':
            if not (part.startswith('^') and part.endswith('$') and not part.endswith('\\$')):
                raise vlib.ShapeError('pattern alternative not anchored at both ends: %r in %r' % (part, pattern))
            part = part[1:-1]
        anchors = set()
        outs.append(_tr_items(sp.parse(part), sc, anchors))
        if anchors:
            raise vlib.ShapeError('anchor inside a pattern alternative: %r' % part)
    return outs[0] if len(outs) == 1 else 'Re.alts [' + ',\n    '.join(outs) + ']'


def generate():
    """-> (lean_text, {name: python pattern string})"""
    import importlib
    val = importlib.import_module('vtlengine.duckdb_transpiler.io._validation')
    tc = importlib.import_module('vtlengine.DataTypes._time_checking')
    pats = {}
    lines = ['import VtlModel.Input.Regex', '', 'namespace VtlModel.Input.Gen', 'open VtlModel.Input', '']
    for n in SQL_PATTERNS:
        if not hasattr(val, n):
            raise vlib.ShapeError('io/_validation.py has no constant %s' % n)
        p = getattr(val, n)
        pats['sql.' + n] = p
        lines.append('/-- io/_validation.py %s = %s -/' % (n, p.replace('-/', '- /')))
        lines.append('def sql_%s : Re :=\n  %s\n' % (n, transcribe(p, 'anchored')))
    for n, mode in PANDAS_PATTERNS:
        if not hasattr(tc, n):
            raise vlib.ShapeError('DataTypes/_time_checking.py has no constant %s' % n)
        p = getattr(tc, n)
        p = p.pattern if hasattr(p, 'pattern') else p
        pats['pandas.' + n] = p
        lines.append('/-- DataTypes/_time_checking.py %s = %s -/' % (n, p.replace('-/', '- /')))
        lines.append('def pandas_%s : Re :=\n  %s\n' % (n.lstrip('_'), transcribe(p, mode)))
    cfg = importlib.import_module('vtlengine.duckdb_transpiler.Config.config')
    for n in ('DEFAULT_DECIMAL_WIDTH', 'DEFAULT_DECIMAL_SCALE'):
        if not isinstance(getattr(cfg, n, None), int):
            raise vlib.ShapeError('Config/config.py has no integer constant %s' % n)
    lines.append('/-- Config/config.py DEFAULT_DECIMAL_WIDTH / DEFAULT_DECIMAL_SCALE -/')
    lines.append('def decimalWidth : Int := %d' % cfg.DEFAULT_DECIMAL_WIDTH)
    lines.append('def decimalScale : Int := %d\n' % cfg.DEFAULT_DECIMAL_SCALE)
    names = ['sql_' + n for n in SQL_PATTERNS] + ['pandas_' + n.lstrip('_') for n, _ in PANDAS_PATTERNS]
    lines.append('def patternByName (n : String) : Option Re :=')
    for n in names:
        lines.append('  if n = "%s" then some %s else' % (n, n))
    lines.append('  none')
    lines.append('')
    lines.append('end VtlModel.Input.Gen')
    return '\n'.join(lines) + '\n', pats


def lean_name(key):
    side, n = key.split('.', 1)
    return side + '_' + n.lstrip('_')


if __name__ == '__main__':
    import eng  # noqa
    t, p = generate()
    print(t)

"""Common machinery for every property check (DESIGN.md 2.6 / 2.7).

A check script does

    ck = Check('C11')
    ck.gen('Promotion', lean_source)                 # translator output -> lean/VtlModel/Gen/
    pr = ck.proof('C11')                             # lake build VtlModel.Props.C11 + audit
    out = ck.driver(['(promote 3 1 2)', ...])        # run the Lean model on a line protocol
    ck.violation(key, replay_obj, what)              # concrete failing input on the real code
    ck.unproved(name, why)                           # obligation/correspondence broken, no input found
    ck.finish()                                      # evidence, KNOWN-FINDING / VIOLATION lines, exit code
"""
from __future__ import annotations

import fcntl
import hashlib
import json
import os
import random
import re
import subprocess
import sys
import time
import traceback

HARNESS = os.path.dirname(os.path.abspath(__file__))
VERIF = os.path.dirname(HARNESS)
REPO = os.environ.get('VERIF_REPO', '/repo')
LEAN = os.path.join(VERIF, 'lean')
if os.path.realpath(REPO) != '/repo' and not os.environ.get('VERIF_SHARED_LEAN'):
    # checks run against a scratch copy of the repository (mutation testing) get their own copy of the
    # Lake project, so regenerated Gen/*.lean files never disturb runs against /repo itself.
    LEAN = '/tmp/verif_lean_' + hashlib.sha1(os.path.realpath(REPO).encode()).hexdigest()[:10]
    os.makedirs(LEAN, exist_ok=True)
    _rc = subprocess.run(['rsync', '-a', '--delete', '--exclude', '.lake/verif.lock', '--exclude', '*.tmp', '--exclude', '.lake/audit',
                          os.path.join(VERIF, 'lean') + '/', LEAN + '/']).returncode
    if _rc not in (0, 23, 24):      # 23/24: files vanished while another build was writing; lake rebuilds what is missing
        raise RuntimeError('rsync of the Lake project failed: %d' % _rc)
GEN = os.path.join(LEAN, 'VtlModel', 'Gen')
PROPS = os.path.join(LEAN, 'VtlModel', 'Props')
ALLOWED_AXIOMS = {'propext', 'Classical.choice', 'Quot.sound'}
FORBIDDEN = re.compile(r'\b(sorry|admit|native_decide|bv_decide|implemented_by)\b|^\s*axiom\s|\bunsafe\s|maxHeartbeats\s+0\b', re.M)
GUARD = 'MEANINGFUL_DATA_VTLENGINE_VERIF'


def strip_lean_comments(src: str) -> str:
    out, i, depth, n = [], 0, 0, len(src)
    while i < n:
        if src.startswith('/-', i):
            depth += 1; i += 2; continue
        if depth and src.startswith('-/', i):
            depth -= 1; i += 2; continue
        if depth:
            if src[i] == '\n': out.append('\n')
            i += 1; continue
        if src.startswith('--', i):
            j = src.find('\n', i)
            i = n if j < 0 else j
            continue
        if src[i] == "'":
            m = re.match(r"'(\\x[0-9a-fA-F]{2}|\\u[0-9a-fA-F]{4}|\\.|[^\\'\n])'", src[i:i + 8])
            if m and (i == 0 or not (src[i - 1].isalnum() or src[i - 1] in "_'")):
                out.append("'c'"); i += len(m.group(0)); continue
        if src[i] == '"':
            j = i + 1
            while j < n and src[j] != '"':
                j += 2 if src[j] == '\\' else 1
            out.append('""'); i = j + 1; continue
        out.append(src[i]); i += 1
    return ''.join(out)


def sh(cmd, cwd=None, timeout=3600, env=None, input=None):
    e = dict(os.environ)
    if env: e.update(env)
    p = subprocess.run(cmd, cwd=cwd, shell=isinstance(cmd, str), stdout=subprocess.PIPE, stderr=subprocess.STDOUT,
                       timeout=timeout, env=e, input=input, text=True)
    return p.returncode, p.stdout


class DriverError(RuntimeError):
    pass


class ShapeError(RuntimeError):
    """A translator found source it does not know how to transcribe (-> obligation broken -> search)."""


class LakeLock:
    def __enter__(self):
        os.makedirs(os.path.join(LEAN, '.lake'), exist_ok=True)
        self.f = open(os.path.join(LEAN, '.lake', 'verif.lock'), 'w')
        fcntl.flock(self.f, fcntl.LOCK_EX)
        return self
    def __exit__(self, *a):
        fcntl.flock(self.f, fcntl.LOCK_UN); self.f.close()


def lean_str(s: str) -> str:
    return json.dumps(s, ensure_ascii=False).replace('\\u', '\\u')  # JSON escapes are valid Lean escapes for our content


def lean_list(xs, f=str) -> str:
    return '[' + ', '.join(f(x) for x in xs) + ']'


def load_known():
    """known_findings.json (committed, never written at run time) + known_findings.d/*.json (same format,
    one file per property while the framework is being built)."""
    out = []
    p = os.path.join(VERIF, 'known_findings.json')
    if os.path.exists(p): out += json.load(open(p))
    d = os.path.join(VERIF, 'known_findings.d')
    if os.path.isdir(d):
        for f in sorted(os.listdir(d)):
            if f.endswith('.json'): out += json.load(open(os.path.join(d, f)))
    return out


class Check:
    def __init__(self, pid: str, argv=None, level='proof'):
        import argparse
        ap = argparse.ArgumentParser()
        ap.add_argument('--tier', default=os.environ.get('VERIF_TIER') or 'quick')
        ap.add_argument('--replay', default=None)
        a, _ = ap.parse_known_args(argv)
        self.pid, self.tier, self.replay_path = pid, ('thorough' if a.tier == 'thorough' else 'quick'), a.replay
        try: self.seed = int(os.environ.get('VERIF_SEED') or 0)
        except ValueError: self.seed = 0
        self.rng = random.Random(self.seed * 1000003 + int(hashlib.sha1(pid.encode()).hexdigest()[:6], 16))
        self.level = level
        self.t0 = time.time()
        self.cov = {'evaluations': 0, 'distinct_nontrivial': 0, 'samples': [], 'obligations': 0, 'discharged': 0,
                    'checker_cmd': '', 'trusted_base': [], 'traces_validated_against_impl': 0}
        self._distinct = set()
        self.assumptions = []
        self.viol = []          # (key, replay_path, what, nofail)
        self.known_hits = []    # (key, what)
        self.known = [k for k in load_known() if k.get('property') == pid]
        self.notes = {}
        os.makedirs(os.path.join(VERIF, 'evidence'), exist_ok=True)
        os.makedirs(os.path.join(VERIF, 'replays'), exist_ok=True)

    # ---------------------------------------------------------------- coverage bookkeeping
    def quick(self): return self.tier == 'quick'

    def count(self, case_key=None, nontrivial=True, n=1):
        """One evaluation; case_key (hashable / str) makes it count as distinct non-trivial."""
        self.cov['evaluations'] += n
        if nontrivial and case_key is not None:
            h = hashlib.sha1(repr(case_key).encode()).digest()[:8]
            if h not in self._distinct:
                self._distinct.add(h)
                self.cov['distinct_nontrivial'] = len(self._distinct)

    def sample(self, s, cap=8):
        if len(self.cov['samples']) < cap:
            self.cov['samples'].append(s)

    def note(self, k, v): self.cov[k] = v

    def trusted(self, *items):
        for i in items:
            if i not in self.cov['trusted_base']: self.cov['trusted_base'].append(i)

    # ---------------------------------------------------------------- Lean side
    def gen(self, name: str, content: str):
        """Write lean/VtlModel/Gen/<name>.lean only if it changed (keeps lake's no-op build fast)."""
        os.makedirs(GEN, exist_ok=True)
        p = os.path.join(GEN, name + '.lean')
        hdr = '-- GENERATED from %s by harness/translate on every run. Do not edit.\n' % REPO
        content = hdr + content
        old = open(p).read() if os.path.exists(p) else None
        if old != content:
            with LakeLock():
                open(p, 'w').write(content)
        self.cov.setdefault('translator_digests', {})[name] = hashlib.sha1(content.encode()).hexdigest()[:12]
        return p

    def lake_build(self, module: str, timeout=3000):
        with LakeLock():
            rc, out = sh(['lake', 'build', module], cwd=LEAN, timeout=timeout)
        return rc == 0, out

    def proof(self, name: str, extra_modules=(), theorems_from=None):
        """Build VtlModel.Props.<name>; count obligations (= theorems in the Props file(s)); audit.
        Returns dict(ok, obligations, discharged, failed=[theorem names], log, axioms)."""
        mod = 'VtlModel.Props.' + name
        files = [os.path.join(PROPS, name + '.lean')] + [os.path.join(LEAN, *m.split('.')) + '.lean' for m in extra_modules]
        thms = []  # (file, line, name)
        forb = []
        for f in files:
            src = open(f).read()
            code = strip_lean_comments(src)
            for m in FORBIDDEN.finditer(code):
                forb.append('%s: %s' % (os.path.relpath(f, LEAN), m.group(0).strip()))
            for i, line in enumerate(code.split('\n'), 1):
                m = re.match(r'\s*(?:@\[[^\]]*\]\s*)?(?:private\s+|protected\s+)?theorem\s+([^\s:({\[]+)', line)
                if m: thms.append((f, i, m.group(1)))
        ok, log = self.lake_build(mod)
        failed = []
        if not ok:
            errs = re.findall(r'error: ([^\s:]+\.lean):(\d+):(\d+)', log)
            for ef, el, _ in errs:
                el = int(el)
                cands = [t for t in thms if t[0].endswith(ef) and t[1] <= el]
                if cands:
                    nm = cands[-1][2]
                    if nm not in failed: failed.append(nm)
            if not failed:
                failed = ['<build of %s failed outside a theorem>' % mod]
        axioms = {}
        bad_ax = []
        if ok:
            names = []
            aud = 'import %s\n' % mod + ''.join('import %s\n' % m for m in extra_modules)
            for f in files:
                m_ns = re.search(r'^namespace\s+(\S+)', strip_lean_comments(open(f).read()), re.M)
                ns = m_ns.group(1) if m_ns else 'VtlModel.' + name
                for t in thms:
                    if t[0] == f:
                        names.append(t[2])
                        aud += '#print axioms %s.%s\n' % (ns, t[2])
            os.makedirs(os.path.join(LEAN, '.lake', 'audit'), exist_ok=True)
            ap = os.path.join(LEAN, '.lake', 'audit', name + '.lean')
            open(ap, 'w').write(aud)
            rc, out = sh(['lake', 'env', 'lean', ap], cwd=LEAN, timeout=1200)
            for m in re.finditer(r"'([^']+)' depends on axioms: \[([^\]]*)\]", out.replace('\n', ' ')):
                axs = [a.strip() for a in m.group(2).split(',') if a.strip()]
                axioms[m.group(1)] = axs
                for a in axs:
                    if a not in ALLOWED_AXIOMS: bad_ax.append('%s uses %s' % (m.group(1), a))
            for m in re.finditer(r"'([^']+)' does not depend on any axioms", out):
                axioms[m.group(1)] = []
            if rc != 0 or len(axioms) < len(names):
                bad_ax.append('axiom audit incomplete: %d of %d theorems reported; rc=%d; %s' % (len(axioms), len(names), rc, out[-300:]))
        self.cov['obligations'] += len(thms)
        self.cov['discharged'] += (len(thms) - len([f for f in failed if not f.startswith('<')])) if (ok or failed and not failed[0].startswith('<')) else 0
        self.cov['checker_cmd'] = 'cd lean && lake build %s && lake env lean .lake/audit/%s.lean  (#print axioms of every theorem)' % (mod, name)
        self.cov.setdefault('theorems', [])
        self.cov['theorems'] += [t[2] for t in thms]
        used = sorted({a for v in axioms.values() for a in v})
        self.cov['axioms_used'] = sorted(set(self.cov.get('axioms_used', [])) | set(used))
        self.trusted('Lean 4.33 kernel', 'axioms: ' + (', '.join(used) if used else 'none') + ' (audited by #print axioms on every theorem; no sorry/native_decide/own axioms)')
        if self.tier == 'thorough' and ok:
            with LakeLock():
                rc, out = sh(['lake', 'env', 'leanchecker', mod], cwd=LEAN, timeout=3000)
            self.cov['leanchecker'] = 'ok' if rc == 0 else ('FAILED: ' + out[-300:])
            if rc != 0: bad_ax.append('leanchecker failed on ' + mod)
        return {'ok': ok and not forb and not bad_ax, 'build_ok': ok, 'failed': failed, 'log': log, 'axioms': axioms,
                'forbidden': forb, 'bad_axioms': bad_ax, 'theorems': [t[2] for t in thms]}

    def driver(self, name, lines, timeout=3000):
        """Run the Lean model's line protocol lean/Drivers/<name>.lean on `lines` (one request per line,
        one answer per line); returns the list of answers.  Builds the modules the driver imports first."""
        dpath = os.path.join(LEAN, 'Drivers', name + '.lean')
        mods = re.findall(r'^import\s+(VtlModel\.\S+)', open(dpath).read(), re.M)
        if not hasattr(self, '_built'):
            self._built = set()
        for m in [m for m in mods if m not in self._built]:
            self._built.add(m)
            ok, log = self.lake_build(m)
            if not ok:
                raise DriverError('Lean model %s does not build:\n%s' % (m, log[-2000:]))
        inp = '\n'.join(lines) + '\n'
        rc, out = sh(['lake', 'env', 'lean', '--run', os.path.join('Drivers', name + '.lean')], cwd=LEAN, timeout=timeout, input=inp)
        res = out.split('\n')
        if res and res[-1] == '': res.pop()
        if rc != 0 or len(res) != len(lines):
            raise DriverError('driver failed rc=%s, %d answers for %d requests: %s' % (rc, len(res), len(lines), out[-1500:]))
        return res

    # ---------------------------------------------------------------- verdicts
    def _known_match(self, key):
        for k in self.known:
            if k.get('status', 'known') == 'known' and k.get('key') == key:
                return k
        return None

    def violation(self, key: str, replay: dict, what: str):
        """A concrete failing input, state or history on the real code."""
        k = self._known_match(key)
        if k is not None:
            if key not in [x[0] for x in self.known_hits]:
                self.known_hits.append((key, k.get('what') or what))
            return
        if key in [v[0] for v in self.viol]: return
        path = os.path.join(VERIF, 'replays', '%s_%s.json' % (self.pid, re.sub(r'[^A-Za-z0-9_.-]+', '_', key)[:80]))
        json.dump({'property': self.pid, 'key': key, 'what': what, 'seed': self.seed, 'tier': self.tier, 'replay': replay},
                  open(path, 'w'), indent=1, default=str)
        self.viol.append((key, path, what, False))

    def unproved(self, name: str, why: str, detail=None):
        """A theorem or correspondence no longer checks and the search found no failing input."""
        key = 'unproved:' + name
        if key in [v[0] for v in self.viol]: return
        path = os.path.join(VERIF, 'replays', '%s_%s.json' % (self.pid, re.sub(r'[^A-Za-z0-9_.-]+', '_', key)[:80]))
        json.dump({'property': self.pid, 'no_longer_checks': name, 'why': why, 'detail': detail, 'seed': self.seed},
                  open(path, 'w'), indent=1, default=str)
        self.viol.append((key, path, why, True))

    def finish(self):
        wall = time.time() - self.t0
        cov = dict(self.cov)
        if not cov['samples']: cov['samples'] = ['(no sample recorded)']
        cov['known_findings_hit'] = [k for k, _ in self.known_hits]
        ev = {'property_id': self.pid, 'tier': self.tier, 'seed': self.seed, 'level': self.level, 'coverage': cov,
              'assumptions': self.assumptions, 'wall_s': round(wall, 2), 'violations': len(self.viol)}
        json.dump(ev, open(os.path.join(VERIF, 'evidence', self.pid + '.json'), 'w'), indent=1, default=str)
        for key, what in self.known_hits:
            print('KNOWN-FINDING: property=%s %s [%s]' % (self.pid, what, key))
        concrete = any(not nofail for _, _, _, nofail in self.viol)
        for key, path, what, nofail in self.viol:
            if nofail and concrete:
                # a proof obligation / correspondence no longer checks AND the search found a failing input: the
                # violation is reported with that input (other lines); the broken obligation is named here only
                print('# broken obligation %s (%s): %s -- a failing input is reported by the VIOLATION line(s) of this run'
                      % (key, os.path.relpath(path, VERIF), what))
                continue
            print('# %s: %s' % (key, what))
            print('VIOLATION property=%s replay=%s%s' % (self.pid, os.path.relpath(path, VERIF), ' no-failing-input-found' if nofail else ''))
        print('%s %s: %d obligations / %d discharged, %d evaluations, %d distinct, %d known, %d violations, %.1fs' % (
            self.pid, self.tier, cov['obligations'], cov['discharged'], cov['evaluations'], cov['distinct_nontrivial'],
            len(self.known_hits), len(self.viol), wall))
        sys.stdout.flush()
        sys.exit(1 if self.viol else 0)


def run_check(pid, main):
    """Wrap a check's main(ck): harness crashes are exit 2, never a VIOLATION line."""
    ck = Check(pid)
    try:
        main(ck)
    except SystemExit:
        raise
    except subprocess.TimeoutExpired as e:
        print('TIMEOUT in harness: %s' % e); sys.exit(2)
    except Exception:
        traceback.print_exc()
        print('HARNESS-ERROR property=%s (exit 2; not a violation)' % pid)
        sys.exit(2)
    ck.finish()

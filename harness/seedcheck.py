"""Confirm a seeded change and record it under /verif/seeded/<name>/ (build-time tool, not a check).
usage: seedcheck.py <PROPERTY> <out-dir-of-seeder> [name]
Steps: fresh scratch worktree of /repo HEAD + patch; baseline tests (guard off) must give the 169 stable passes;
demo.py must exit 0 on /repo and non-zero on the patched tree; then `./check <PROPERTY> --tier quick` with
VERIF_REPO=<patched tree>; everything is written to seeded/<name>/meta.json."""
import json, os, re, shutil, subprocess, sys, time

V = os.path.dirname(os.path.dirname(os.path.abspath(__file__)))
prop, out = sys.argv[1], sys.argv[2]
name = sys.argv[3] if len(sys.argv) > 3 else prop
dst = os.path.join(V, 'seeded', name)
os.makedirs(dst, exist_ok=True)
wt = '/tmp/seedwt_' + name
def sh(cmd, **kw):
    p = subprocess.run(cmd, shell=True, stdout=subprocess.PIPE, stderr=subprocess.STDOUT, text=True, **kw)
    return p.returncode, p.stdout
sh('git -C /repo worktree remove --force %s' % wt)
rc, o = sh('git -C /repo worktree add --detach %s HEAD' % wt)
assert rc == 0, o
shutil.copy(os.path.join(out, 'patch.diff'), os.path.join(dst, 'patch.diff'))
shutil.copy(os.path.join(out, 'demo.py'), os.path.join(dst, 'demo.py'))
if os.path.exists(os.path.join(out, 'notes.md')):
    shutil.copy(os.path.join(out, 'notes.md'), os.path.join(dst, 'notes.md'))
rc, o = sh('git -C %s apply %s' % (wt, os.path.join(dst, 'patch.diff')))
meta = {'property': prop, 'name': name, 'repo_head': sh('git -C /repo rev-parse --short HEAD')[1].strip(), 'patch_applies': rc == 0, 'ran': []}
if rc != 0:
    meta['apply_error'] = o[-500:]
else:
    t = time.time()
    rc, o = sh('cd %s && env -u MEANINGFUL_DATA_VTLENGINE_VERIF /venv/bin/python -m pytest -q -p no:cacheprovider --timeout=900 --continue-on-collection-errors 2>&1 | tail -1' % wt)
    meta['baseline_tail'] = o.strip()
    meta['baseline_169_pass'] = '169 passed' in o
    meta['ran'].append('baseline suite in patched tree (guard off): ' + o.strip())
    rc0, o0 = sh('timeout 1200 /venv/bin/python %s /repo' % os.path.join(dst, 'demo.py'))
    rc1, o1 = sh('timeout 1200 /venv/bin/python %s %s' % (os.path.join(dst, 'demo.py'), wt))
    meta['demo_exit_unchanged'] = rc0
    meta['demo_exit_patched'] = rc1
    meta['demo_patched_tail'] = o1[-600:]
    meta['ran'].append('demo.py /repo -> %d ; demo.py patched -> %d' % (rc0, rc1))
    meta['confirmed'] = bool(meta['baseline_169_pass'] and rc0 == 0 and rc1 != 0)
    if '--nocheck' not in sys.argv:
        env = dict(os.environ, VERIF_REPO=wt)
        t = time.time()
        p = subprocess.run(['./check', prop, '--tier', 'quick'], cwd=V, env=env, stdout=subprocess.PIPE, stderr=subprocess.STDOUT, text=True)
        lines = [l for l in p.stdout.split('\n') if l.startswith('VIOLATION') or l.startswith('KNOWN-FINDING') or l.startswith('# ') or l.startswith(prop + ' ')]
        meta['check_exit'] = p.returncode
        lines = [l for l in lines if not l.startswith('KNOWN-FINDING')] + [l for l in lines if l.startswith('KNOWN-FINDING')]
        meta['check_lines'] = [l[:400] for l in lines][:30]
        meta['check_wall_s'] = round(time.time() - t)
        meta['detected'] = p.returncode == 1 and any(l.startswith('VIOLATION') for l in lines)
        meta['ran'].append('VERIF_REPO=<patched tree> ./check %s --tier quick -> exit %d' % (prop, p.returncode))
        # the evidence file was rewritten by the run against the patched tree: restore the committed one
        sh('git -C %s checkout -- evidence/%s.json' % (V, prop))
notes = os.path.join(dst, 'notes.md')
meta['needs_to_manifest'] = open(notes).read()[:1500] if os.path.exists(notes) else ''
json.dump(meta, open(os.path.join(dst, 'meta.json'), 'w'), indent=1)
sh('git -C /repo worktree remove --force %s' % wt)
import hashlib
sh('rm -rf /tmp/verif_lean_' + hashlib.sha1(os.path.realpath(wt).encode()).hexdigest()[:10])
print(json.dumps({k: meta.get(k) for k in ('confirmed', 'detected', 'check_exit', 'baseline_tail', 'demo_exit_unchanged', 'demo_exit_patched')}, indent=1))
for l in meta.get('check_lines', [])[:12]:
    print(l[:300])

"""pytest plugin: install the stand-in parser before collection, so the upstream test
modules (which import vtlengine) can run in this sandbox.  Used to vet `fix:` commits:
  cd /repo && PYTHONPATH=/verif/harness /venv/bin/python -m pytest -p vtlstub_plugin -q -x tests/ReferenceManual
"""
import vtlstub

vtlstub.install()

"""Boot the real vtlengine from /repo's working tree under the stand-in parser, plus small helpers.

Import this before anything from vtlengine.  Hooks (guarded source changes) are enabled by
setting MEANINGFUL_DATA_VTLENGINE_VERIF=1 *before* import.
"""
from __future__ import annotations

import math
import os
import sys
import warnings

HARNESS = os.path.dirname(os.path.abspath(__file__))
REPO = os.environ.get('VERIF_REPO', '/repo')
os.environ.setdefault('MEANINGFUL_DATA_VTLENGINE_VERIF', '1')
sys.path.insert(0, HARNESS)
sys.setrecursionlimit(20000)
warnings.filterwarnings('ignore')

import vtlstub  # noqa: E402

vtlstub.install()

import pandas as pd  # noqa: E402
import vtlengine  # noqa: E402,F401
from vtlengine.Exceptions import VTLEngineException  # noqa: E402

BASIC_TYPES = ['Integer', 'Number', 'String', 'Boolean', 'Date', 'Time_Period', 'Time', 'Duration']


def comp(name, typ, role, nullable=None):
    if nullable is None:
        nullable = role != 'Identifier'
    return {'name': name, 'type': typ, 'role': role, 'nullable': nullable}


def structure(name, comps):
    return {'name': name, 'DataStructure': comps}


def structures(*dss, scalars=()):
    d = {'datasets': list(dss)}
    if scalars:
        d['scalars'] = list(scalars)
    return d


def outcome(fn, *a, **kw):
    """('ok', value) | ('vtl', class, code, msg) | ('raw', class, msg)."""
    try:
        return ('ok', fn(*a, **kw))
    except VTLEngineException as e:
        return ('vtl', type(e).__name__, getattr(e, 'code', None) or _code_of(e), str(e)[:300])
    except BaseException as e:  # noqa: BLE001
        if isinstance(e, (KeyboardInterrupt, SystemExit)):
            raise
        return ('raw', type(e).__module__ + '.' + type(e).__name__, str(e)[:300])


def _code_of(e):
    a = getattr(e, 'args', ())
    if len(a) > 1 and isinstance(a[1], str):
        return a[1]
    return None


def canon_value(v):
    if v is None:
        return None
    try:
        if v is pd.NA or v is pd.NaT:
            return None
    except Exception:
        pass
    if isinstance(v, float):
        if math.isnan(v):
            return None
        return v
    if hasattr(v, 'item') and not isinstance(v, (str, bytes)):
        try:
            return canon_value(v.item())
        except Exception:
            pass
    if isinstance(v, pd.Timestamp):
        return v.isoformat()
    return v


def canon_dataset(ds):
    """Dataset -> (components [(name, role, type, nullable)], sorted rows (tuples in component order))."""
    comps = [(c.name, c.role.value if hasattr(c.role, 'value') else str(c.role), c.data_type.__name__, bool(c.nullable))
             for c in ds.components.values()]
    rows = None
    if ds.data is not None:
        df = ds.data
        cols = [c[0] for c in comps if c[0] in df.columns]
        rows = sorted((tuple(canon_value(v) for v in r) for r in df[cols].itertuples(index=False, name=None)),
                      key=lambda r: tuple((x is None, str(type(x).__name__), x) if x is not None else (True, '', 0) for x in r))
    return comps, rows, list(ds.data.columns) if ds.data is not None else None


def num_eq(a, b, rel=1e-9, abs_=1e-12):
    if a is None or b is None:
        return a is None and b is None
    if isinstance(a, bool) or isinstance(b, bool):
        return a == b
    if isinstance(a, (int, float)) and isinstance(b, (int, float)):
        return a == b or abs(a - b) <= max(abs_, rel * max(abs(a), abs(b)))
    return a == b

"""C11 — semantic type rules follow the documented implicit-cast table; check agrees with promotion; result type
independent of operand order for commutative operators.

  1. translators (harness/translate/types_tables.py, docs_tables.py) regenerate lean/VtlModel/Gen/{Promotion,
     PromotionFns,Operators,CastCode,DocTables}.lean from the live objects / Python ast / docs of $VERIF_REPO
  2. lake build VtlModel.Props.C11 (+ axiom audit)                     -> obligations / discharged
  3. correspondence
       K1  the transcribed Lean functions vs the LIVE Python functions on all 9x9x10x10 (+ 9x10x10) argument tuples,
           and every generated table vs the live object / the parsed docs (driver lean/Drivers/Types.lean)
       K2  every templated operator class x operand type pair through semantic_analysis() at scalar, component and
           dataset level vs the Lean prediction for the class's (type_to_check, return_type)
  4. the property's own predicates evaluated on the real code (always, not only after a failure):
       check-agrees, operand-order independence of the commutative operators, acceptance / result type vs the
       documented table -> ck.violation(key, replay) ; broken proof / correspondence without failing input -> ck.unproved
"""
import json
import multiprocessing as mp
import os
import sys
import time

sys.path.insert(0, os.path.join(os.path.dirname(os.path.abspath(__file__)), '..'))
sys.path.insert(0, os.path.join(os.path.dirname(os.path.abspath(__file__)), '..', 'translate'))
import vlib  # noqa: E402

TY = ['String', 'Number', 'Integer', 'Time', 'Date', 'Time_Period', 'Duration', 'Boolean', 'Null']
IX = {n: i for i, n in enumerate(TY)}
BASIC = TY[:8]
NONE = 9
# decision: which operators are commutative (mirrors VtlModel.Spec.commutativeOps / commutativeSetClasses)
COMMUTATIVE = ['+', '*', '=', '<>', 'and', 'or', 'xor']
COMM_SET = {'Union': 'union', 'Intersection': 'intersect', 'Symdiff': 'symdiff'}

# script templates per `op` token: how the operator is written in VTL
INFIX = ['+', '-', '*', '/', '||', 'and', 'or', 'xor', '=', '<>', '>', '>=', '<', '<=']
FUNC2 = {'mod': 'mod', 'power': 'power', 'log': 'log', 'match_characters': 'match_characters'}
FUNC1 = {'abs': 'abs', 'ceil': 'ceil', 'floor': 'floor', 'exp': 'exp', 'ln': 'ln', 'sqrt': 'sqrt', 'upper': 'upper',
         'lower': 'lower', 'trim': 'trim', 'ltrim': 'ltrim', 'rtrim': 'rtrim', 'length': 'length', 'not': 'not ',
         'isnull': 'isnull'}
TEMPLATED_MODULES = {'Numeric', 'String', 'Boolean', 'Comparison'}


# ----------------------------------------------------------------------------------------------- engine workers
_S = None


def _structs():
    global _S
    if _S is None:
        import eng
        dss = [eng.structure('DS_' + t, [eng.comp('Id_1', 'Integer', 'Identifier'), eng.comp('Me_1', t, 'Measure')]) for t in BASIC]
        dss += [eng.structure('DX_' + t, [eng.comp('Id_1', 'Integer', 'Identifier'), eng.comp('Me_1', t, 'Measure')]) for t in BASIC]
        dss.append(eng.structure('DC', [eng.comp('Id_1', 'Integer', 'Identifier')] + [eng.comp('Me_' + t, t, 'Measure') for t in BASIC]
                                 + [eng.comp('Mx_' + t, t, 'Measure') for t in BASIC]))
        _S = eng.structures(*dss, scalars=[{'name': 'sc_' + t, 'type': t} for t in BASIC] + [{'name': 'sx_' + t, 'type': t} for t in BASIC])
    return _S


def sem(script):
    """semantic_analysis outcome of a one-statement script `r <- ...;` -> ('ok', type name | {measure: type}) | ('err', class, code)."""
    import eng
    from vtlengine import semantic_analysis
    o = eng.outcome(semantic_analysis, script=script, data_structures=_structs())
    if o[0] != 'ok':
        return ('err', o[1], o[2])
    v = o[1]['r']
    R = {c: n for n, c in __import__('vtlengine').DataTypes.SCALAR_TYPES.items()}
    if hasattr(v, 'components'):
        return ('ok', {c.name: R[c.data_type] for c in v.components.values() if c.role.value == 'Measure'})
    return ('ok', R[v.data_type])


def _sem_many(scripts):
    return [sem(s) for s in scripts]


def run_scripts(scripts, procs):
    """{script: outcome} using a fork pool (the engine is already imported in the parent)."""
    scripts = list(dict.fromkeys(scripts))
    if not scripts: return {}
    if procs <= 1 or len(scripts) < 40:
        return dict(zip(scripts, _sem_many(scripts)))
    n = max(1, len(scripts) // (procs * 4))
    chunks = [scripts[i:i + n] for i in range(0, len(scripts), n)]
    with mp.get_context('fork').Pool(procs) as pool:
        res = pool.map_async(_sem_many, chunks).get(timeout=1500)
    out = {}
    for c, r in zip(chunks, res):
        out.update(zip(c, r))
    return out


def operand(level, t, side):
    if t == 'Null': return 'null' if level == 'sc' else None
    if level == 'sc': return ('sc_' if side == 0 else 'sx_') + t
    if level == 'dc': return ('Me_' if side == 0 else 'Mx_') + t
    return ('DS_' if side == 0 else 'DX_') + t


def expr(op, args):
    if len(args) == 2:
        if op in INFIX: return '%s %s %s' % (args[0], op, args[1])
        if op in FUNC2: return '%s(%s, %s)' % (FUNC2[op], args[0], args[1])
        if op in COMM_SET.values(): return '%s(%s, %s)' % (op, args[0], args[1])
    else:
        if op in ('+', '-'): return '%s %s' % (op, args[0])
        if op in FUNC1: return '%s(%s)' % (FUNC1[op], args[0])
    return None


def script_for(op, level, ts):
    args = [operand(level, t, i) for i, t in enumerate(ts)]
    if None in args: return None
    e = expr(op, args)
    if e is None: return None
    if level == 'dc': return 'r <- DC[calc Me_r := %s][keep Me_r];' % e
    return 'r <- %s;' % e


def result_type(out):
    """type reported by semantic analysis for the (single) result measure / scalar, or None."""
    if out[0] != 'ok': return None
    if isinstance(out[1], dict):
        v = list(out[1].values())
        return v[0] if len(v) == 1 else None
    return out[1]


# ----------------------------------------------------------------------------------------------- live functions
def live_call(fn, args):
    from vtlengine.Exceptions import SemanticError
    try:
        return ('ok', fn(*args))
    except SemanticError as e:
        return ('err', str(e.args[1]) if len(e.args) > 1 else getattr(e, 'code', '?'))


def main(ck):
    import types_tables as T
    import docs_tables as D
    procs = min(12, os.cpu_count() or 4)
    t0 = time.time()
    L = T.Live()
    DT = L.DT
    cls = [L.cls_of[n] for n in TY]
    optcls = cls + [None]
    fns = [DT.binary_implicit_promotion, DT.check_binary_implicit_promotion, DT.unary_implicit_promotion, DT.check_unary_implicit_promotion]

    def nm(c): return 'None' if c is None else L.name_of[c]

    # ---------------------------------------------------------------- 1. translators
    shape_errors = []
    rows = sites = rs = None
    doc = None
    try:
        ck.gen('Promotion', T.gen_promotion(L))
        ck.gen('PromotionFns', T.gen_promotion_fns(L))
        txt, rows, sites, rs = T.gen_operators(L)
        ck.gen('Operators', txt)
        ck.gen('CastCode', T.gen_cast_code(L))
    except vlib.ShapeError as e:
        shape_errors.append('types_tables: %s' % e)
    try:
        dtxt, doc = D.gen_doc_tables()
        ck.gen('DocTables', dtxt)
    except vlib.ShapeError as e:
        shape_errors.append('docs_tables: %s' % e)
    if rows is None:
        rows = T.class_rows(L)
        sites = T.scan_direct_sites(L)
        rs = T.resolved_sites(L, sites, rows)
    ck.trusted('translators harness/translate/types_tables.py (tables copied from live objects; 4 promotion functions transcribed from '
               'their Python ast) and docs_tables.py (rst list-tables) — tied by K1: exhaustive comparison with the live functions/objects',
               'stand-in parser harness/vtlstub for the scripts of K2', 'VTL reference-manual operator signatures restated in Types/Spec.lean opSpec')

    # ---------------------------------------------------------------- 2. proof
    pr = None
    if not shape_errors:
        pr = ck.proof('C11')
    proof_ok = bool(pr and pr['ok'])

    # documented predicates in Python (independent restatement of Types/Spec.lean over the parsed docs)
    if doc is None:
        try: doc = D.read_docs()
        except vlib.ShapeError: doc = None

    def d_imp(a, b):
        if a == 'Null': return bool(doc['null_rule'])
        if b == 'Null': return False
        return doc['implicit'].get((a, b)) == 'y'
    def d_admits(ttc, c): return ttc is None or d_imp(c, ttc)
    def d_acc(ttc, l, r): return any(d_imp(l, c) and d_imp(r, c) and d_admits(ttc, c) for c in TY)
    def d_accu(ttc, x): return any(d_imp(x, c) and d_admits(ttc, c) for c in TY)
    def d_sub(a, b): return (a, b) in doc['subtype']
    def d_res(ttc, l, r, res): return d_imp(l, res) and d_imp(r, res) and d_admits(ttc, res) and not d_sub(res, l) and not d_sub(res, r)
    def d_resu(ttc, x, res): return d_imp(x, res) and d_admits(ttc, res) and not d_sub(res, x)

    # ---------------------------------------------------------------- 3. K1: Lean functions / tables vs live objects
    k1_bad = []
    driver_ok = False
    lean = {}
    if not shape_errors:
        reqs = []
        for t in range(10):
            for u in range(10):
                for l in range(9):
                    for r in range(9):
                        reqs.append('bin %d %d %d %d' % (l, r, t, u)); reqs.append('chkbin %d %d %d %d' % (l, r, t, u))
                    reqs.append('un %d %d %d' % (l, t, u)); reqs.append('chkun %d %d %d' % (l, t, u))
        for w in ('implicit', 'explicit', 'subclass', 'docimplicit', 'docexplicit'):
            for a in range(9):
                for b in range(9): reqs.append('tbl %s %d %d' % (w, a, b))
        for t in range(10):
            for l in range(9):
                for r in range(9): reqs.append('docacc %d %d %d' % (t, l, r))
                reqs.append('docaccu %d %d' % (t, l))
        reqs += ['classes', 'comm', 'sigs']
        try:
            ans = ck.driver('Types', reqs)
            lean = dict(zip(reqs, ans)); driver_ok = True
        except vlib.DriverError as e:
            k1_bad.append(('driver', str(e)[:400]))
    if driver_ok:
        for q, a in lean.items():
            w = q.split()
            exp = None
            if w[0] in ('bin', 'chkbin'):
                l, r, t, u = (int(x) for x in w[1:])
                o = live_call(fns[0 if w[0] == 'bin' else 1], (cls[l], cls[r], optcls[t], optcls[u]))
                exp = ('ok %d' % IX[nm(o[1])] if w[0] == 'bin' else 'ok %s' % str(bool(o[1])).lower()) if o[0] == 'ok' else 'err ' + o[1]
                ck.count(q)
            elif w[0] in ('un', 'chkun'):
                x, t, u = (int(v) for v in w[1:])
                o = live_call(fns[2 if w[0] == 'un' else 3], (cls[x], optcls[t], optcls[u]))
                exp = ('ok %d' % IX[nm(o[1])] if w[0] == 'un' else 'ok %s' % str(bool(o[1])).lower()) if o[0] == 'ok' else 'err ' + o[1]
                ck.count(q)
            elif w[0] == 'tbl':
                a_, b_ = int(w[2]), int(w[3])
                if w[1] == 'implicit': exp = str(cls[b_] in DT.IMPLICIT_TYPE_PROMOTION_MAPPING[cls[a_]]).lower()
                elif w[1] == 'explicit': exp = str(cls[b_] in DT.EXPLICIT_WITHOUT_MASK_TYPE_PROMOTION_MAPPING[cls[a_]]).lower()
                elif w[1] == 'subclass': exp = str(issubclass(cls[a_], cls[b_])).lower()
                elif w[1] == 'docimplicit' and doc: exp = str(d_imp(TY[a_], TY[b_])).lower()
                elif w[1] == 'docexplicit' and doc: exp = str(doc['explicit'].get((TY[a_], TY[b_])) == 'y').lower()
                ck.count(q, nontrivial=False)
            elif w[0] == 'docacc' and doc:
                t, l, r = (int(v) for v in w[1:]); exp = str(d_acc(None if t == 9 else TY[t], TY[l], TY[r])).lower()
            elif w[0] == 'docaccu' and doc:
                t, x = (int(v) for v in w[1:]); exp = str(d_accu(None if t == 9 else TY[t], TY[x])).lower()
            elif w[0] == 'classes':
                exp = ';'.join('%s.%s:%d:%s:%s:%s' % (r['module'], r['name'], r['kind'], 9 if r['ttc'] is None else IX[nm(r['ttc'])],
                                                    9 if r['rt'] is None else IX[nm(r['rt'])], '' if r['op'] is None else str(r['op'])) for r in rows)
            if exp is not None and exp != a:
                k1_bad.append((q, 'lean=%s live=%s' % (a[:80], exp[:80])))
        ck.sample({'K1': 'bin 2 1 9 9 (Integer,Number,None,None)', 'lean': lean.get('bin 2 1 9 9'),
                   'live': nm(DT.binary_implicit_promotion(cls[2], cls[1]))})
    ck.note('k1_requests', len(lean)); ck.note('k1_disagreements', len(k1_bad))

    # ---------------------------------------------------------------- 4a. property predicates on the live functions
    def promote(l, r, ttc, rt): return live_call(fns[0], (l, r, ttc, rt))
    def promote1(x, ttc, rt): return live_call(fns[2], (x, ttc, rt))

    # operator classes reachable through a script template
    templ = []
    for r in rows:
        op = None if r['op'] is None else str(r['op'])
        if r['module'] in TEMPLATED_MODULES and op is not None and r['kind'] in (1, 2) and expr(op, ['a', 'b'][:r['kind']]) is not None:
            # token '-'/'+' exist as unary and binary classes; both are templated through their own arity
            templ.append(r)
    comm_rows = [r for r in rows if r['kind'] == 2 and r['op'] is not None and str(r['op']) in COMMUTATIVE]
    comm_sites = [x for x in rs if x['site']['which'] == 0 and x['cls'] in COMM_SET and x['module'] == 'Set']
    if driver_ok:
        lc = lean['comm'].split(' | ')
        if sorted(lc[0].split(';')) != sorted('%s.%s' % (r['module'], r['name']) for r in comm_rows) or \
                len([s for s in lc[1].split(';') if s]) != len(comm_sites):
            k1_bad.append(('comm', 'lean=%s python=%s' % (lean['comm'][:200], [r['name'] for r in comm_rows])))

    # (P1) the check agrees with the promotion — every (ttc, rt), every pair, on the live functions
    p1 = []
    for t in optcls:
        for u in optcls:
            for l in cls:
                for r in cls:
                    c = live_call(fns[1], (l, r, t, u)); p = promote(l, r, t, u)
                    if c[0] != 'ok' or bool(c[1]) != (p[0] == 'ok'): p1.append(('binary', t, u, l, r, c, p))
                c = live_call(fns[3], (l, t, u)); p = promote1(l, t, u)
                if c[0] != 'ok' or bool(c[1]) != (p[0] == 'ok'): p1.append(('unary', t, u, l, None, c, p))
    used_attrs = {(r['ttc'], r['rt']) for r in rows}
    scripts_needed = []
    if p1:
        p1.sort(key=lambda w: ((w[1], w[2]) not in used_attrs,))
        w = p1[0]
        users = [r for r in templ if (r['ttc'], r['rt']) == (w[1], w[2]) and r['kind'] == (2 if w[0] == 'binary' else 1)]
        rep = {'kind': 'function', 'fn': 'check_%s_implicit_promotion vs %s_implicit_promotion' % (w[0], w[0]),
               'args': {'left' if w[0] == 'binary' else 'operand': nm(w[3]), 'right': nm(w[4]) if w[4] else None,
                        'type_to_check': nm(w[1]), 'return_type': nm(w[2])},
               'check_returns': repr(w[5]), 'promotion': repr(w[6]), 'witnesses': len(p1)}
        if users:
            ts = [nm(w[3])] + ([nm(w[4])] if w[4] else [])
            rep['scripts'] = {lv: script_for(str(users[0]['op']), lv, ts) for lv in ('sc', 'dc', 'ds')}
            rep['outcomes'] = {lv: (repr(sem(s)) if s else None) for lv, s in rep['scripts'].items()}
        ck.violation('check_agrees:%s:ttc=%s:rt=%s:%s,%s' % (w[0], nm(w[1]), nm(w[2]), nm(w[3]), nm(w[4]) if w[4] else '-'), rep,
                     'check_%s_implicit_promotion%r returns %r but the promotion gives %r (%d such argument tuples)' % (
                         w[0], tuple(nm(x) for x in (w[3], w[4], w[1], w[2]) if x is not None or True), w[5], w[6], len(p1)))

    # (P2) operand order: commutative classes and the commutative set-operator call sites
    asym_unreachable = []
    comm_scripts = []
    for r in comm_rows:
        for l in cls:
            for rr in cls:
                if TY.index(nm(l)) < TY.index(nm(rr)) and promote(l, rr, r['ttc'], r['rt']) != promote(rr, l, r['ttc'], r['rt']):
                    if r in templ: comm_scripts.append(('%s.%s' % (r['module'], r['name']), str(r['op']), nm(l), nm(rr)))
                    else: asym_unreachable.append('%s.%s(%s,%s)' % (r['module'], r['name'], nm(l), nm(rr)))
    set_asym = set()
    for x in comm_sites:
        for l in cls:
            for rr in cls:
                t_ = x['ttc'][1] if x['ttc'][0] == 'some' else None
                u_ = x['rt'][1] if x['rt'][0] == 'some' else None
                if TY.index(nm(l)) < TY.index(nm(rr)) and promote(l, rr, t_, u_) != promote(rr, l, t_, u_):
                    set_asym.add((x['cls'], nm(l), nm(rr)))
    for (c, l, r) in sorted(set_asym):
        if 'Null' not in (l, r): comm_scripts.append((COMM_SET[c], COMM_SET[c], l, r))
    ck.note('asymmetric_but_unreachable', sorted(set(asym_unreachable)))  # HR operators: both operands come from one measure

    # ---------------------------------------------------------------- K2 + property on semantic_analysis()
    levels = ('sc', 'dc', 'ds')
    cases = []      # (row, level, types tuple, script)
    for r in templ:
        op = str(r['op'])
        pairs = [(a, b) for a in TY for b in TY] if r['kind'] == 2 else [(a,) for a in TY]
        if ck.quick():
            keep = [p for p in pairs if set(p) <= {'Integer', 'Number', 'Null'} or len(set(p)) == 1]
            rest = [p for p in pairs if p not in keep]
            ck.rng.shuffle(rest)
            pairs = keep + rest[:max(6, len(rest) // 3)]
        for p in pairs:
            for lv in levels:
                s = script_for(op, lv, list(p))
                if s: cases.append((r, lv, p, s))
    swap_cases = []
    for (cname, op, l, r) in comm_scripts:
        for lv in levels:
            if op in COMM_SET.values() and lv != 'ds': continue
            a, b = script_for(op, lv, [l, r]), script_for(op, lv, [r, l])
            if a and b: swap_cases.append((cname, op, lv, l, r, a, b))
    outs = run_scripts([c[3] for c in cases] + [x for sc in swap_cases for x in sc[5:7]], procs)
    ck.note('k2_scripts', len(outs))

    k2_bad, covered = [], set()
    sigs = {}
    if driver_ok:
        for ent in lean['sigs'].split(';'):
            c_, a_, b_ = ent.split(':')
            sigs[c_.split('.')[-1]] = (None if a_ == '9' else TY[int(a_)], None if b_ == '9' else TY[int(b_)])
    for (r, lv, p, s) in cases:
        o = outs[s]
        t_, u_ = r['ttc'], r['rt']
        tn, un = (None if t_ is None else nm(t_)), (None if u_ is None else nm(u_))
        attrs = (tn, un)
        got_acc, got_res = o[0] == 'ok', result_type(o)
        q = ('bin %d %d %d %d' % (IX[p[0]], IX[p[1]], 9 if t_ is None else IX[tn], 9 if u_ is None else IX[un])) if len(p) == 2 else \
            ('un %d %d %d' % (IX[p[0]], 9 if t_ is None else IX[tn], 9 if u_ is None else IX[un]))
        ck.count((r['module'], r['name'], lv, p))
        covered.add('%s.%s' % (r['module'], r['name']))
        # K2: Lean prediction for the class attributes
        if driver_ok:
            la = lean[q]
            if (la.startswith('ok') != got_acc) or (got_acc and la != 'ok %d' % IX.get(got_res, -1)):
                k2_bad.append({'class': '%s.%s' % (r['module'], r['name']), 'level': lv, 'types': p, 'script': s, 'lean': la, 'engine': repr(o)[:160]})
        # property on the engine outcome: acceptance and result type against the documented table, for the operand /
        # result type the VTL reference manual gives the operator (Spec.opSpec) when it is listed there
        if T.cls_ident(r) in sigs:
            tn, un = sigs[T.cls_ident(r)]
        if doc:
            dacc = d_acc(tn, *p) if len(p) == 2 else d_accu(tn, *p)
            if dacc != got_acc:
                ck.violation('accept_doc:%s.%s:%s:%s' % (r['module'], r['name'], lv, ','.join(p)),
                             {'kind': 'scripts', 'scripts': [s], 'outcome': repr(o), 'documented_accept': dacc,
                              'operand_type_of_operator': tn, 'class_attributes': attrs, 'levels': lv},
                             'semantic_analysis %s operands (%s) of %s at %s level; the documented implicit table says %s' % (
                                 'accepts' if got_acc else 'rejects', ', '.join(p), r['op'], lv, 'accept' if dacc else 'reject'))
            elif got_acc and got_res is not None:
                ok = (got_res == un) if un is not None else (d_res(tn, p[0], p[1], got_res) if len(p) == 2 else d_resu(tn, p[0], got_res))
                if not ok:
                    ck.violation('result_doc:%s.%s:%s:%s->%s' % (r['module'], r['name'], lv, ','.join(p), got_res),
                                 {'kind': 'scripts', 'scripts': [s], 'outcome': repr(o), 'documented_return_type': un,
                                  'operand_type_of_operator': tn, 'class_attributes': attrs},
                                 'semantic_analysis types %s(%s) as %s at %s level, not a documented result type' % (r['op'], ', '.join(p), got_res, lv))
    ck.note('classes_through_semantic_analysis', sorted(covered))
    ck.note('classes_function_level_only', sorted({'%s.%s' % (r['module'], r['name']) for r in rows} - covered))
    if cases:
        c0 = cases[len(cases) // 2]
        ck.sample({'K2': c0[3], 'engine': repr(outs[c0[3]])})

    # operand order on the engine (the replay of the Lean witness of promote_comm_or_counter)
    fam = {}
    for (cname, op, lv, l, r, a, b) in swap_cases:
        oa, ob = outs[a], outs[b]
        ck.count(('swap', cname, lv, l, r))
        if (oa[0] == 'ok') != (ob[0] == 'ok') or result_type(oa) != result_type(ob):
            fam.setdefault((cname, l, r), []).append({'level': lv, 'op': op, 'scripts': [a, b], 'outcomes': [repr(oa), repr(ob)]})
    for (op, l, r), reps in sorted(fam.items()):
        ck.violation('operand_order:%s:%s,%s' % (op, l, r), {'kind': 'swap', 'op': op, 'cases': reps},
                     'result type of the commutative operator %s depends on operand order: %s vs %s' % (op, reps[0]['outcomes'][0][:90], reps[0]['outcomes'][1][:90]))
    ck.sample({'operand_order': [{'op': k[0], 'types': k[1:], 'first': v[0]} for k, v in list(fam.items())[:2]]})

    # result type of the untyped call sites (if / case …): both branches promote, the result must not be narrower
    extra = []
    for (l, r) in [('Integer', 'Number'), ('Number', 'Integer')]:
        extra.append(('if', 'r <- if sc_Boolean then sc_%s else sx_%s;' % (l, r), l, r))
        extra.append(('case', 'r <- DC[calc Me_r := case when Me_Boolean then Me_%s else Mx_%s][keep Me_r];' % (l, r), l, r))
        extra.append(('union', 'r <- union(DS_%s, DX_%s);' % (l, r), l, r))
    eo = run_scripts([e[1] for e in extra], 1)
    for (op, s, l, r) in extra:
        o = eo[s]; res = result_type(o)
        ck.count(('untyped', op, l, r))
        if doc and o[0] == 'ok' and res is not None and not d_res(None, l, r, res):
            ck.violation('result_doc:%s:%s,%s->%s' % (op, l, r, res), {'kind': 'scripts', 'scripts': [s], 'outcome': repr(o)},
                         '`%s` over (%s, %s) is typed %s — narrower than an operand (the result may hold a Number)' % (op, l, r, res))

    # ---------------------------------------------------------------- 5. verdicts for broken proof / correspondence
    for e in shape_errors:
        ck.unproved('translator', e)
    if pr is not None and not proof_ok:
        det = {'failed': pr['failed'], 'forbidden': pr['forbidden'], 'bad_axioms': pr['bad_axioms'], 'log_tail': pr['log'][-1500:]}
        if pr['forbidden'] or pr['bad_axioms']:
            ck.unproved('C11.audit', 'forbidden construct or axiom audit failure: %r %r' % (pr['forbidden'], pr['bad_axioms'][:3]), det)
        for f in (pr['failed'] or ['<audit>']):
            if not ck.viol or all(v[3] for v in ck.viol):
                ck.unproved('C11.' + f, 'theorem no longer checks and no failing input of the property was found on the real code', det)
        if ck.viol and not all(v[3] for v in ck.viol):
            ck.note('broken_theorems', pr['failed'])
    if k1_bad:
        ck.unproved('K1:lean-vs-live-functions', '%d disagreements between the transcribed Lean functions/tables and the live objects, first: %r' % (len(k1_bad), k1_bad[0]), k1_bad[:20])
    if k2_bad:
        ck.unproved('K2:semantic_analysis-vs-model', '%d operator/type/level cases where semantic_analysis() differs from the model, first: %r' % (len(k2_bad), k2_bad[0]), k2_bad[:20])
    ck.note('k2_disagreements', len(k2_bad))
    ck.note('wall_parts', {'total': round(time.time() - t0, 1)})
    ck.assumptions += ['type classes are truthy and ScalarType.is_included/is_subtype are not overridden (asserted by the translator on every run)',
                       'commutative operators = Binary classes with op in %r and the set operators %r' % (COMMUTATIVE, sorted(COMM_SET.values())),
                       'documented result type = a common type both operands promote to, admitted by the operator, not a strict documented subtype of an operand']


def replay(path):
    d = json.load(open(path))
    rp = d.get('replay', {})
    import eng  # noqa: F401
    print(json.dumps({k: rp[k] for k in rp if k not in ('cases',)}, indent=1, default=str)[:1500])
    scripts = list(rp.get('scripts', {}).values()) if isinstance(rp.get('scripts'), dict) else list(rp.get('scripts', []))
    for c in rp.get('cases', []): scripts += c['scripts']
    for s in scripts:
        if s: print(s, '=>', sem(s))
    return 0


if __name__ == '__main__':
    if '--replay' in sys.argv:
        sys.exit(replay(sys.argv[sys.argv.index('--replay') + 1]))
    vlib.run_check('C11', main)

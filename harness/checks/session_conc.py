"""C17, real-engine side: recording of shared-state access traces of API calls, a deterministic scheduler that
forces thread interleavings at the hook's access points, translation of traces to the Lean line protocol."""
from __future__ import annotations

import ast
import os
import sys
import threading
import time

HERE = os.path.dirname(os.path.abspath(__file__))
sys.path.insert(0, os.path.join(HERE, '..'))
import session_lib as S  # noqa: E402

VARS = ['viral_registry', 'virtual_counter', 'time_period_representation', 'exceptions_dataset_output',
        'decimal_config', 'parser_state']
LOCK_ID = 0

VA = lambda name: {"name": name, "DataStructure": [
    {"name": "Id_1", "type": "Integer", "role": "Identifier", "nullable": False},
    {"name": "Me_1", "type": "Number", "role": "Measure", "nullable": True},
    {"name": "VAt_1", "type": "String", "role": "Viral Attribute", "nullable": True}]}
VSTRUCTS = {"datasets": [VA("DS_1"), VA("DS_2")]}
TP = {"datasets": [{"name": "DS_1", "DataStructure": [
    {"name": "Id_1", "type": "Integer", "role": "Identifier", "nullable": False},
    {"name": "Me_1", "type": "Time_Period", "role": "Measure", "nullable": True}]}]}


def var_id(name, extra):
    if name in VARS: return VARS.index(name)
    if name not in extra: extra.append(name)
    return len(VARS) + extra.index(name)


# ------------------------------------------------------------------ instrumentation
class ProxyLock:
    """stands in for parser_lock (same object semantics), reports outermost acquire / release"""
    def __init__(self, real, hub):
        self.real, self.hub, self.depth = real, hub, threading.local()

    def _d(self): return getattr(self.depth, 'n', 0)

    def acquire(self, *a, **k):
        outer = self._d() == 0
        if outer: self.hub.on_lock('acq', before=True)
        r = self.real.acquire(*a, **k)
        self.depth.n = self._d() + 1
        if outer: self.hub.on_lock('acq', before=False)
        return r

    def release(self):
        self.depth.n = self._d() - 1
        outer = self._d() == 0
        if outer: self.hub.on_lock('rel', before=True)
        self.real.release()
        if outer: self.hub.on_lock('rel', before=False)

    def __enter__(self): self.acquire(); return self
    def __exit__(self, *a): self.release()
    def owned(self): return self._d() > 0


class Hub:
    """records every access with the call that made it; in forced mode lets exactly one call run at a time and
    parks calls at the gate points of the variable under test"""
    def __init__(self):
        self.lock = None
        self.reset()

    def reset(self, gate_var=None, forced=False):
        self.log = []
        self.tids = {}
        self.gate_var, self.forced = gate_var, forced
        self.parked, self.go, self.finished, self.outcome = {}, {}, {}, {}

    def call_of(self): return self.tids.get(threading.get_ident())

    def sink(self, kind, name, info):
        if kind != 'access': return
        c = self.call_of()
        if c is None: return
        mode, value = info
        if self.forced and name == self.gate_var and not (self.lock is not None and self.lock.owned()):
            self.gate(c)
            if mode in ('r', 'rw'): value = current_value(name, value)   # the hook's argument was evaluated before parking
        self.log.append((c, 'access', name, mode, value))

    def on_lock(self, what, before):
        c = self.call_of()
        if c is None: return
        if what == 'acq' and before:
            if self.forced and self.gate_var == 'parser_state': self.gate(c)
        elif what == 'acq':
            self.log.append((c, 'lock', 'acq', None, None))
        elif what == 'rel' and before:
            self.log.append((c, 'lock', 'rel', None, None))
        else:
            if self.forced and self.gate_var == 'parser_state': self.gate(c)

    def gate(self, c):
        self.parked[c].set()
        self.go[c].acquire()

    # ---- running
    def _thread(self, c, fn):
        self.tids[threading.get_ident()] = c
        if self.forced: self.go[c].acquire()
        try:
            self.outcome[c] = S._ENG['eng'].outcome(fn)
        finally:
            self.finished[c] = True
            self.parked[c].set()

    def run_forced(self, fns, schedule, timeout=900):
        n = len(fns)
        for c in range(n):
            self.parked[c], self.go[c], self.finished[c] = threading.Event(), threading.Semaphore(0), False
        ths = [threading.Thread(target=self._thread, args=(c, fns[c]), daemon=True) for c in range(n)]
        for t in ths: t.start()
        stuck = False

        def grant(c):
            nonlocal stuck
            if self.finished[c] or stuck: return
            self.parked[c].clear()
            self.go[c].release()
            if not self.parked[c].wait(timeout): stuck = True
        for c in range(n): grant(c)           # each call runs (alone) up to its first gate
        for c in schedule: grant(c)
        for c in range(n):
            guard = 0
            while not self.finished[c] and not stuck and guard < 100000:
                grant(c); guard += 1
        for t in ths: t.join(1 if stuck else timeout)
        return {'stuck': stuck, 'outcome': dict(self.outcome), 'log': list(self.log)}

    def run_solo(self, fn, timeout=900):
        self.reset()
        self.parked[0], self.go[0], self.finished[0] = threading.Event(), threading.Semaphore(0), False
        t = threading.Thread(target=self._thread, args=(0, fn), daemon=True)
        t.start(); t.join(timeout)
        return {'stuck': t.is_alive(), 'outcome': dict(self.outcome), 'log': list(self.log)}


HUB = Hub()
_INST = {}


def current_value(name, reported):
    g = S._ENG
    if name == 'viral_registry': return id(_INST['VP']._current_registry)
    if name == 'exceptions_dataset_output': return g['E'].dataset_output
    if name == 'time_period_representation': return g['TPC']._representation
    if name == 'virtual_counter':
        fn = sys._getframe(3).f_code.co_name
        if fn == '_new_ds_name': return _INST['VC'].dataset_count
        if fn == '_new_dc_name': return _INST['VC'].component_count
    return reported


def instrument(tmp_root):
    g = S.boot(tmp_root)
    if _INST: return g
    import vtlengine.API as API
    import vtlengine.AST.ASTComment as ASTC
    import vtlengine.AST.Grammar._cpp_parser as CP
    import vtlengine.ViralPropagation as VP
    from vtlengine.Utils.__Virtual_Assets import VirtualCounter
    real = CP.parser_lock
    px = ProxyLock(real, HUB)
    HUB.lock = px
    for m in (API, ASTC, CP):
        if getattr(m, 'parser_lock', None) is real: m.parser_lock = px
    g['V'].sink = HUB.sink
    _INST.update(VP=VP, VC=VirtualCounter, API=API)
    return g


def reset_shared():
    S.reset_globals()
    VP, VC = _INST['VP'], _INST['VC']
    r0 = VP.ViralPropagationRegistry()
    VP._current_registry = r0
    VC.dataset_count = 0
    VC.component_count = 0
    _INST['init'] = {'viral_registry': id(r0), 'virtual_counter': 0, 'time_period_representation': 'vtl',
                     'exceptions_dataset_output': None, 'decimal_config': None, 'parser_state': None}


# ------------------------------------------------------------------ calls
def make_fn(spec):
    """spec: {'kind': run|semantic_analysis|prettify|create_ast, 'script':…, 'structs': 'V'|'N'|'TP', 'fmt':…}"""
    from vtlengine import run, semantic_analysis, prettify
    from vtlengine.API import create_ast
    pd = S._ENG['pd']
    st = {'V': VSTRUCTS, 'N': S.STRUCTS, 'TP': TP}[spec.get('structs', 'N')]

    def data():
        if spec.get('structs') == 'V':
            return {'DS_1': pd.DataFrame({'Id_1': [1, 2, 3], 'Me_1': [1.0, 2.0, 3.0], 'VAt_1': ['A', 'B', 'C']}),
                    'DS_2': pd.DataFrame({'Id_1': [1, 2, 3], 'Me_1': [10.0, 20.0, 30.0], 'VAt_1': ['B', 'B', 'A']})}
        if spec.get('structs') == 'TP':
            return {'DS_1': pd.DataFrame({'Id_1': [1, 2], 'Me_1': ['2020Q1', '2021M03']})}
        return {k: pd.DataFrame({'Id_1': [r[0] for r in v], 'Me_1': [r[1] for r in v]}) for k, v in S.ROWS.items()}
    k = spec['kind']
    if k == 'run':
        return lambda: S.canon_results(run(spec['script'], st, data(), time_period_output_format=spec.get('fmt', 'vtl'),
                                           return_only_persistent=False))
    if k == 'semantic_analysis':
        return lambda: sorted((n, [(c.name, c.role.value, c.data_type.__name__) for c in d.components.values()] if hasattr(d, 'components') else str(getattr(d, 'data_type', '')))
                              for n, d in semantic_analysis(spec['script'], st).items())
    if k == 'prettify':
        return lambda: prettify(spec['script'])
    if k == 'create_ast':
        from vtlengine.AST.ASTEncoders import ComplexEncoder
        import json
        return lambda: json.dumps(create_ast(spec['script']), cls=ComplexEncoder)[:20000]
    raise ValueError(k)


def canon_outcome(o):
    if o is None: return ('none',)
    if o[0] == 'ok': return ('ok', o[1])
    return tuple(o[:2]) + (o[2], (o[3] if len(o) > 3 else ''))


# ------------------------------------------------------------------ traces -> Lean
def encode(log, ncalls, extra_vars, shared_codes):
    """per call: list of tokens (r<v> w<v>:<x> i<v> a0 u0) and list of observed codes of its reads;
    global schedule (call index per token).  Identity-like values (registry ids) are named by (call, n-th write)."""
    init = _INST['init']
    toks = [[] for _ in range(ncalls)]
    obs = [[] for _ in range(ncalls)]
    sched = []
    ident = {}          # (var, real value) -> code  for identity-like values written in this run
    nwrites = {}

    def code(var, value, c=None, writing=False):
        if var == 'virtual_counter' and isinstance(value, int): return value
        if var == 'parser_state':
            # the hook reports a label; every parse() produces a new parse state: name it by (call, n-th parse)
            if not writing: return 0
            n = nwrites.get((c, var), 0); nwrites[(c, var)] = n + 1
            return 1000 + 100 * c + n
        if value == init.get(var, None) and (var != 'viral_registry' or not writing): return 0
        if var == 'viral_registry':
            if writing:
                n = nwrites.get((c, var), 0); nwrites[(c, var)] = n + 1
                ident[(var, value)] = 1000 + 100 * c + n
            return ident.get((var, value), 999)
        import zlib
        return 2000 + zlib.crc32(('%s|%r' % (var, value)).encode()) % 1000000
    for (c, kind, name, mode, value) in log:
        if kind == 'lock':
            toks[c].append(('a' if name == 'acq' else 'u') + str(LOCK_ID))
        else:
            v = var_id(name, extra_vars)
            if mode == 'w':
                toks[c].append('w%d:%d' % (v, code(name, value, c, True)))
            elif mode == 'rw':
                toks[c].append('i%d' % v); obs[c].append((name, code(name, value)))
            else:
                toks[c].append('r%d' % v); obs[c].append((name, code(name, value)))
        sched.append(c)
    return toks, obs, sched


def shape(toks):
    return [t.split(':')[0] for t in toks]


# ------------------------------------------------------------------ worker tasks
def task_solo(arg):
    specs, tmp_root = arg
    instrument(tmp_root)
    out = []
    for sp in specs:
        reset_shared()
        r = HUB.run_solo(make_fn(sp))
        extra, shared = [], {}
        toks, obs, _ = encode(r['log'], 1, extra, shared)
        out.append({'spec': sp, 'outcome': canon_outcome(r['outcome'].get(0)), 'toks': toks[0], 'obs': obs[0], 'extra': extra,
                    'stuck': r['stuck'], 'gates': {v: sum(1 for e in r['log'] if e[1] == 'access' and e[2] == v) for v in VARS + extra}})
    return out


def task_forced(arg):
    """run the calls in threads under a forced schedule over the gate points of `gate_var`; also the solo runs
    (same process, same initial state) to compare with."""
    specs, gate_var, schedule, tmp_root = arg
    instrument(tmp_root)
    solos = []
    extra, shared = [], {}
    for i, sp in enumerate(specs):
        reset_shared()
        r = HUB.run_solo(make_fn(sp))
        # name identity-like values as call i would in the joint run
        log = [(i,) + e[1:] for e in r['log']]
        t, o, _ = encode(log, len(specs), extra, shared)
        solos.append({'outcome': canon_outcome(r['outcome'].get(0)), 'toks': t[i], 'obs': o[i]})
    reset_shared()
    HUB.reset(gate_var=gate_var, forced=True)
    r = HUB.run_forced([make_fn(sp) for sp in specs], schedule)
    toks, obs, sched = encode(r['log'], len(specs), extra, shared)
    HUB.reset()
    return {'specs': specs, 'gate_var': gate_var, 'schedule': schedule, 'stuck': r['stuck'], 'solos': solos,
            'outcomes': [canon_outcome(r['outcome'].get(i)) for i in range(len(specs))], 'toks': toks, 'obs': obs, 'sched': sched,
            'extra': extra}


def task_stress(arg):
    """randomised stress: the calls of one family run repeatedly in threads with a microsecond switch interval"""
    specs, rounds, tmp_root = arg
    instrument(tmp_root)
    HUB.reset()
    g = S._ENG
    g['V'].sink = None
    solos = []
    try:
        for sp in specs:
            reset_shared()
            solos.append(canon_outcome(g['eng'].outcome(make_fn(sp))))
        old = sys.getswitchinterval()
        sys.setswitchinterval(1e-6)
        diffs = []
        try:
            for rd in range(rounds):
                reset_shared()
                res = [None] * len(specs)

                def work(i):
                    res[i] = canon_outcome(g['eng'].outcome(make_fn(specs[i])))
                ths = [threading.Thread(target=work, args=(i,), daemon=True) for i in range(len(specs))]
                for t in ths: t.start()
                for t in ths: t.join(120)
                for i in range(len(specs)):
                    if res[i] != solos[i]:
                        diffs.append({'round': rd, 'call': i, 'solo': repr(solos[i])[:300], 'got': repr(res[i])[:300]})
        finally:
            sys.setswitchinterval(old)
        return {'specs': specs, 'rounds': rounds, 'diffs': diffs}
    finally:
        g['V'].sink = HUB.sink


# ------------------------------------------------------------------ static inventory of process-global mutation sites
def inventory(repo):
    """functions that assign module globals (`global X`), class attributes through `cls`, or attributes of
    vtlengine modules — with whether they report through the hook"""
    src = os.path.join(repo, 'src', 'vtlengine')
    out = []
    for root, _, files in os.walk(src):
        for f in sorted(files):
            if not f.endswith('.py'): continue
            p = os.path.join(root, f)
            tree = ast.parse(open(p).read())
            for fn in ast.walk(tree):
                if not isinstance(fn, ast.FunctionDef): continue
                gl = [n for s in ast.walk(fn) if isinstance(s, ast.Global) for n in s.names]
                hooked = any(isinstance(c, ast.Call) and isinstance(c.func, ast.Attribute) and c.func.attr == 'access'
                             and isinstance(c.func.value, ast.Name) and c.func.value.id == '_verif' for c in ast.walk(fn))
                assigns = set()
                for s in ast.walk(fn):
                    if isinstance(s, (ast.Assign, ast.AugAssign, ast.AnnAssign)):
                        tg = s.targets if isinstance(s, ast.Assign) else [s.target]
                        for x in tg:
                            if isinstance(x, ast.Name) and x.id in gl: assigns.add(x.id)
                            if isinstance(x, ast.Attribute) and isinstance(x.value, ast.Name) and x.value.id == 'cls': assigns.add('cls.' + x.attr)
                            if isinstance(x, ast.Attribute) and ast.unparse(x.value).startswith('vtlengine.'): assigns.add(ast.unparse(x))
                if assigns:
                    out.append({'file': os.path.relpath(p, repo), 'function': fn.name, 'assigns': sorted(assigns), 'hooked': hooked})
    return out

"""C14 — writing results to an output folder preserves them exactly.

Proof: Props/C14.lean (`decode_encode` for every table of strings; `file_eq_memory` over a small model of the
result-selection loop).  Tie (K): real run() with output_folder (csv and parquet, both return_only_persistent
settings) vs the same run without a folder; the CSV files the real run wrote are decoded by the LEAN decoder
(driver lean/Drivers/Input.lean) and compared cell by cell with the in-memory result; Parquet files are read
with pyarrow (not modelled: partial).
"""
import json
import os
import shutil
import sys
import tempfile
from fractions import Fraction

sys.path.insert(0, os.path.join(os.path.dirname(os.path.abspath(__file__)), '..'))
sys.path.insert(0, os.path.dirname(os.path.abspath(__file__)))
import vlib
import input_common as ic
import input_gen as ig

SCRIPTS = [
    ('identity', 'DS_r <- DS_1;'),
    ('temp-and-persistent', 'DS_a := DS_1; DS_r <- DS_a;'),
    ('two-persistent', 'DS_r <- DS_1; DS_q <- DS_1;'),
    ('with-scalars', 'DS_r <- DS_1; sc_i <- 3 + 4; sc_s <- "a,b" || "c"; sc_t := 1; sc_b <- true; sc_z <- cast(null, integer); sc_a <- "x y";'),
    ('only-temporary', 'DS_a := DS_1;'),
    ('with-typed-scalars', 'DS_r <- DS_1; sc_d <- cast("2020-01-01", date); sc_dt <- cast("2020-02-29 10:30:00", date); sc_p <- cast("2020Q1", time_period); '
                           'sc_n <- 1.5; sc_q <- "a;b"; sc_neg <- -3; sc_f <- 1 = 2;'),
]
TRICKY = ['a,b', 'q"uote', '"quoted"', 'line\nbreak', 'cr\rhere', '', ' lead', 'trail ', 'é€', 'NULL', "it's", 'a;b', 'tab\there', '""', ',', '\n']


def make_case(rng, i):
    struct = ig.random_structure(rng, rng.choice([0, 1, 1, 2]))
    ids = [c for c in struct if c['role'] == 'Identifier']
    nrows = rng.randint(0, 6) if ids else rng.randint(0, 1)
    rows, seen = [], set()
    for _ in range(nrows * 3):
        if len(rows) >= nrows:
            break
        r = []
        for c in struct:
            if c['role'] != 'Identifier' and c['nullable'] and rng.random() < 0.25:
                r.append(None)
            elif c['type'] == 'String' and rng.random() < 0.6 and not (c['role'] == 'Identifier'):
                r.append(rng.choice(TRICKY))
            elif c['type'] == 'Date' and rng.random() < 0.4:
                r.append(ig.valid_value(rng, 'Date') + rng.choice(['T10:30:00', ' 23:59:59', 'T00:00:00', 'T01:02:03.5']))
            elif c['type'] == 'Number' and rng.random() < 0.3:
                r.append(rng.choice(['0.000001', '1e-7', '123456789.123456789', '-0.5', '1e12', '0']))
            else:
                r.append(ig.valid_value(rng, c['type']))
        k = tuple(x for x, c in zip(r, struct) if c['role'] == 'Identifier')
        if k in seen:
            continue
        seen.add(k); rows.append(r)
    name, script = SCRIPTS[i % len(SCRIPTS)]
    return {'struct': struct, 'columns': [c['name'] for c in struct], 'rows': rows, 'script': script, 'script_name': name}


def _pq_cell(v):
    import datetime
    import decimal
    if v is None:
        return None
    if isinstance(v, bool):
        return 'true' if v else 'false'
    if isinstance(v, int):
        return str(v)
    if isinstance(v, decimal.Decimal):
        return 'n:' + str(v)
    if isinstance(v, float):
        return 'n:' + repr(v)
    if isinstance(v, (datetime.date, datetime.datetime)):
        return v.isoformat()
    return v


def run_c14(case):
    """worker: the same script without a folder and with a folder in both formats, both settings"""
    import eng  # noqa
    import pandas as pd
    import pyarrow.parquet as pq
    from vtlengine import run
    from vtlengine.Model import Dataset, Scalar
    cols, rows = case['columns'], case['rows']
    df = pd.DataFrame({c: pd.Series([r[i] for r in rows], dtype='object') for i, c in enumerate(cols)}, columns=cols)
    ds = ic.structures_of(case)
    out = {}
    base = tempfile.mkdtemp(prefix='c14_', dir=ic.tmpdir())
    try:
        for rop in (True, False):
            o = ic.guarded(run, case['script'], ds, {'DS_1': df.copy(deep=True)}, return_only_persistent=rop)
            if o[0] != 'ok':
                out['mem', rop] = ('fail', ic.engine_kind(o), str(o[1:])[:300])
            else:
                mem = {}
                for k, v in o[1].items():
                    if isinstance(v, Scalar):
                        mem[k] = ('scalar', None if v.value is None else str(v.value))
                    else:
                        c, r = ic.canon_result(o[1], k)
                        mem[k] = ('dataset', c, r, [v.components[x].data_type.__name__ if x in v.components else 'String' for x in c])
                out['mem', rop] = ('ok', mem)
            for fmt in ('csv', 'parquet'):
                d = os.path.join(base, '%s_%s' % (fmt, rop))
                o = ic.guarded(run, case['script'], ds, {'DS_1': df.copy(deep=True)}, return_only_persistent=rop,
                               output_folder=d, output_format=fmt)
                if o[0] != 'ok':
                    out[fmt, rop] = ('fail', ic.engine_kind(o), str(o[1:])[:300])
                    continue
                ret = {}
                for k, v in o[1].items():
                    if isinstance(v, Scalar):
                        ret[k] = ('scalar', None if v.value is None else str(v.value))
                    else:
                        ret[k] = ('dataset', v.data is None)
                files = {}
                for f in sorted(os.listdir(d)) if os.path.isdir(d) else []:
                    p = os.path.join(d, f)
                    if f.endswith('.csv'):
                        files[f] = ('csv', open(p, newline='', encoding='utf-8').read())
                    elif f.endswith('.parquet'):
                        t = pq.read_table(p)
                        files[f] = ('parquet', t.column_names, [[_pq_cell(x) for x in row.values()] for row in t.to_pylist()])
                    else:
                        files[f] = ('other',)
                out[fmt, rop] = ('ok', ret, files)
    finally:
        shutil.rmtree(base, ignore_errors=True)
    return {'%s|%s' % k: v for k, v in out.items()}


def norm_cell(typ, v, from_file):
    """comparable value of a cell: file cells are text (or None); memory cells are canonical strings"""
    if v is None:
        return None
    try:
        if typ == 'Integer':
            return ('i', int(v))
        if typ == 'Number':
            s = v[2:] if v.startswith('n:') else v
            return ('n', Fraction(s) if ('e' not in s and 'E' not in s and 'n' not in s.lower()) else Fraction(float(s)))
        if typ == 'Boolean':
            return ('b', v.lower())
    except Exception:  # noqa: BLE001
        return ('?', v)
    return ('s', v)


def cells_equal(a, b):
    if a is None or b is None:
        return a is None and b is None
    if a[0] == 'n' and b[0] == 'n':
        return a[1] == b[1] or abs(a[1] - b[1]) <= max(Fraction(1, 10 ** 9), abs(a[1]) / 10 ** 9)
    return a == b


def sort_rows(rows):
    def key(r):
        # numbers are ordered by value (12 significant digits: the two sides may differ in the last bits), not by a
        # fixed-point rendering: 0 and 1e-7 must not tie
        return [(0, 0.0, '') if c is None else (1, float('%.12g' % float(c[1])), '') if c[0] in ('n', 'i') else (2, 0.0, str(c[1])) for c in r]
    return sorted(rows, key=key)


def compare_tables(types, mem_cols, mem_rows, file_cols, file_rows):
    if list(mem_cols) != list(file_cols):
        return ('columns', {'memory': mem_cols, 'file': file_cols})
    if len(mem_rows) != len(file_rows):
        return ('row-count', {'memory': len(mem_rows), 'file': len(file_rows)})
    a = sort_rows([[norm_cell(t, v, False) for t, v in zip(types, r)] for r in mem_rows])
    b = sort_rows([[norm_cell(t, v, True) for t, v in zip(types, r)] for r in file_rows])
    for ra, rb in zip(a, b):
        for j, (x, y) in enumerate(zip(ra, rb)):
            if not cells_equal(x, y):
                return ('cell:' + types[j], {'column': mem_cols[j], 'memory': str(x), 'file': str(y)})
    return None


def main(ck):
    ic.regen_patterns(ck)
    pr = ck.proof('C14')
    ck.trusted('correspondence harness harness/checks/c14.py + input_common.py (typed comparison of file text with the in-memory frame; Number within 1e-9)',
               'pyarrow (reads the Parquet files; Parquet encoding is not modelled)',
               'DuckDB COPY writer and Python csv.writer are exercised, not modelled')
    ck.assumptions += ['the Lean decoder reads the CSV files the real run wrote; Parquet files are decoded by pyarrow (partial)',
                       'scripts: identity / temporary+persistent / two persistent / with scalars / only temporary, over generated structures of all basic types']
    if ck.replay_path:
        rp = json.load(open(ck.replay_path))
        cases = [rp['replay']['case']]
    else:
        n = int(os.environ.get('VERIF_C14_N') or (40 if ck.quick() else 400))
        cases = [make_case(ck.rng, i) for i in range(n)]
    outs = ic.pool_map(run_c14, cases)
    # ---- decode every CSV file with the Lean decoder
    reqs, where = [], []
    for ci, o in enumerate(outs):
        for k, v in o.items():
            if v[0] == 'ok' and not k.startswith('mem'):
                for fname, f in v[2].items():
                    if f[0] == 'csv':
                        reqs.append('csvdec ' + ic.enc_str(f[1])); where.append((ci, k, fname))
    answers = ck.driver('Input', reqs) if reqs else []
    decoded = {}
    for w, a in zip(where, answers):
        if a == 'none' or not a.startswith('ok'):
            decoded[w] = None
        else:
            t = a.split(' ')
            n = int(t[1]); pos = 2; rows = []
            for _ in range(n):
                m = int(t[pos]); pos += 1
                rows.append([ic.dec_str(x) for x in t[pos:pos + m]]); pos += m
            decoded[w] = rows
    # ---- the Python mirror of the encoder agrees with the Lean encoder (the harness writes its CSV inputs with it)
    enc_reqs, enc_exp = [], []
    for c in cases[:30]:
        tbl = [c['columns']] + c['rows']
        if all(len(r) > 0 for r in tbl):
            enc_reqs.append('csvenc %d ' % len(tbl) + ' '.join('%d %s' % (len(r), ' '.join(ic.enc_str(x) for x in r)) for r in tbl))
            enc_exp.append(ic.csv_encode(tbl))
    if enc_reqs:
        enc_ans = ck.driver('Input', enc_reqs)
        bad = [(r, a) for r, a, e in zip(enc_reqs, enc_ans, enc_exp) if ic.dec_str(a) != e]
        ck.note('python_encoder_vs_lean_encoder', {'tables': len(enc_reqs), 'disagreements': len(bad)})
        if bad:
            ck.unproved('harness-csv-encoder', 'input_common.csv_encode differs from Lean Csv.encode on %d tables' % len(bad), bad[:2])

    hist = {}
    for ci, (case, o) in enumerate(zip(cases, outs)):
        rep = {'case': {k: case[k] for k in ('struct', 'columns', 'rows', 'script', 'script_name')}}
        for rop in (True, False):
            mem = o['mem|%s' % rop]
            for fmt in ('csv', 'parquet'):
                got = o['%s|%s' % (fmt, rop)]
                ck.count((case['script_name'], fmt, rop, ci))
                tag = '%s:rop=%s' % (fmt, rop)
                if 'timeout' in (mem[1] if mem[0] != 'ok' else '', got[1] if got[0] != 'ok' else ''):
                    hist['timeout'] = hist.get('timeout', 0) + 1   # wall-clock guard hit: no verdict on this case
                    continue
                if mem[0] != 'ok' or got[0] != 'ok':
                    if (mem[0] == 'ok') != (got[0] == 'ok'):
                        ck.violation('%s:outcome-differs:%s' % (fmt, case['script_name']), dict(rep, memory=mem[:2], folder=got[:2], format=fmt, rop=rop),
                                     'run() with output_folder (%s) %s but without a folder %s' % (fmt, got[:2], mem[:2]))
                    hist['both-fail'] = hist.get('both-fail', 0) + 1
                    continue
                memres, ret, files = mem[1], got[1], got[2]
                hist['compared'] = hist.get('compared', 0) + 1
                # same results returned
                if sorted(memres) != sorted(ret):
                    ck.violation('%s:returned-names-differ' % fmt, dict(rep, memory=sorted(memres), folder=sorted(ret), rop=rop),
                                 'with output_folder run() returns %s, without %s' % (sorted(ret), sorted(memres)))
                    continue
                dsn = [k for k, v in memres.items() if v[0] == 'dataset']
                scn = [k for k, v in memres.items() if v[0] == 'scalar']
                expected_files = sorted(['%s.%s' % (k, fmt) for k in dsn] + (['_scalars.csv'] if scn else []))
                if sorted(files) != expected_files:
                    ck.violation('%s:file-set' % fmt, dict(rep, files=sorted(files), expected=expected_files, rop=rop),
                                 'output folder holds %s, expected one file per returned dataset %s' % (sorted(files), expected_files))
                for k in dsn:
                    if ret[k] != ('dataset', True):
                        ck.violation('%s:returned-dataset-carries-data' % fmt, dict(rep, dataset=k, rop=rop),
                                     'returned dataset %s carries in-memory data although an output folder was given' % k)
                    fname = '%s.%s' % (k, fmt)
                    if fname not in files:
                        continue
                    _, mcols, mrows, types = memres[k]
                    if fmt == 'csv':
                        tbl = decoded.get((ci, '%s|%s' % (fmt, rop), fname))
                        if tbl is None or not tbl:
                            ck.violation('csv:not-in-dialect', dict(rep, file=fname, text=files[fname][1][:500], rop=rop),
                                         'the file written for %s is not in the RFC-4180 dialect the Lean decoder reads' % k)
                            continue
                        fcols, frows = tbl[0], tbl[1:]
                        if not mcols and not frows:
                            continue
                    else:
                        fcols, frows = files[fname][1], files[fname][2]
                    prob = compare_tables(types, mcols, mrows, fcols, frows)
                    if prob:
                        ck.violation('%s:file-vs-memory:%s' % (fmt, prob[0]), dict(rep, dataset=k, problem=prob, rop=rop, format=fmt),
                                     '%s file of %s differs from the in-memory result: %s %s' % (fmt, k, prob[0], prob[1]))
                # scalars
                for k in scn:
                    if ret[k] != memres[k]:
                        ck.violation('%s:scalar-returned-differs' % fmt, dict(rep, scalar=k, memory=memres[k], folder=ret[k], rop=rop),
                                     'scalar %s returned as %s with a folder, %s without' % (k, ret[k], memres[k]))
                if scn and '_scalars.csv' in files:
                    tbl = decoded.get((ci, '%s|%s' % (fmt, rop), '_scalars.csv'))
                    exp = [['name', 'value']] + [[k, memres[k][1]] for k in sorted(scn)]
                    exp = [[a, (b if b != '' else None)] for a, b in exp]
                    if tbl != exp:
                        ck.violation('scalars-file', dict(rep, file=files['_scalars.csv'][1][:300], decoded=tbl, expected=exp, rop=rop),
                                     '_scalars.csv decodes to %s, returned scalars are %s' % (tbl, exp))
        if ci < 3:
            ck.sample({'script': case['script'], 'rows': len(case['rows']), 'types': [c['type'] for c in case['struct']],
                       'files': sorted(o['csv|True'][2]) if o['csv|True'][0] == 'ok' else o['csv|True'][:2]})
    ck.note('distribution', hist)
    ck.note('csv_files_decoded_by_lean', len(reqs))
    if not pr['ok']:
        if not ck.viol:
            ck.unproved('Props/C14', 'lake build / audit of Props/C14.lean failed: %s %s %s' % (pr['failed'], pr['forbidden'], pr['bad_axioms']), pr['log'][-1500:])
    ic.cleanup()


if __name__ == '__main__':
    vlib.run_check('C14', main)

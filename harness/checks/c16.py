"""C16 — run() releases its session resources at every failure point; a later run is unaffected.

Lean: VtlModel/Session/Bracket.lean (model), Gen/Bracket.lean (regenerated from configured_connection's AST),
Props/C16.lean (theorems).  Tie: translator + correspondence (fault injected at EVERY hook event index of
generated scripts on the real engine; leftovers / traces / globals compared with the Lean driver)."""
import json
import multiprocessing as mp
import os
import shutil
import sys
import tempfile

HERE = os.path.dirname(os.path.abspath(__file__))
sys.path.insert(0, os.path.join(HERE, '..'))
sys.path.insert(0, os.path.join(HERE, '..', 'translate'))
sys.path.insert(0, HERE)
import vlib  # noqa: E402
import bracket as tr_bracket  # noqa: E402
import session_lib as S  # noqa: E402

NPROC = 12
DEMO = {'id': 'demo', 'script': 'DS_r1 <- DS_1 + 1;', 'csv': False, 'out': False, 'inmem': True, 'rop': True, 'fmt': 0}


def parse_answer(a):
    d = {}
    for tok in a.split(' '):
        if '=' in tok:
            k, v = tok.split('=', 1)
            d[k] = v
    def lst(x): return [] if x in (None, '-', '') else x.split(',')
    return {'raised': d.get('raised') == '1', 'trace': lst(d.get('trace')), 'left': sorted(lst(d.get('left'))),
            'hazard': d.get('hazard') == '1', 'dec': [int(x) for x in lst(d.get('dec'))],
            'seen': [int(x) for x in lst(d.get('seen'))]}


def req(which, case, ops, fault, dec=(28, 10), wenv='-', senv='-'):
    return 'bracket %s %d %s %s %d %d %d %s %s' % (which, 1 if case['inmem'] else 0, wenv, senv, dec[0], dec[1], case['fmt'],
                                                   '-' if fault is None else fault, ' '.join(ops))


def pool_map(fn, args, timeout):
    if not args: return []
    ctx = mp.get_context('fork')
    with ctx.Pool(processes=min(NPROC, len(args))) as p:
        return p.map_async(fn, args, chunksize=1).get(timeout=timeout)


def replay(ck, path):
    rp = json.load(open(path))['replay']
    root = tempfile.mkdtemp(prefix='verif_c16_', dir='/tmp')
    try:
        S.boot(root); S.reset_globals()
        wd = os.path.join(root, 'w'); os.makedirs(wd)
        bad = False
        if rp.get('mode') == 'history':
            fails = [(rp['good'] if cid == rp['good']['id'] else rp['cases'][cid], tuple(k)) for cid, k in rp['fails']]
            h = S.task_history((rp['good'], fails, root))
            print('history same=%s culprit=%s solo=%s after=%s' % (h['same'], h['culprit'], h['solo']['outcome'], h['after']['outcome']))
            bad = not h['same']
        else:
            o = S.run_once(rp['case'], wd, fault_at=rp.get('fault_at'), env=rp.get('env'))
            print('outcome=%s left=%s hazard=%s events=%s' % (o['outcome'][:3], o['left'], o['hazard'], o['events']))
            bad = bool(o['left']) or o['hazard']
            if rp.get('then_plain'):
                S.reset_env_only()
                a = S.run_once(rp['case'], wd)
                print('next run (variable unset): outcome=%s dec=%s' % (a['outcome'][:3], a['dec']))
                bad = bad or a['outcome'][0] != 'ok'
        print('REPRODUCED' if bad else 'not reproduced')
        sys.exit(1 if bad else 0)
    finally:
        shutil.rmtree(root, ignore_errors=True)


def main(ck):
    if ck.replay_path:
        replay(ck, ck.replay_path)
    quick = ck.quick()
    root = tempfile.mkdtemp(prefix='verif_c16_', dir='/tmp')
    try:
        run_check(ck, quick, root)
    finally:
        shutil.rmtree(root, ignore_errors=True)


def run_check(ck, quick, root):
    # ---------------------------------------------------------------- 1. translator
    shape_err = None
    tinfo = None
    try:
        tinfo = tr_bracket.translate(vlib.REPO)
        ck.gen('Bracket', tinfo['text'])
        ck.note('bracket_pre_events', tinfo['pre_events'])
        ck.note('bracket_yield_in_try', tinfo['yield_in_try'])
    except vlib.ShapeError as e:
        shape_err = str(e)
    # ---------------------------------------------------------------- 2. proof
    pr = ck.proof('C16')
    ck.trusted('translator harness/translate/bracket.py (statement structure of configured_connection -> Prog)',
               'model of the primitive effects (applyOp) and of set_decimal_config as of ebd8c71 (setDecSnapshot), tied by correspondence',
               'hook events as fault points; observation of leftovers by directory listing, /proc/self/fd and a recording wrapper of duckdb.connect',
               'modelled, not verified: DuckDB itself, CPython garbage collection, the operating system')
    which = 'gen' if (pr['build_ok'] and shape_err is None) else 'snap'
    info = {}
    try:
        a = ck.driver('Session', ['info'])[0]
        info = dict(t.split('=', 1) for t in a.split(' '))
    except vlib.DriverError as e:
        info = {}
        which = None
        driver_err = str(e)
    try_start = int(info.get('tryStart', 4)) if which == 'gen' else 4
    pre_events = [] if info.get('preEvents', '-') == '-' else info.get('preEvents').split(',')
    ck.note('tryStart', try_start)
    ck.note('gen_same_as_snapshot', info.get('sameAsSnapshot'))

    # ---------------------------------------------------------------- 3. real engine campaigns
    rng = ck.rng
    ncamp, nnat, nhist = (7, 1, 10) if quick else (70, 8, 110)
    cases = [dict(DEMO), dict(DEMO, id='demo_file', inmem=False), dict(DEMO, id='demo_out', out=True, csv=True)]
    cases += [S.gen_case(rng, 'c%d' % i) for i in range(ncamp)]
    camp = pool_map(S.task_fault_campaign, [(c, root) for c in cases], 900 if quick else 3000)
    nat = pool_map(S.task_natural, [(c, root) for c in ([DEMO, dict(DEMO, id='demo_file', inmem=False)] + cases[3:3 + nnat])],
                   900 if quick else 3000)
    # histories
    hist_args = []
    fixed_good = {'id': 'g_fixed', 'script': 'DS_r1 <- DS_1 * 1;', 'csv': True, 'out': False, 'inmem': True, 'rop': True, 'fmt': 0}
    hist_args.append((fixed_good, [(fixed_good, ('env', 'OUTPUT_NUMBER_SIGNIFICANT_DIGITS', '3'))], root))
    hist_args.append((fixed_good, [(fixed_good, ('env+fault', 'OUTPUT_NUMBER_SIGNIFICANT_DIGITS', '8', 5))], root))
    hist_args.append((fixed_good, [(fixed_good, ('fault', 5)), (fixed_good, ('fault', 0)), (fixed_good, ('bad_csv',))], root))
    kinds_pool = [('fault', None), ('fault', None), ('fault', None), ('env', 'OUTPUT_NUMBER_SIGNIFICANT_DIGITS', '3'),
                  ('env', 'VTL_DUCKDB_DECIMAL_WIDTH', '3'), ('env', 'VTL_MEMORY_LIMIT', 'abc'), ('env', 'VTL_THREADS', 'x'),
                  ('env+fault', 'OUTPUT_NUMBER_SIGNIFICANT_DIGITS', '8', None), ('env+fault', 'VTL_DUCKDB_DECIMAL_WIDTH', '20', None),
                  ('bad_csv',), ('semantic',)]
    all_cases = {c['id']: c for c in cases}
    for i in range(nhist):
        good = S.gen_case(rng, 'g%d' % i)
        good['csv'] = rng.random() < 0.7
        all_cases[good['id']] = good
        fails = []
        for _ in range(rng.randint(1, 3)):
            k = rng.choice(kinds_pool)
            fc = good if rng.random() < 0.5 else rng.choice(cases)
            if k[0] == 'fault': k = ('fault', rng.randrange(0, 30))
            elif k[0] == 'env+fault': k = k[:3] + (rng.randrange(4, 30),)
            fails.append((fc, k))
        hist_args.append((good, fails, root))
    hist = pool_map(S.task_history, hist_args, 900 if quick else 3000)
    # set_decimal_config grid
    vals_g = [28, 10, 3, 6, 15, 38, 45, -1, 16, 5]
    vals_e = ['-', 'j', '-1', '3', '6', '10', '15', '16', '38', '39', '45', '5', '28']
    grid = []
    for dw, ds in [(28, 10), (28, 3), (3, 10), (38, 15), (45, 10), (28, 8), (20, 12)]:
        for we in vals_e:
            for se in vals_e:
                grid.append((dw, ds, we, se))
    if quick:
        grid = [g for i, g in enumerate(grid) if i % 3 == ck.seed % 3 or g[2] in ('-', '3') and g[3] in ('-', '3', '8')]
    real_grid = pool_map(S.task_setdec_grid, [(grid, root)], 600)[0]

    # ---------------------------------------------------------------- 4. Lean model on the same inputs
    disagreements = []
    grid_ok = None
    if which is not None:
        ans = ck.driver('Session', ['setdec %d %d %s %s' % g for g in grid])
        grid_ok = True
        for g, a, r in zip(grid, ans, real_grid):
            p = parse_answer(a)
            ck.count(('setdec', g))
            if (p['raised'], p['dec']) != (bool(r[0]), [r[1], r[2]]):
                grid_ok = False
                disagreements.append(('set_decimal_config', g, a, r))
        ck.note('set_decimal_config_matches_snapshot_model', grid_ok)
    # Reinit hypothesis of next_run_unaffected, evaluated on the REAL function over the grid
    by_env = {}
    for g, r in zip(grid, real_grid):
        by_env.setdefault((g[2], g[3]), set()).add(tuple(r))
    not_reinit = sorted(e for e, rs in by_env.items() if len(rs) > 1)
    ck.note('envs_where_set_decimal_config_depends_on_old_globals', ['%s/%s' % e for e in not_reinit][:12])

    reqs, meta = [], []
    for c in camp:
        base = c['base']
        if base['outcome'][0] != 'ok':
            raise RuntimeError('generated case does not run: %s %s' % (c['case'], base['outcome']))
        ops = S.ops_tokens(base['ops'], base['names'])
        c['ops'] = ops
        reqs.append(req(which or 'snap', c['case'], ops, None)); meta.append((c, None, base))
        for k, r in enumerate(c['runs']):
            reqs.append(req(which or 'snap', c['case'], ops, k)); meta.append((c, k, r))
    if which is not None:
        ans = ck.driver('Session', reqs)
        for (c, k, r), a in zip(meta, ans):
            p = parse_answer(a)
            real = {'raised': r['outcome'][0] != 'ok', 'trace': r['events'], 'left': sorted(r['left']), 'hazard': r['hazard'], 'seen': r['seen']}
            mod = {x: p[x] for x in real}
            if real != mod:
                disagreements.append(('bracket', c['case']['id'], k, real, mod))
    # the property's own predicate on the real observations
    nfaults = 0
    for c in camp:
        base = c['base']
        ck.count(('base', c['case']['script'], c['case']['inmem'], c['case']['out'], c['case']['csv']))
        if base['left'] or base['hazard']:
            ck.violation('configured_connection:leftovers-without-any-fault', {'case': c['case'], 'fault_at': None},
                         'run() without a fault leaves %s (hazard=%s)' % (base['left'], base['hazard']))
        for k, r in enumerate(c['runs']):
            nfaults += 1
            evn = base['events'][k]
            ck.count(('fault', tuple(base['events']), k, c['case']['inmem'], c['case']['out']))
            region = 'before-try' if (k < try_start and evn in pre_events) else 'in-try'
            if r['outcome'][0] == 'ok':
                ck.violation('run:fault@%s-swallowed' % evn, {'case': c['case'], 'fault_at': k}, 'injected failure at %s did not surface from run()' % evn)
            if r['left']:
                key = 'configured_connection:leak-after-fault-before-try' if region == 'before-try' else 'configured_connection:leak-after-fault@%s(in-try)' % evn
                ck.violation(key, {'case': c['case'], 'fault_at': k, 'event': evn, 'left': r['left'], 'dirs': r['dirs'], 'files': r['files']},
                             'failure at hook event %d (%s, %s the try) leaves behind: %s' % (k, evn, 'before' if region == 'before-try' else 'inside', '+'.join(r['left'])))
            if r['hazard']:
                ck.violation('configured_connection:session-dir-removed-while-connection-open', {'case': c['case'], 'fault_at': k},
                             'rmtree ran while a connection created by run() was still open (fault at %s)' % evn)
            if r['fds_after_gc'] or r['live_after_gc']:
                ck.note('fd_or_connection_survives_gc', {'case': c['case']['id'], 'k': k, 'fds': r['fds_after_gc'], 'live': r['live_after_gc']})
    ck.sample({'script': camp[3]['case']['script'], 'events': camp[3]['base']['events'], 'fault_indices': len(camp[3]['runs'])})
    ck.note('fault_injections', nfaults)
    ck.note('event_kinds_faulted', sorted({e for c in camp for e in c['base']['events']}))

    # natural failures
    nat_reqs, nat_meta = [], []
    for n in nat:
        for x in n['nat']:
            r = x['run']
            ck.count(('natural', x['kind'], x.get('var'), x.get('val'), n['case']['id']))
            if x['kind'] == 'env':
                rp = {'case': n['case'], 'env': {x['var']: x['val']}, 'then_plain': True}
                if r['left']:
                    ck.violation('configured_connection:leak-after-rejected-env-var', rp,
                                 '%s=%s -> %s, leaves behind %s' % (x['var'], x['val'], '/'.join(map(str, r['outcome'][1:3])), '+'.join(r['left'])))
                if r['outcome'][0] != 'ok' and x['after']['outcome'][0] != 'ok':
                    ck.violation('set_decimal_config:rejected-value-poisons-later-runs', rp,
                                 'after a run rejected for %s=%s the next run (variable unset) fails too: %s; module globals %s'
                                 % (x['var'], x['val'], '/'.join(map(str, x['after']['outcome'][1:3])), x['after']['dec']))
                if r['outcome'][0] == 'ok':
                    ck.note('env_value_accepted', '%s=%s' % (x['var'], x['val']))
                if grid_ok and x['var'] in ('OUTPUT_NUMBER_SIGNIFICANT_DIGITS', 'VTL_DUCKDB_DECIMAL_WIDTH'):
                    camp_c = next((c for c in camp if c['case']['id'] == n['case']['id']), None)
                    if camp_c is not None:
                        v = 'j' if x['val'] == 'x' else x['val']
                        we, se = (v, '-') if x['var'] == 'VTL_DUCKDB_DECIMAL_WIDTH' else ('-', v)
                        nat_reqs.append(req(which or 'snap', n['case'], camp_c['ops'], None, wenv=we, senv=se)); nat_meta.append(x)
            else:
                if r['left']:
                    ck.violation('configured_connection:leak-after-%s' % x['kind'], {'case': dict(n['case'], csv=True, bad_csv='DS_1')},
                                 'natural failure (%s) leaves behind %s' % (x['kind'], r['left']))
    if which is not None and nat_reqs:
        for x, a in zip(nat_meta, ck.driver('Session', nat_reqs)):
            p = parse_answer(a)
            r = x['run']
            real = {'raised': r['outcome'][0] != 'ok', 'left': sorted(r['left']), 'dec': r['dec'], 'trace': r['events']}
            mod = {k: p[k] for k in real}
            if real != mod:
                disagreements.append(('natural', x['var'], x['val'], real, mod))

    # histories
    nsame = 0
    for h, harg in zip(hist, hist_args):
        ck.count(('hist', h['good']['script'], tuple(map(str, h['fails']))))
        seen_same = h['solo']['seen'] == h['after']['seen']
        if h['same'] and seen_same:
            nsame += 1
            continue
        rp = {'mode': 'history', 'good': h['good'], 'fails': h['fails'], 'cases': {cid: all_cases.get(cid, h['good']) for cid, _ in h['fails']}}
        cul = h['culprit']
        if cul is None:       # results equal but the configuration the run computed with differs, or not isolated
            for (fc, k) in harg[1]:
                if k[0] in ('env', 'env+fault'): cul = k; break
        if cul is not None and cul[0] == 'env+fault':
            key = 'set_decimal_config:setting-of-failed-run-persists'
            what = 'a run with %s=%s that fails later leaves the setting in force: the next run (variable unset) computes with DECIMAL%s instead of DECIMAL%s' % (
                cul[1], cul[2], tuple(h['after']['seen'][:2]), tuple(h['solo']['seen'][:2]))
        elif cul is not None and cul[0] == 'env':
            key = 'set_decimal_config:rejected-value-poisons-later-runs'
            what = 'after a run rejected for %s=%s the same script fails/differs (%s), alone it succeeds' % (cul[1], cul[2], h['after']['outcome'][:3])
        elif cul is not None:
            key = 'run:later-run-differs-after-%s' % cul[0]
            what = 'the good run after a failing run (%s) differs from the good run alone' % (cul,)
        else:
            key = 'run:later-run-differs-after-history'
            what = 'the good run after %s differs from the good run alone' % (h['fails'],)
        ck.violation(key, rp, what)
    ck.note('histories', {'total': len(hist), 'unaffected': nsame})
    ck.sample({'history': hist[2]['fails'], 'good': hist[2]['good']['script'], 'same': hist[2]['same']})

    # ---------------------------------------------------------------- 5. verdict on proof / tie
    ck.note('disagreements', len(disagreements))
    if disagreements:
        ck.note('first_disagreements', json.loads(json.dumps(disagreements[:3], default=str)))
    new_viol = [v for v in ck.viol if not v[3]]
    if shape_err is not None and not new_viol:
        ck.unproved('translator:bracket', 'configured_connection has a shape the translator does not know: ' + shape_err)
    if not pr['ok'] and not new_viol:
        ck.unproved('+'.join(pr['failed']) or 'Props.C16', 'lake build / audit of Props.C16 failed; fault injection at every event of %d scripts found no leftover. %s'
                    % (len(camp), (pr['log'][-600:] if not pr['build_ok'] else str(pr['forbidden'] + pr['bad_axioms']))))
    if which is None and not new_viol:
        ck.unproved('driver:Session', driver_err[:600])
    bracket_dis = [d for d in disagreements if d[0] != 'set_decimal_config']
    if bracket_dis and not new_viol:
        ck.unproved('correspondence:bracket', 'Lean model and real engine disagree on %d (script, fault index) cases, e.g. %s' % (len(bracket_dis), json.dumps(bracket_dis[0], default=str)[:600]))
    if grid_ok is False:
        # the snapshot of set_decimal_config is only used for the counter-examples; the theorems are parametric in it.
        ck.assumptions.append('set_decimal_config no longer behaves like the ebd8c71 snapshot model; next_run_unaffected relies on its hypothesis, '
                              'evaluated on the real function over the grid: depends on old globals for %d environments' % len(not_reinit))
    ck.assumptions.append('faults are injected at hook events (one per load / statement / drop / fetch / write and the bracket events); a failure inside a DuckDB call is represented by the event preceding it')
    ck.assumptions.append('next_run_unaffected holds under its explicit hypothesis (decimal globals re-initialised by the run or untouched by the history); on this tree the hypothesis fails for an unset variable, see the counter-examples')


vlib.run_check('C16', main)

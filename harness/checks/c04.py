"""C04 — joins combine datasets as specified.

Lean: Props/C04.lean over the model VtlModel.Sem.Join (n-ary inner/left/full/cross join, using, alias#comp
qualification, trailing body, alias stripping).  Tie: correspondence model <-> real run() on generated joins,
the model itself validated against the Reference-Manual join examples shipped in tests/ReferenceManual."""
import collections
import csv
import json
import os
import sys

sys.path.insert(0, os.path.join(os.path.dirname(os.path.abspath(__file__)), '..'))
import vlib
from sem import gen as G
from sem import gen_join as GJ
from sem import runner as R
from sem.check_common import msg_head

J = '(ds "$join")'
RM = {
    6: '(join inner ((d1 (ds DS_1)) (d2 (ds DS_2))) _ (keep %s ("Me_1" "d2#Me_2" "Me_1A")))' % J,
    7: '(join left ((d1 (ds DS_1)) (d2 (ds DS_2))) _ (keep %s ("Me_1" "d2#Me_2" "Me_1A")))' % J,
    8: '(join full ((d1 (ds DS_1)) (d2 (ds DS_2))) _ (keep %s ("Me_1" "d2#Me_2" "Me_1A")))' % J,
    9: '(join cross ((d1 (ds DS_1)) (d2 (ds DS_2))) _ (rename %s (("d1#Id_1" "Id11") ("d1#Id_2" "Id12") ("d2#Id_1" "Id21") '
       '("d2#Id_2" "Id22") ("d1#Me_2" "Me12"))))' % J,
    10: '(join inner ((d1 (ds DS_1)) (d2 (ds DS_2))) _ (drop (calc (filter %s (bin eq (col "Me_1") (const (s "A")))) '
        '(("Me_4" (bin concat (col "Me_1") (col "Me_1A"))))) ("d1#Me_2")))' % J,
    11: '(join inner ((DS_1 (ds DS_1))) _ (keep (calc (filter %s (bin eq (col "Id_2") (const (s "B")))) '
        '(("Me_2" (bin concat (col "Me_2") (const (s "_NEW")))))) ("Me_1" "Me_2")))' % J,
    # apply d1 || d2  ==  the operator on every pair of equally named measures, only those measures kept
    12: '(join inner ((d1 (ds DS_1)) (d2 (ds DS_2))) _ (keep (calc %s (("Me_2" (bin concat (col "d1#Me_2") (col "d2#Me_2"))))) ("Me_2")))' % J,
}

# hand-made regression corpus: (label, vtl, sx, env)
def _ds(ids, meas, rows):
    return {'ids': ids, 'meas': meas, 'rows': rows}


I1, I2 = ('Id_1', 'Integer'), ('Id_2', 'String')
M1, M3, M5 = ('Me_1', 'Integer'), ('Me_3', 'String'), ('Me_5', 'Integer')
CORPUS = [
    ('full3-key-only-in-2nd-and-3rd',
     'DS_r <- full_join(DS_1 as a, DS_2 as b, DS_3 as c);',
     '(join full ((a (ds DS_1)) (b (ds DS_2)) (c (ds DS_3))) _ %s)' % J,
     {'DS_1': _ds([I1], [M1], [(1, 10)]), 'DS_2': _ds([I1], [M3], [(1, 'x'), (3, 'y')]), 'DS_3': _ds([I1], [M5], [(3, 5), (4, 6)])},
     dict(kind='full', struct='equal', nops=3)),
    ('bare-reference-to-triplicated-measure',
     'DS_r <- inner_join(DS_1 as a, DS_2 as b, DS_3 as c calc Me_9 := Me_1 + 0 keep Me_9);',
     '(join inner ((a (ds DS_1)) (b (ds DS_2)) (c (ds DS_3))) _ (keep (calc %s (("Me_9" (bin add (col "Me_1") (const (i 0)))))) ("Me_9")))' % J,
     {'DS_1': _ds([I1], [M1], [(1, 10)]), 'DS_2': _ds([I1], [M1], [(1, 20)]), 'DS_3': _ds([I1], [M1], [(1, 30)])},
     dict(kind='inner', struct='equal', nops=3, ambiguous_ref=True)),
    ('bare-rename-of-the-remaining-duplicate-after-drop',
     'DS_r <- inner_join(DS_1 as a, DS_2 as b drop a#Me_1 rename Me_1 to X);',
     '(join inner ((a (ds DS_1)) (b (ds DS_2))) _ (rename (drop %s ("a#Me_1")) (("b#Me_1" "X"))))' % J,
     {'DS_1': _ds([I1], [M1], [(1, 10), (2, 20)]), 'DS_2': _ds([I1], [M1, M5], [(1, 100, 5), (3, 300, 6)])},
     dict(kind='inner', struct='equal', nops=2, body=['drop', 'rename'])),
    ('full-join-identifiers-declared-in-different-order',
     'DS_r <- full_join(DS_1 as a, DS_2 as b);',
     '(join full ((a (ds DS_1)) (b (ds DS_2))) _ %s)' % J,
     {'DS_1': _ds([I1, I2], [M1], [(1, 'a', 10), (2, 'b', 20)]), 'DS_2': _ds([I2, I1], [M5], [('a', 1, 100), ('c', 3, 300)])},
     dict(kind='full', struct='equal', nops=2, must_accept=True)),
    ('apply-then-rename',
     'DS_r <- inner_join(DS_1 as d1, DS_2 as d2 apply d1 + d2 rename Me_5 to X);',
     '(join inner ((d1 (ds DS_1)) (d2 (ds DS_2))) _ (rename (keep (calc %s (("Me_5" (bin add (col "d1#Me_5") (col "d2#Me_5"))))) ("Me_5")) (("Me_5" "X"))))' % J,
     {'DS_1': _ds([I1, I2], [M5], [(1, 'a', 10), (2, 'b', 20)]), 'DS_2': _ds([I1], [M5], [(1, 5), (3, 7)])},
     dict(kind='inner', struct='nested', nops=2, body=['apply', 'rename'])),
    ('left3-nested',
     'DS_r <- left_join(DS_1 as a, DS_2 as b, DS_3 as c keep a#Me_1, Me_5);',
     '(join left ((a (ds DS_1)) (b (ds DS_2)) (c (ds DS_3))) _ (keep %s ("a#Me_1" "Me_5")))' % J,
     {'DS_1': _ds([I1, I2], [M1], [(1, 'a', 10), (1, 'b', 20), (2, 'a', 30)]), 'DS_2': _ds([I1], [M1], [(1, 70), (3, 80)]),
      'DS_3': _ds([I1, I2], [M5], [(3, 'a', 5), (1, 'a', 7)])},
     dict(kind='left', struct='nested', nops=3)),
    ('inner-using-measure-key-null',
     'DS_r <- inner_join(DS_1 as a, DS_2 as b using Id_2);',
     '(join inner ((a (ds DS_1)) (b (ds DS_2))) ("Id_2") %s)' % J,
     {'DS_1': _ds([I1], [('Id_2', 'String'), M1], [(1, 'a', 61), (2, 'zz', 62), (3, None, 63), (4, 'b', 64)]),
      'DS_2': _ds([I2], [M5], [('a', 71), ('b', 72), ('c', 73)])},
     dict(kind='inner', struct='using-b2', nops=2)),
]


def rm_env(n):
    base = os.path.join(vlib.REPO, 'tests', 'ReferenceManual', 'data')
    env = {}
    for name in ('DS_1', 'DS_2'):
        sp = os.path.join(base, 'DataStructure', 'input', '%d-%s.json' % (n, name))
        if not os.path.exists(sp):
            continue
        st = json.load(open(sp))['datasets'][0]
        ids = [(c['name'], c['type']) for c in st['DataStructure'] if c['role'] == 'Identifier']
        meas = [(c['name'], c['type']) for c in st['DataStructure'] if c['role'] != 'Identifier']
        env[name] = {'ids': ids, 'meas': meas, 'rows': read_csv(os.path.join(base, 'DataSet', 'input', '%d-%s.csv' % (n, name)), ids + meas)}
    st = json.load(open(os.path.join(base, 'DataStructure', 'output', '%d-DS_r.json' % n)))['datasets'][0]
    comps = [(c['name'], c['role'], c['type'], c['nullable']) for c in st['DataStructure']]
    rows = read_csv(os.path.join(base, 'DataSet', 'output', '%d-DS_r.csv' % n), [(c[0], c[2]) for c in comps])
    return env, comps, rows


def read_csv(path, typed):
    out = []
    with open(path, newline='') as f:
        for rec in csv.DictReader(f):
            row = []
            for n, t in typed:
                v = rec[n]
                if v == '':
                    row.append(None)
                elif t == 'Integer':
                    row.append(int(v))
                elif t == 'Number':
                    row.append(float(v))
                elif t == 'Boolean':
                    row.append(v.lower() == 'true')
                else:
                    row.append(v)
            out.append(tuple(row))
    return out


def compare(case, ans, eng_out):
    if case.get('ambiguous_ref'):
        # a bare reference to a component that several operands expose must be rejected as ambiguous (VTL: such a
        # component can only be referenced as alias#comp); the model has no notion of an unresolved name
        if eng_out[0] == 'timeout':
            return 'skip:engine-timeout', None
        if eng_out[0] == 'vtl' and eng_out[1] == 'SemanticError':
            return 'agree', 'ambiguity rejected: ' + str(eng_out[2])
        return 'DISAGREE:ambiguous-reference-not-rejected', eng_out[:3]
    v, d = R.compare(case, ans, eng_out)
    if case.get('must_accept') and v.startswith('skip:semantic-reject'):
        # a join that is valid VTL (and defined in the model) must not be rejected
        return 'DISAGREE:valid-join-rejected', eng_out[:3]
    if v == 'skip:model-type' and eng_out[0] == 'ok':
        return 'DISAGREE:model-rejects', eng_out[1].get('DS_r', ('?',))[1:2]
    if v == 'skip:model-name' and eng_out[0] == 'ok':
        return 'DISAGREE:model-rejects', eng_out[1].get('DS_r', ('?',))[1:2]
    return v, d


def full_nary_pattern(case):
    """n-ary full join over data with an identifier key that is absent from the FIRST operand and present in at
    least two later operands (the input predicate of the known ON-clause defect of visit_JoinOp)."""
    if case.get('kind') != 'full' or case.get('nops', 0) < 3:
        return False
    ks = []
    for d in case['env'].values():
        n = len(d['ids'])
        names = [i for i, _ in d['ids']]
        ks.append({tuple(sorted(zip(names, row[:n]))) for row in d['rows']})
    seen = {}
    for s in ks[1:]:
        for k in s:
            if k not in ks[0]:
                seen[k] = seen.get(k, 0) + 1
    return any(v >= 2 for v in seen.values())


def classify(case, verdict, eng_out):
    """finding key: join kind + operand count + structure class + what goes wrong (+ body clause when values differ)."""
    what = verdict.split(':', 1)[1]
    if case.get('kind') == 'full' and case.get('nops', 0) >= 3 and (
            what == 'engine-duplicate-keys' or
            ((full_nary_pattern(case) or case.get('variant') == 'operand-expression') and what in ('keys', 'value'))):
        # duplicated identifiers out of an n-ary full join; for the other symptoms (a body filter removed one of the
        # duplicates) the data pattern is required, except when an operand is an expression (the pattern is evaluated
        # on the input data, not on the operand's value)
        return 'full_join:n-ary:key-absent-from-first-operand-present-in-two-later-operands'
    body_l = case.get('body') or []
    if 'apply' in body_l and ('rename' in body_l or 'drop' in body_l) and (
            (what == 'engine-error' and eng_out[0] == 'raw' and 'BinderException' in eng_out[1]) or what in ('columns-vs-components', 'measures')):
        # apply is transpiled against the statement's final structure, the later clause against the pre-apply one:
        # either DuckDB rejects the SQL or the computed measure is missing from the returned data
        return 'join-body:apply-followed-by-drop-or-rename'
    head = '%s_join:%dops:%s' % (case['kind'], case['nops'], case['struct'])
    if case.get('variant', 'plain') != 'plain':
        head += ':' + case['variant']
    if case.get('corpus'):
        head = 'corpus:' + case['label']
    if what == 'valid-join-rejected':
        return '%s:%s:%s' % (head, what, eng_out[2])
    if what == 'ambiguous-reference-not-rejected':
        return '%s:%s:%s' % (head, what, 'result-returned' if eng_out[0] == 'ok' else eng_out[1].split('.')[-1])
    if what in ('keys', 'engine-duplicate-keys'):
        return '%s:%s' % (head, what)
    body = '+'.join(case.get('body') or []) or 'nobody'
    if what == 'engine-error':
        if eng_out[0] == 'raw':
            return '%s:%s:%s:%s' % (head, body, eng_out[1].split('.')[-1], msg_head(eng_out))
        return '%s:%s:%s:%s' % (head, body, eng_out[1], eng_out[2])
    return '%s:%s:%s' % (head, body, what)


def run_cases(ck, cases):
    answers = ck.driver('Join', [GJ.request(c) for c in cases])
    outs = R.run_engine(cases, budget=90, rop=False)
    res = []
    for c, a, e in zip(cases, answers, outs):
        v, d = compare(c, a, e)
        res.append((c, v, d, e, a))
    # a two-statement case whose run fails: if its FIRST statement fails on its own, the failure belongs to that
    # statement (covered by the single-statement stream), not to a leak into the second one
    again = [(i, dict(c, vtl=c['vtl'].split('; ', 1)[0].replace('DS_p <-', 'DS_r <-', 1) + ';')) for i, (c, v, d, e, a) in enumerate(res)
             if 'after-another-join' in str(c.get('variant')) and v.startswith('DISAGREE') and e[0] in ('raw', 'vtl')]
    if again:
        outs2 = R.run_engine([c2 for _, c2 in again], budget=90, rop=False)
        for (i, _), e2 in zip(again, outs2):
            c, v, d, e, a = res[i]
            if e2[0] in ('raw', 'vtl') and e2[1] == e[1]:
                res[i] = (c, 'skip:first-statement-fails-on-its-own', d, e, a)
    return res


def replay_dict(c, v, d, e, a, n):
    return {'script': c['vtl'], 'structures': G.structures(c['env']),
            'env': {k: {'ids': x['ids'], 'meas': x['meas'], 'rows': [[str(y) if isinstance(y, __import__('fractions').Fraction) else y for y in r] for r in x['rows']]}
                    for k, x in c['env'].items()},
            'meta': {k: c.get(k) for k in ('kind', 'struct', 'nops', 'using', 'body', 'variant', 'ambiguous_ref', 'must_accept', 'label', 'corpus')},
            'sx': c['sx'], 'model_answer': a, 'engine': [str(x)[:800] for x in e], 'verdict': v, 'detail': str(d)[:600], 'occurrences': n}


def load_replay(path):
    from fractions import Fraction
    rp = json.load(open(path))['replay']
    env = {}
    for k, x in rp['env'].items():
        types = [t for _, t in x['ids'] + x['meas']]
        rows = []
        for r in x['rows']:
            rows.append(tuple(Fraction(v) if (t == 'Number' and v is not None) else v for v, t in zip(r, types)))
        env[k] = {'ids': [tuple(i) for i in x['ids']], 'meas': [tuple(m) for m in x['meas']], 'rows': rows}
    c = {'env': env, 'vtl': rp['script'], 'sx': rp['sx'], 'flat': True, 'depth': 1, 'ops': []}
    c.update({k: v for k, v in rp['meta'].items() if v is not None})
    c.setdefault('kind', '?'); c.setdefault('struct', '?'); c.setdefault('nops', len(env))
    return c


def main(ck):
    pr = ck.proof('C04')
    q = ck.quick()
    rng = ck.rng

    if ck.replay_path:
        c = load_replay(ck.replay_path)
        (c, v, d, e, a), = run_cases(ck, [c])
        print('replay: %s\n  model : %s\n  engine: %s\n  verdict: %s %s' % (c['vtl'], a[:400], str(e)[:400], v, str(d)[:300]))
        if v.startswith('DISAGREE'):
            ck.violation(classify(c, v, e), replay_dict(c, v, d, e, a, 1), '%s: %s' % (v, c['vtl'][:160]))
        return

    # ---- 1. the model reproduces the Reference-Manual join examples (independent oracle)
    rm_ok, rm_bad = 0, []
    rm_cases = []
    for n, sx in RM.items():
        try:
            env, comps, rows = rm_env(n)
        except (OSError, KeyError, ValueError) as ex:
            rm_bad.append('RM%03d: cannot read reference files: %s' % (n, ex))
            continue
        script = open(os.path.join(vlib.REPO, 'tests', 'ReferenceManual', 'data', 'vtl', 'RM%03d.vtl' % n)).read().strip()
        c = {'env': env, 'vtl': script.replace('DS_r :=', 'DS_r <-'), 'sx': sx, 'kind': sx.split()[1], 'struct': 'rm-example', 'nops': len(env),
             'body': [], 'ops': [], 'flat': True, 'depth': 1, 'label': 'RM%03d' % n, 'using': None, 'aliases': [], 'overlap': 'partial'}
        rm_cases.append((c, comps, rows))
    answers = ck.driver('Join', [GJ.request(c) for c, _, _ in rm_cases]) if rm_cases else []
    for (c, comps, rows), a in zip(rm_cases, answers):
        v, d = R.compare(c, a, ('ok', {'DS_r': ('ds', comps, rows)}))
        if v == 'agree':
            rm_ok += 1
        else:
            rm_bad.append('%s: model %s vs reference output: %s %s' % (c['label'], a[:200], v, str(d)[:200]))
    ck.note('reference_manual_examples', {'reproduced_by_model': rm_ok, 'of': len(RM), 'problems': rm_bad})
    ck.cov['traces_validated_against_impl'] = rm_ok
    if rm_bad:
        ck.unproved('model-vs-reference-manual', 'the join model does not reproduce the Reference-Manual examples: ' + '; '.join(rm_bad)[:600])

    # ---- 2. correspondence model <-> run()
    jg = GJ.JoinGen(rng)
    cases = [c for c, _, _ in rm_cases]
    for label, vtl, sx, env, meta in CORPUS:
        c = {'env': env, 'vtl': vtl, 'sx': sx, 'body': [], 'ops': [], 'flat': True, 'depth': 1, 'label': label, 'corpus': True, 'using': None,
             'aliases': [True] * len(env), 'overlap': 'partial'}
        c.update(meta)
        cases.append(c)
    n_gen = int(os.environ.get('VERIF_N', 260 if q else 2400))
    for i in range(n_gen):
        cases.append(jg.case(must_resolve=(i % 12 != 0)))
    for i in range(60 if q else 600):          # state must not leak from one join statement into the next
        cases.append(jg.case(must_resolve=True, prefix=True))
    res = run_cases(ck, cases)

    hist = collections.Counter()
    dist = {k: collections.Counter() for k in ('kind', 'operands', 'structure', 'key_overlap', 'body_clause', 'body_length', 'using', 'operand_form',
                                               'aliases', 'duplicated_names', 'result_rows', 'input_rows')}
    groups = collections.defaultdict(list)
    for c, v, d, e, a in res:
        hv = v if not v.startswith('skip:semantic-reject') else 'skip:semantic-reject'
        hist[hv] += 1
        if v == 'agree':
            nontrivial = isinstance(d, int) and d > 0
            ck.count((c['vtl'], G.env_sx(c['env'])), nontrivial=nontrivial)
            dist['kind'][c['kind']] += 1
            dist['operands'][str(c['nops'])] += 1
            dist['structure'][c['struct']] += 1
            dist['key_overlap'][c.get('overlap', '?')] += 1
            for b in c.get('body') or ['(none)']:
                dist['body_clause'][b] += 1
            dist['body_length'][str(len(c.get('body') or []))] += 1
            dist['using'][str(bool(c.get('using')))] += 1
            dist['operand_form'][c.get('variant', 'plain')] += 1
            dist['aliases'][('all' if all(c['aliases']) else 'some' if any(c['aliases']) else 'none') if c.get('aliases') else '?'] += 1
            dist['duplicated_names'][str(min(len(c.get('dup_names', [])), 4))] += 1
            dist['result_rows'][str(min(d if isinstance(d, int) else 0, 10))] += 1
            dist['input_rows'][str(min(sum(len(x['rows']) for x in c['env'].values()) // 4 * 4, 16))] += 1
            if nontrivial:
                ck.sample({'script': c['vtl'], 'model': a[:200], 'class': '%s/%s/%s' % (c['kind'], c['struct'], c.get('overlap'))})
        else:
            ck.count(None, nontrivial=False)
        if v.startswith('DISAGREE'):
            groups[classify(c, v, e)].append((len(c['vtl']) + 10 * sum(len(x['rows']) for x in c['env'].values()), c, v, d, e, a))
    ck.note('outcomes', dict(hist))
    ck.note('input_distribution', {k: dict(v) for k, v in dist.items()})
    ck.note('rule', 'case = (join script, input data); non-trivial = model and engine agree on a non-empty result; distinct by (script, data); '
                    'input_distribution counts the AGREEING cases per join kind / operand count / identifier-structure class / key-overlap '
                    'class of the first two operands / body clause kinds')
    for key, lst in groups.items():
        lst.sort(key=lambda x: x[0])
        _, c, v, d, e, a = lst[0]
        ck.violation(key, replay_dict(c, v, d, e, a, len(lst)),
                     '%s: %s | model %s | engine %s' % (v, c['vtl'][:170], a[:110], str(e[1:3])[:170] if e[0] != 'ok' else str(d)[:170]))
    if hist['agree'] < (60 if q else 600):
        ck.unproved('correspondence:C04', 'only %d of %d cases could be compared: %s' % (hist['agree'], len(res), dict(hist)))
    if not pr['ok'] and not ck.viol:
        ck.unproved('Props.C04:' + ','.join(pr['failed'] or pr['forbidden'] or pr['bad_axioms']), 'Lean build/audit failed: ' + pr['log'][-400:])
    ck.trusted('correspondence harness (generator harness/sem/gen_join.py, canonicaliser harness/sem/runner.py: rows as sets keyed by '
               'identifiers, numbers exact-or-1e-9 relative, component names and roles compared, types/nullability not compared)',
               'stand-in parser harness/vtlstub for the script text',
               'modelled not verified: DuckDB evaluation of the generated SQL')
    ck.assumptions += ['VTL join semantics as restated in lean/VtlModel/Sem/Join.lean, validated against the Reference-Manual examples RM006-RM012 '
                       '(apply is modelled as the equivalent calc+keep; aggr body, attributes / viral attributes and the VTL 2.2 nvl join clause are not modelled)',
                       'well-typed scripts (cases rejected by semantic analysis are counted, not compared)',
                       'a `using` key that is a measure must belong to the first (reference) operand',
                       'interpretations adopted in the corpus cases: a bare component name that matches exactly one remaining alias#comp refers to it '
                       '(as the engine does in filter/calc/keep); a bare name matching several is ambiguous and must be rejected; the order in which a '
                       'structure declares its identifiers is irrelevant']


vlib.run_check('C04', main)

"""End-to-end observation of the real engine (vtlengine.run) on generated Time_Period series (C08 / C21).

VTL syntax that the engine accepts (probed on this tree):
  timeshift(DS_1, n) | period_indicator(DS_1) -> measure `duration_var` | fill_time_series(DS_1, all|single)
  flow_to_stock(DS_1) | stock_to_flow(DS_1) | DS_1[calc Me_y := getyear(Me_tp), ... getmonth / dayofmonth / dayofyear]
  time_agg: component level `DS_1[calc Me_2 := time_agg("Q", Id_1)]` (level 'comp', works on the Time_Period
  identifier) and dataset level `time_agg("Q", DS_1)` (level 'ds') which the engine only accepts for a dataset whose
  single measure is the time component (1-1-19-9 otherwise), so level 'ds' uses the (Id_1 Integer, Me_tp) dataset.
  `sum(DS_1 group all time_agg("Q"))` also works (not used here); `time_agg("Q", _, Id_1)` inside group all is a
  syntax error.  A target finer than the source raises RunTimeError 2-1-19-1 (the model answers `err`).
  fill_time_series: `single` = per group min..max; `all` = period 1 of the min year .. last period of the max year,
  for every group (and `single` on a dataset without other identifiers silently behaves like `all`).
"""
from __future__ import annotations

import datetime as dt
import multiprocessing as mp
import os
import random
import re
import signal
import sys
import time

sys.path.insert(0, os.path.join(os.path.dirname(os.path.abspath(__file__)), '..'))

IND = 'ASQMWD'
FMTS = ('vtl', 'sdmx_gregorian', 'sdmx_reporting', 'natural')
FMT_COL = {'vtl': 0, 'sdmx_reporting': 1, 'sdmx_gregorian': 2, 'natural': 3}   # column in the driver's `R` answer
OPS = ['timeshift', 'timeshift', 'timeshift_roundtrip', 'time_agg', 'period_indicator', 'fill_time_series',
       'fill_time_series', 'flow_to_stock', 'stock_to_flow', 'flow_stock_roundtrip', 'tp_scalar_ops', 'format_roundtrip']
TP_MEASURE_OPS = ('tp_scalar_ops',)
WORKERS = min(12, os.cpu_count() or 4)
CAP = 5   # disagreements reported per case and predicate


# ------------------------------------------------------------------ calendar (Python datetime = independent oracle)
def n_periods(ind, y):
    if ind == 'W': return 53 if dt.date(y, 12, 28).isocalendar()[1] == 53 else 52
    if ind == 'D': return 366 if (y % 4 == 0 and (y % 100 != 0 or y % 400 == 0)) else 365
    return {'A': 1, 'S': 2, 'Q': 4, 'M': 12}[ind]


def nxt(p):
    ind, y, n = p
    return (ind, y, n + 1) if n < n_periods(ind, y) else (ind, y + 1, 1)


def real_range(lo, hi):
    out, p = [], lo
    while (p[1], p[2]) <= (hi[1], hi[2]):
        out.append(p); p = nxt(p)
    return out


def pstr(p):
    ind, y, n = p
    return '%dA' % y if ind == 'A' else '%d-%s%0*d' % (y, ind, {'D': 3, 'S': 1, 'Q': 1}.get(ind, 2), n)


_RX = [(re.compile(r'^(\d{4})(?:-?A1?)?$'), lambda m: ('A', int(m[1]), 1)),
       (re.compile(r'^(\d{4})-?([SQMWD])(\d{1,3})$'), lambda m: (m[2], int(m[1]), int(m[3]))),
       (re.compile(r'^(\d{4})-(\d{2})$'), lambda m: ('M', int(m[1]), int(m[2]))),
       (re.compile(r'^(\d{4})-(\d{2})-(\d{2})$'),
        lambda m: ('D', int(m[1]), dt.date(int(m[1]), int(m[2]), int(m[3])).timetuple().tm_yday))]


def parse_tp(s):
    """Tolerant parser for the 4 output formats -> (ind, year, num); anything else is returned unchanged."""
    if isinstance(s, str):
        for rx, f in _RX:
            m = rx.match(s.strip())
            if m:
                try: return f(m)
                except ValueError: return s
    return s


def gen_series(rng, ind, y0, length, gap_rate, groups=1):
    out = []
    for g in range(groups):
        tot = n_periods(ind, y0)
        n = max(1, tot - rng.randint(0, max(0, length - 2))) if rng.random() < 0.6 else rng.randint(1, tot)
        p = (ind, y0, n)                      # 60%: the series straddles the end of year y0
        for k in range(length):
            if k == 0 or rng.random() >= gap_rate: out.append(('G%d' % g, p))
            p = nxt(p)
    return out


# ------------------------------------------------------------------ real engine (runs inside pool workers)
def _script(op, pa):
    n, t = pa.get('n'), pa.get('target')
    if op == 'time_agg':
        return ('DS_r <- time_agg("%s", DS_1);' if pa.get('level') == 'ds' else 'DS_r <- DS_1[calc Me_2 := time_agg("%s", Id_1)];') % t
    return {'timeshift': 'DS_r <- timeshift(DS_1, %s);' % n,
            'timeshift_roundtrip': 'DS_a := timeshift(DS_1, %s); DS_r <- timeshift(DS_a, %s);' % (n, -n if n is not None else 0),
            'period_indicator': 'DS_r <- period_indicator(DS_1);',
            'fill_time_series': 'DS_r <- fill_time_series(DS_1, %s);' % pa.get('mode', 'all'),
            'flow_to_stock': 'DS_r <- flow_to_stock(DS_1);', 'stock_to_flow': 'DS_r <- stock_to_flow(DS_1);',
            'flow_stock_roundtrip': 'DS_r <- stock_to_flow(flow_to_stock(DS_1));',
            'tp_scalar_ops': 'DS_r <- DS_1[calc Me_y := getyear(Me_tp), Me_m := getmonth(Me_tp), '
                             'Me_dm := dayofmonth(Me_tp), Me_dy := dayofyear(Me_tp)];',
            'format_roundtrip': 'DS_r <- DS_1;'}[op]


def tp_measure(case):
    return case['op'] in TP_MEASURE_OPS or (case['op'] == 'time_agg' and case['params'].get('level') == 'ds')


class Guard(BaseException):
    """Wall-clock guard; a BaseException so that `except Exception` inside the engine cannot swallow it."""


def _alarm(*_):
    raise Guard('wall-clock guard')


def _run_case(arg):
    case, fmt, timeout_s = arg
    import eng, pandas as pd
    from vtlengine import run
    series, tpm = case['series'], tp_measure(case)
    if tpm:
        ds = eng.structure('DS_1', [eng.comp('Id_1', 'Integer', 'Identifier'), eng.comp('Me_tp', 'Time_Period', 'Measure')])
        df = pd.DataFrame({'Id_1': list(range(len(series))), 'Me_tp': [pstr(p) for _, p in series]})
    else:
        ds = eng.structure('DS_1', [eng.comp('Id_1', 'Time_Period', 'Identifier'), eng.comp('Id_2', 'String', 'Identifier'),
                                    eng.comp('Me_1', 'Number', 'Measure')])
        df = pd.DataFrame({'Id_1': [pstr(p) for _, p in series], 'Id_2': [g for g, _ in series],
                           'Me_1': [float(i) for i in range(len(series))]})

    def go(frame, f):
        o = eng.outcome(run, script=_script(case['op'], case['params']), data_structures=eng.structures(ds),
                        datapoints={'DS_1': frame}, time_period_output_format=f, return_only_persistent=False)
        if o[0] != 'ok':
            cls = 'Timeout' if o[0] == 'raw' and (o[1].endswith('Guard') or 'Query interrupted' in o[2]) else o[1]
            return {'status': 'error', 'error': (cls, o[-1][:300]), 'vtl_exception': o[0] == 'vtl', 'rows': []}
        res = {'status': 'ok', 'error': None}
        for name, d in o[1].items():
            tpc = {c.name for c in d.components.values() if c.data_type.__name__ == 'TimePeriod'}
            rows = [{k: (parse_tp(v) if k in tpc else eng.canon_value(v)) for k, v in r.items()} for r in d.data.to_dict('records')]
            res['rows' if name == 'DS_r' else 'rows_' + name[3:]] = rows
            res['raw' if name == 'DS_r' else 'raw_' + name[3:]] = d.data
        return res

    signal.signal(signal.SIGALRM, _alarm)
    signal.setitimer(signal.ITIMER_REAL, timeout_s, 10)   # re-fires every 10 s should something swallow it
    t0 = time.time()
    try:
        if case['op'] != 'format_roundtrip':
            res = go(df, fmt)
        else:   # run 1 renders with params.fmt, run 2 reads the rendered strings back
            res = go(df, case['params']['fmt'])
            if res['status'] == 'ok':
                back = res['raw'][['Id_1', 'Id_2', 'Me_1']].copy()
                res['rendered'] = [(eng.canon_value(m), s) for m, s in zip(back['Me_1'], back['Id_1'])]
                r2 = go(back, 'sdmx_reporting')
                res['reread'] = {k: r2.get(k) for k in ('status', 'error', 'vtl_exception', 'rows')}
    except Guard as e:
        res = {'status': 'error', 'error': ('Timeout', str(e)), 'vtl_exception': False, 'rows': []}
    finally:
        signal.setitimer(signal.ITIMER_REAL, 0)
    res['secs'] = round(time.time() - t0, 3)
    return {k: v for k, v in res.items() if not k.startswith('raw')}


def observe(cases, fmt='sdmx_reporting', timeout_s=120):
    """Run every case on the real engine.  Forked workers (the parent imports eng once, so they start at once);
    two wall-clock guards: an interval timer inside the worker and get(timeout) outside for a worker stuck in C."""
    if not cases: return []
    import eng  # noqa: F401
    pool = mp.get_context('fork').Pool(min(WORKERS, len(cases)), maxtasksperchild=200)
    try:
        pend = [pool.apply_async(_run_case, ((c, fmt, timeout_s),)) for c in cases]
        out = []
        for p in pend:
            try: out.append(p.get(timeout_s + 60))
            except Exception as e:  # noqa: BLE001  (mp.TimeoutError, worker crash)
                cls = 'Timeout' if isinstance(e, mp.TimeoutError) else type(e).__name__
                out.append({'status': 'error', 'error': (cls, str(e)[:300]), 'vtl_exception': False, 'rows': []})
        return out
    finally:
        pool.terminate()


# ------------------------------------------------------------------ cases, oracle requests, predicates
def gen_cases(rng, n_cases, years, ops=None):
    cases = []
    OPS = ops or globals()['OPS']
    for i in range(n_cases):
        op, ind = OPS[i % len(OPS)] if i < len(OPS) else rng.choice(OPS), rng.choice(IND)
        series = gen_series(rng, ind, rng.choice(years), rng.randint(3, 40), rng.uniform(0, 0.4), rng.randint(1, 2))
        pa = {}
        if op.startswith('timeshift'): pa['n'] = rng.randint(-3, 3) if rng.random() < 0.35 else rng.randint(-60, 60)
        if op == 'time_agg': pa = {'target': rng.choice('ASQMW'), 'level': rng.choice(['comp', 'ds'])}
        if op == 'fill_time_series': pa['mode'] = rng.choice(['all', 'single'])
        if op == 'format_roundtrip': pa['fmt'] = rng.choice(FMTS)
        cases.append({'op': op, 'ind': ind, 'series': series, 'params': pa})
    return cases


def _groups(series):
    g = {}
    for grp, p in series: g.setdefault(grp, []).append(p)
    return g


def _requests(case, ob):
    """Driver request lines needed to judge one observed case."""
    op, pa, ind = case['op'], case['params'], case['ind']
    ps = [p for _, p in case['series']]
    if op == 'timeshift':
        return ['S %s %d %d %d %d' % (*p, pa['n'], pa['n']) for p in ps]
    if op == 'timeshift_roundtrip':
        back = [r['Id_1'] for r in ob.get('rows_a', []) if isinstance(r['Id_1'], tuple)]
        return ['S %s %d %d %d %d' % (*p, pa['n'], pa['n']) for p in ps] + ['S %s %d %d %d %d' % (*p, -pa['n'], -pa['n']) for p in back]
    if op == 'time_agg': return ['G %s %d %d %s' % (*p, pa['target']) for p in ps]
    if op == 'tp_scalar_ops': return ['P %s %d %d' % p for p in ps]
    if op == 'format_roundtrip':
        return ['R %s %d %d' % p for p in ps] + ['X ' + s for _, s in ob.get('rendered', []) if isinstance(s, str) and ' ' not in s]
    if op == 'fill_time_series':
        ys = range(min(p[1] for p in ps), max(p[1] for p in ps) + 2)
        return ['N %s %d %d' % (ind, y, n) for y in ys for n in range(1, n_periods(ind, y) + 1)]
    return []


def _yn(tok):
    y, n = tok.split(':'); return int(y), int(n)


def _shift(ans, p, k):
    spec, impl = ans['S %s %d %d %d %d' % (*p, k, k)].split('|')
    return (p[0], *_yn(spec.strip())), (p[0], *_yn(impl.strip()))


def _model_grid(ans, ind, lo, hi):
    """Periods the tree's recursive CTE generates from lo to hi, walking the model's next-period (`N`) table."""
    cur, out = lo, {lo}
    while (cur[1], cur[2]) < (hi[1], hi[2]) and len(out) < 20000:
        a = ans.get('N %s %d %d' % cur)
        if a is None: return None
        cur = (ind, *map(int, a.split())); out.add(cur)
    return out


def judge(case, ob, ans):
    """Disagreements of one case: list of dict(predicate, input, got, expected, model_predicts)."""
    op, pa, ind, series = case['op'], case['params'], case['ind'], case['series']
    out = []

    def dis(pred, inp, got, exp, mp_=None):
        if sum(1 for d in out if d['predicate'] == pred) < CAP:
            out.append({'predicate': pred, 'input': inp, 'got': got, 'expected': exp, 'model_predicts': mp_})

    err_expected = op == 'time_agg' and any(ans['G %s %d %d %s' % (*p, pa['target'])] == 'err' for _, p in series)
    unsupported = op == 'format_roundtrip' and any(ans['R %s %d %d' % p].split()[FMT_COL[pa['fmt']]] == '!' for _, p in series)
    if ob['status'] != 'ok':
        if not ob.get('vtl_exception'):   # error class 'Timeout' = a wall-clock guard fired (not the engine's exception)
            dis('raw-error', [p for _, p in series][:3], ob['error'],
                'VTLEngineException' if (err_expected or unsupported) else 'no error', err_expected or unsupported)
        elif not (err_expected or unsupported):
            dis('value', [p for _, p in series][:3], ob['error'], 'no error', False)
        return out
    if err_expected or unsupported:
        dis('value', [p for _, p in series][:3], 'ok (%d rows)' % len(ob['rows']), 'error', False); return out
    by_me = lambda rows: {r['Me_1']: r for r in rows if r.get('Me_1') is not None}
    grp = _groups(series)

    if op in ('timeshift', 'timeshift_roundtrip'):
        n = pa['n']
        first = by_me(ob['rows'] if op == 'timeshift' else ob.get('rows_a', []))
        last = by_me(ob['rows'])
        seen = {}
        for i, (g, p) in enumerate(series):
            spec, impl = _shift(ans, p, n)
            got = first.get(float(i), {}).get('Id_1')
            if op == 'timeshift' and got != spec: dis('value', p, got, spec, got == impl)
            if got is not None and (g, got) in seen and seen[(g, got)] != p:
                dis('collision', [seen[(g, got)], p], got, 'distinct outputs', got == impl)
            seen.setdefault((g, got), p)
            if op == 'timeshift_roundtrip':
                back = last.get(float(i), {}).get('Id_1')
                if back != p:
                    pred = _shift(ans, got, -n)[1] if isinstance(got, tuple) else None
                    dis('roundtrip', p, {'after_n': got, 'after_minus_n': back}, p, back == pred)
    elif op == 'time_agg':
        rows = {r['Id_1']: r for r in ob['rows']} if pa['level'] == 'ds' else by_me(ob['rows'])
        for i, (_, p) in enumerate(series):
            exp = (pa['target'], *map(int, ans['G %s %d %d %s' % (*p, pa['target'])].split()))
            got = rows.get(i if pa['level'] == 'ds' else float(i), {}).get('Me_tp' if pa['level'] == 'ds' else 'Me_2')
            if got != exp: dis('value', p, got, exp, False)
    elif op == 'period_indicator':
        if len(ob['rows']) != len(series): dis('lost-row', None, len(ob['rows']), len(series), False)
        for r in ob['rows']:
            if r.get('duration_var') != r['Id_1'][0]: dis('value', r['Id_1'], r.get('duration_var'), r['Id_1'][0], False)
    elif op == 'tp_scalar_ops':
        rows = {r['Id_1']: r for r in ob['rows']}
        for i, (_, p) in enumerate(series):
            a = ans['P %s %d %d' % p].split()
            exp = (p[1], int(a[6]), int(a[7]), int(a[8]))
            r = rows.get(i, {})
            got = tuple(r.get(k) for k in ('Me_y', 'Me_m', 'Me_dm', 'Me_dy'))
            if got != exp: dis('value', p, got, exp, False)
    elif op in ('flow_to_stock', 'stock_to_flow', 'flow_stock_roundtrip'):
        import eng
        me = {(g, p): float(i) for i, (g, p) in enumerate(series)}
        exp = {}
        for g, ps in grp.items():   # Python oracle: cumulative sum / first difference in calendar order
            acc = prev = 0.0
            for p in sorted(ps, key=lambda q: (q[1], q[2])):
                v = me[(g, p)]; acc += v
                exp[(g, p)] = {'flow_to_stock': acc, 'stock_to_flow': v - prev, 'flow_stock_roundtrip': v}[op]
                prev = v
        got = {(r['Id_2'], r['Id_1']): r['Me_1'] for r in ob['rows']}
        for k, v in exp.items():
            if k not in got: dis('lost-row', k[1], None, v, False)
            elif not eng.num_eq(got[k], v): dis('roundtrip' if op == 'flow_stock_roundtrip' else 'value', k[1], got[k], v, False)
    elif op == 'fill_time_series':
        gotg = {}
        for r in ob['rows']: gotg.setdefault(r['Id_2'], set()).add(r['Id_1'])
        ys = [p[1] for _, p in series]
        for g, ps in grp.items():
            ps = sorted(ps, key=lambda q: (q[1], q[2]))
            if pa['mode'] == 'single':
                lo, hi, mhi = ps[0], ps[-1], ps[-1]
            else:
                lo, hi = (ind, min(ys), 1), (ind, max(ys), n_periods(ind, max(ys)))
                lim = next((k for k in range(1, hi[2] + 1) if ans['N %s %d %d' % (ind, hi[1], k)].split() == [str(hi[1] + 1), '1']), hi[2])
                mhi = (ind, hi[1], lim)
            exp, got, model = set(real_range(lo, hi)), gotg.get(g, set()), _model_grid(ans, ind, lo, mhi)
            if got != exp:
                dis('value', {'group': g, 'min': lo, 'max': hi}, {'n': len(got), 'extra': sorted(got - exp)[:6]},
                    {'n': len(exp), 'missing': sorted(exp - got)[:6]}, got == model)
            outm = {r['Me_1'] for r in ob['rows']}
            for i, (g2, p) in enumerate(series):
                if g2 == g and (p not in got or float(i) not in outm):
                    dis('lost-row', p, 'absent from output', 'row kept', model is not None and p not in model)
    elif op == 'format_roundtrip':
        rend, col = dict(ob['rendered']), FMT_COL[pa['fmt']]
        rr = ob['reread']
        if rr['status'] != 'ok' and rr['error'] and (rr['error'][0] == 'Timeout' or 'wall-clock guard' in str(rr['error'])):
            return out   # the wall-clock guard fired while reading back (machine load), not an engine answer
        back = by_me(rr['rows']) if rr['status'] == 'ok' else {}
        for i, (_, p) in enumerate(series):
            s, exp_s = rend.get(float(i)), ans['R %s %d %d' % p].split()[col]
            if s != exp_s: dis('value', p, s, exp_s, False)
            x = ans.get('X %s' % s, '')
            m = re.search(r'parse=(\w) (-?\d+) (\d+)', x)
            pred = (m[1], int(m[2]), int(m[3])) if m else None
            got = back.get(float(i), {}).get('Id_1') if rr['status'] == 'ok' else rr['error']
            if got != p: dis('roundtrip', p, {'rendered': s, 'reread': got}, p, got == pred if rr['status'] == 'ok' else pred is None)
    return out


def run_e2e(ck, rng, n_cases, years=(2015, 2019, 2020, 2021, 2024, 2026, 2032), cases=None, timeout_s=120, ops=None):
    """Generate (or replay: `cases=[d['replay']]`) cases, observe the engine, ask the Lean driver, list disagreements."""
    cases = cases if cases is not None else gen_cases(rng, n_cases, years, ops)
    cases = [dict(c, series=[(g, tuple(p)) for g, p in c['series']]) for c in cases]   # JSON replays hold lists
    obs = observe(cases, timeout_s=timeout_s)
    reqs = sorted({q for c, o in zip(cases, obs) for q in _requests(c, o)})
    ans = dict(zip(reqs, ck.driver('Time', reqs))) if reqs else {}
    out = []
    for c, o in zip(cases, obs):
        ck.count((c['op'], c['ind']) + tuple(sorted(c['params'].items())))
        for d in judge(c, o, ans):
            out.append(dict(d, op=c['op'], ind=c['ind'], params=c['params'],
                            replay={'op': c['op'], 'ind': c['ind'], 'params': c['params'], 'series': c['series']}))
    return out


if __name__ == '__main__':
    import collections, vlib
    ck = vlib.Check('C08', argv=[])
    t0 = time.time()
    n = int(sys.argv[1]) if len(sys.argv) > 1 else 60
    ds = run_e2e(ck, random.Random(0), n)
    print('%d cases, %d evaluations (%d distinct), %d disagreements, %.1fs' % (
        n, ck.cov['evaluations'], ck.cov['distinct_nontrivial'], len(ds), time.time() - t0))
    for k, v in sorted(collections.Counter((d['op'], d['predicate'], d['model_predicts']) for d in ds).items(), key=str):
        print('  %-22s %-10s model_predicts=%-5s %d' % (*k, v))
    for d in ds[:10]:
        print({k: d[k] for k in ('op', 'ind', 'params', 'predicate', 'input', 'got', 'expected', 'model_predicts')})

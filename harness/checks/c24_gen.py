"""Generators for C24: (1) trees of the Lean Pretty fragment and their vtlengine AST counterparts,
(2) complete VTL scripts as text (statements of every kind, literals of every magnitude, null literals,
reserved-word names, comments).  All choices come from the `random.Random` passed in."""
from __future__ import annotations

import text_common as tc

UN = ['PLUS', 'MINUS', 'NOT']
BIN = ['MUL', 'DIV', 'PLUS', 'MINUS', 'CONCAT', 'EQ', 'NEQ', 'LT', 'LE', 'MT', 'ME', 'AND', 'OR', 'XOR']
BINPREC = {'MUL': 10, 'DIV': 10, 'PLUS': 9, 'MINUS': 9, 'CONCAT': 9, 'EQ': 8, 'NEQ': 8, 'LT': 8, 'LE': 8, 'MT': 8,
           'ME': 8, 'AND': 6, 'OR': 5, 'XOR': 5}
F1 = ['abs', 'ceil', 'floor', 'exp', 'ln', 'sqrt', 'len', 'trim', 'ltrim', 'rtrim', 'ucase', 'lcase', 'isnull']
F2 = ['mod', 'power', 'log', 'nvl', 'round', 'trunc']
F3 = ['between', 'substr']
NAMES = ['DS_1', 'DS_2', 'Me_1', 'Me_2', 'Id_1', 'x', 'y', 'sc_1', 'A.b', 'a1']
COMPS = ['Me_1', 'Me_2', 'Id_1', 'Id_2', 'At_1', 'obs']
CLAUSES = ['filter', 'calc', 'keep', 'drop']


# ------------------------------------------------------------------ model trees (nested tuples)
# ('C', kind, value) ('V', x) ('U', op, e) ('B', op, l, r) ('P', e) ('F', f, [args]) ('M', e, c)
# ('I', neg, e, [consts]) ('K', e, kw, [args]) ('A', x, e)
def gen_const(rng):
    k = rng.random()
    if k < 0.45: return ('C', 'int', rng.choice([0, 1, 2, 7, 10, 42, 1000, 123456789]))
    if k < 0.65: return ('C', 'str', rng.choice(['a', 'x y', 'EUR', '', '2020-01-01', 'A_1', 'né']))
    if k < 0.8: return ('C', 'bool', rng.random() < 0.5)
    if k < 0.9: return ('C', 'null', None)
    return ('C', 'float', rng.choice([0.5, 1.5, 2.25, 10.75, 0.125, 3.1]))


def gen_tree(rng, depth, ctx='ds', nf=True):
    """random tree; with nf=True parentheses are inserted wherever the grammar needs them"""
    if depth <= 0 or rng.random() < 0.18:
        return gen_const(rng) if rng.random() < 0.4 else ('V', rng.choice(NAMES if ctx == 'ds' else COMPS))
    k = rng.random()
    if k < 0.14:
        op = rng.choice(UN)
        e = gen_tree(rng, depth - 1, ctx, nf)
        return ('U', op, fix_operand(e, 11, nf))
    if k < 0.5:
        op = rng.choice(BIN)
        l = gen_tree(rng, depth - 1, ctx, nf); r = gen_tree(rng, depth - 1, ctx, nf)
        p = BINPREC[op]
        return ('B', op, fix_left(l, p, nf), fix_operand(r, p + 1, nf))
    if k < 0.6:
        return ('P', gen_tree(rng, depth - 1, ctx, nf))
    if k < 0.75:
        n = rng.choice([0, 1, 1, 2, 2, 3, 4])
        if n == 1: f = rng.choice(F1)
        elif n == 2: f = rng.choice(F2)
        elif n == 3: f = rng.choice(F3 + ['my_udo'])
        else: f = 'my_udo'
        return ('F', f, [gen_tree(rng, depth - 1, ctx, nf) for _ in range(n)])
    if k < 0.83 and ctx == 'ds':
        return ('M', fix_left(gen_tree(rng, depth - 1, ctx, nf), 12, nf), rng.choice(COMPS))
    if k < 0.9:
        items = [gen_const(rng) for _ in range(rng.randint(1, 3))]
        items = [c for c in items if c[1] in ('int', 'str')] or [('C', 'int', 1)]
        return ('I', rng.random() < 0.4, fix_left(gen_tree(rng, depth - 1, ctx, nf), 7, nf), items)
    if ctx == 'ds':
        kw = rng.choice(CLAUSES)
        e = fix_left(gen_tree(rng, depth - 1, 'ds', nf), 13, nf)
        if kw == 'filter':
            body = [gen_tree(rng, depth - 1, 'comp', nf)]
        elif kw == 'calc':
            body = [('A', rng.choice(COMPS), gen_tree(rng, depth - 1, 'comp', nf)) for _ in range(rng.randint(1, 3))]
        else:
            body = [('V', c) for c in rng.sample(COMPS, rng.randint(1, 3))]
        return ('K', e, kw, body)
    return ('V', rng.choice(COMPS))


def spine_prec(e):
    t = e[0]
    if t == 'B': return min(BINPREC[e[1]], spine_prec(e[2]))
    if t == 'M': return min(12, spine_prec(e[1]))
    if t == 'I': return min(7, spine_prec(e[2]))
    if t == 'K': return min(13, spine_prec(e[1]))
    if t == 'A': return 0
    return 15


def rlevel(e):
    t = e[0]
    if t == 'U': return 11
    if t == 'B': return BINPREC[e[1]] + 1
    if t == 'A': return 1
    return 16


def fix_operand(e, p, nf):
    """operand parsed by expr[p] (right operand / prefix operand)"""
    if nf and spine_prec(e) < p: return ('P', e)
    return e


def fix_left(e, p, nf):
    """left operand of a suffix of level p"""
    if nf and not (p < rlevel(e)): return ('P', e)
    return e


def const_lexeme(c):
    _, kind, v = c
    if kind == 'int': return str(v)
    if kind == 'str': return '"%s"' % v
    if kind == 'bool': return 'true' if v else 'false'
    if kind == 'null': return 'null'
    return repr(v)


def to_prefix(e):
    """model tree -> request words of lean/Drivers/Text.lean"""
    t = e[0]
    if t == 'C': return ['C', tc.enc(const_lexeme(e))]
    if t == 'V': return ['V', tc.enc(e[1])]
    if t == 'U': return ['U', e[1]] + to_prefix(e[2])
    if t == 'B': return ['B', e[1]] + to_prefix(e[2]) + to_prefix(e[3])
    if t == 'P': return ['P'] + to_prefix(e[1])
    if t == 'F': return ['F', tc.enc(e[1])] + [w for a in e[2] for w in to_prefix(a)] + ['.']
    if t == 'M': return ['M'] + to_prefix(e[1]) + [tc.enc(e[2])]
    if t == 'I': return ['I', '1' if e[1] else '0'] + to_prefix(e[2]) + [tc.enc(const_lexeme(c)) for c in e[3]] + [';']
    if t == 'K': return ['K'] + to_prefix(e[1]) + [tc.enc(e[2])] + [w for a in e[3] for w in to_prefix(a)] + ['.']
    if t == 'A': return ['A', tc.enc(e[1])] + to_prefix(e[2])
    raise ValueError(t)


_P = dict(line_start=1, column_start=1, line_stop=1, column_stop=1)


def to_ast(e):
    """model tree -> vtlengine AST node (the shapes ASTConstructor produces)"""
    from vtlengine import AST as A
    t = e[0]
    if t == 'C':
        kind, v = e[1], e[2]
        ty = {'int': 'INTEGER_CONSTANT', 'str': 'STRING_CONSTANT', 'bool': 'BOOLEAN_CONSTANT', 'null': 'NULL_CONSTANT',
              'float': 'FLOAT_CONSTANT'}[kind]
        return A.Constant(type_=ty, value=v, **_P)
    if t == 'V': return A.VarID(value=e[1], **_P)
    if t == 'U': return A.UnaryOp(op=tc.OP_TEXT[e[1]], operand=to_ast(e[2]), **_P)
    if t == 'B': return A.BinOp(left=to_ast(e[2]), op=tc.OP_TEXT[e[1]], right=to_ast(e[3]), **_P)
    if t == 'P': return A.ParFunction(operand=to_ast(e[1]), **_P)
    if t == 'F':
        f, args = e[1], [to_ast(a) for a in e[2]]
        if f in F1: return A.UnaryOp(op=f, operand=args[0], **_P)
        if f in ('mod', 'power', 'log', 'nvl'): return A.BinOp(left=args[0], op=f, right=args[1], **_P)
        if f in ('round', 'trunc', 'substr'): return A.ParamOp(op=f, children=[args[0]], params=args[1:], **_P)
        if f == 'between': return A.MulOp(op=f, children=args, **_P)
        return A.UDOCall(op=f, params=args, **_P)
    if t == 'M':
        return A.BinOp(left=to_ast(e[1]), op='#', right=A.Identifier(value=e[2], kind='ComponentID', **_P), **_P)
    if t == 'I':
        coll = A.Collection(name='List', type='Lists', children=[to_ast(c) for c in e[3]], kind='Set', **_P)
        return A.BinOp(left=to_ast(e[2]), op='not_in' if e[1] else 'in', right=coll, **_P)
    if t == 'K':
        kids = []
        for a in e[3]:
            if a[0] == 'A':
                asg = A.Assignment(left=A.Identifier(value=a[1], kind='ComponentID', **_P), op=':=', right=to_ast(a[2]), **_P)
                u = A.UnaryOp(op='measure', operand=asg, **_P)
                u.is_implicit_role = True
                kids.append(u)
            elif e[2] in ('keep', 'drop'):
                kids.append(A.Identifier(value=a[1], kind='ComponentID', **_P))
            else:
                kids.append(to_ast(a))
        return A.RegularAggregation(op=e[2], children=kids, dataset=to_ast(e[1]), isLast=False, **_P)
    if t == 'A':
        return A.Assignment(left=A.Identifier(value=e[1], kind='ComponentID', **_P), op=':=', right=to_ast(e[2]), **_P)
    raise ValueError(t)


class OutOfFragment(Exception):
    pass


def valkey(kind_or_lexeme, v=None, from_lexeme=False):
    """canonical constant key, from an AST Constant value or from a lexeme"""
    if from_lexeme:
        s = kind_or_lexeme
        if s == 'null': return 'null'
        if s in ('true', 'false'): return 'bool:' + s
        if s.startswith('"'): return 'str:' + s[1:-1]
        if '.' in s: return 'float:' + repr(float(s))
        return 'int:%d' % int(s)
    if v is None: return 'null'
    if isinstance(v, bool): return 'bool:' + ('true' if v else 'false')
    if isinstance(v, int): return 'int:%d' % v
    if isinstance(v, float): return 'float:' + repr(v)
    return 'str:' + str(v)


def from_ast(n):
    """vtlengine AST (as parsed) -> model words with constants as value keys; OutOfFragment otherwise"""
    from vtlengine import AST as A
    if isinstance(n, A.Constant) and type(n) is A.Constant:
        if isinstance(n.value, (int, float)) and not isinstance(n.value, bool) and n.value < 0:
            raise OutOfFragment('signed constant')
        if isinstance(n.value, float):
            from vtlengine.AST.ASTString import _handle_literal
            try:
                if valkey(_handle_literal(n.value), from_lexeme=True) != valkey(None, n.value): raise ValueError
            except Exception:  # noqa: BLE001  literal outside the exact range of _handle_literal (see Text/Literal.lean)
                raise OutOfFragment('float literal that _handle_literal does not print exactly')
        return ['C', valkey(None, n.value)]
    if isinstance(n, A.VarID): return ['V', n.value]
    if isinstance(n, A.Identifier): return ['V', n.value]
    if isinstance(n, A.ParFunction): return ['P'] + from_ast(n.operand)
    if isinstance(n, A.UnaryOp):
        if n.op in tc.TEXT_OP and tc.TEXT_OP[n.op] in UN: return ['U', tc.TEXT_OP[n.op]] + from_ast(n.operand)
        if n.op in F1: return ['F', n.op] + from_ast(n.operand) + ['.']
        if n.op == 'measure' and getattr(n, 'is_implicit_role', False): return from_ast(n.operand)
        raise OutOfFragment('UnaryOp ' + n.op)
    if isinstance(n, A.Assignment) and type(n) is A.Assignment and n.op == ':=' and isinstance(n.left, A.Identifier):
        return ['A', n.left.value] + from_ast(n.right)
    if isinstance(n, A.BinOp):
        if n.op == '#':
            if not isinstance(n.right, (A.Identifier, A.VarID)): raise OutOfFragment('memb')
            return ['M'] + from_ast(n.left) + [n.right.value]
        if n.op in ('in', 'not_in'):
            if not (isinstance(n.right, A.Collection) and n.right.kind == 'Set'): raise OutOfFragment('in vd')
            items = []
            for c in n.right.children:
                if not (type(c) is A.Constant): raise OutOfFragment('in item')
                if isinstance(c.value, (int, float)) and not isinstance(c.value, bool) and c.value < 0: raise OutOfFragment('signed')
                items.append(valkey(None, c.value))
            return ['I', '1' if n.op == 'not_in' else '0'] + from_ast(n.left) + items + [';']
        if n.op in tc.TEXT_OP and tc.TEXT_OP[n.op] in BIN:
            return ['B', tc.TEXT_OP[n.op]] + from_ast(n.left) + from_ast(n.right)
        if n.op in ('mod', 'power', 'log', 'nvl'): return ['F', n.op] + from_ast(n.left) + from_ast(n.right) + ['.']
        raise OutOfFragment('BinOp ' + n.op)
    if isinstance(n, A.ParamOp) and n.op in ('round', 'trunc', 'substr'):
        ws = ['F', n.op]
        for c in list(n.children) + list(n.params):
            if isinstance(c, A.ID): raise OutOfFragment('optional _')
            ws += from_ast(c)
        return ws + ['.']
    if isinstance(n, A.MulOp) and n.op == 'between':
        return ['F', n.op] + [w for c in n.children for w in from_ast(c)] + ['.']
    if isinstance(n, A.UDOCall):
        ws = ['F', n.op]
        for c in n.params:
            if isinstance(c, A.ID): raise OutOfFragment('optional _')
            ws += from_ast(c)
        return ws + ['.']
    if isinstance(n, A.RegularAggregation) and n.op in CLAUSES and not isinstance(n.dataset, A.JoinOp):
        if n.dataset is None: raise OutOfFragment('no dataset')
        ws = ['K'] + from_ast(n.dataset) + [n.op]
        for c in n.children:
            if isinstance(c, A.UnaryOp) and not getattr(c, 'is_implicit_role', False): raise OutOfFragment('role')
            ws += from_ast(c)
        return ws + ['.']
    raise OutOfFragment(type(n).__name__)


def prefix_consts_to_valkeys(words):
    """Lean `parse` answer (constants are lexemes) -> same words with constants as value keys"""
    import urllib.parse as _up

    class urllib:  # identifiers: the constructor strips the quotes of quoted identifiers ('imbalance' -> imbalance)
        class parse:
            @staticmethod
            def unquote(w):
                return _up.unquote(w)
    def uq(w):
        t = _up.unquote(w)
        return t[1:-1] if len(t) >= 2 and t[0] == "'" and t[-1] == "'" else t
    out, i = [], 0
    # a light re-reader: constants appear after 'C' and inside 'I … ;' item lists
    def rd(i):
        w = words[i]
        if w == 'C': return ['C', valkey(urllib.parse.unquote(words[i + 1]), from_lexeme=True)], i + 2
        if w == 'V': return ['V', uq(words[i + 1])], i + 2
        if w == 'U':
            r, j = rd(i + 2); return ['U', words[i + 1]] + r, j
        if w == 'B':
            l, j = rd(i + 2); r, k = rd(j); return ['B', words[i + 1]] + l + r, k
        if w == 'P':
            r, j = rd(i + 1); return ['P'] + r, j
        if w == 'F':
            acc, j = ['F', urllib.parse.unquote(words[i + 1])], i + 2
            while words[j] != '.':
                r, j = rd(j); acc += r
            return acc + ['.'], j + 1
        if w == 'M':
            r, j = rd(i + 1); return ['M'] + r + [uq(words[j])], j + 1
        if w == 'I':
            r, j = rd(i + 2); acc = ['I', words[i + 1]] + r
            while words[j] != ';':
                acc.append(valkey(urllib.parse.unquote(words[j]), from_lexeme=True)); j += 1
            return acc + [';'], j + 1
        if w == 'K':
            r, j = rd(i + 1); acc = ['K'] + r + [urllib.parse.unquote(words[j])]; j += 1
            while words[j] != '.':
                r, j = rd(j); acc += r
            return acc + ['.'], j + 1
        if w == 'A':
            r, j = rd(i + 2); return ['A', uq(words[i + 1])] + r, j
        raise ValueError(w)
    r, j = rd(0)
    if j != len(words): raise ValueError('trailing words')
    return r


# ------------------------------------------------------------------ scripts as text
RESERVED = ['errorlevel', 'errorcode', 'filter', 'group', 'order', 'rule', 'value', 'date', 'all', 'level', 'in']
SAFE_STRINGS = ['a', 'EUR', '[x]', ' lead', 'tail ', 'a  b', 'null', '1e5', 'é€', "it's", 'a;b', 'x := 1', '/* no */', '// no', 'a,b', 'then', '#', '', 'andy', 'oracle']
STRINGS = ['a', 'x and y', 'p or q', '(a)', 'a(b', 'c)d', '[x]', ' lead', 'tail ', 'a  b', 'null', '1e5', 'é€', "it's",
           'a;b', 'x := 1', '/* no */', '// no', 'a,b', 'then', '#', '']


SAFE = [False]


def num_literal(rng):
    if SAFE[0]:
        return rng.choice(['0', '1', '2', '10', '42', '1000', '0.5', '1.5', '2.25', '10.75', '0.125', '3.1', '99.99'])
    k = rng.random()
    if k < 0.25: return str(rng.choice([0, 1, 2, 5, 10, 99, 1000, 123456, 1234567, 10 ** 9, 10 ** 15, 10 ** 18]))
    if k < 0.45: return '%d.%d' % (rng.randint(0, 999), rng.randint(1, 9999))          # few digits
    if k < 0.55: return '%d.0' % rng.choice([0, 1, 5, 100, 123456, 1234567, 10 ** 12])  # integral float
    if k < 0.7: return '0.' + '0' * rng.randint(0, 8) + str(rng.randint(1, 999))       # small
    if k < 0.85: return '%d.%s' % (rng.randint(0, 10 ** rng.randint(1, 18)), ''.join(rng.choice('0123456789') for _ in range(rng.randint(1, 12))))
    return '%d.%d' % (rng.randint(10 ** 5, 10 ** 8), rng.randint(0, 99))


def name(rng, quoted_ok=True):
    if quoted_ok and not SAFE[0] and rng.random() < 0.12:
        return "'" + rng.choice(RESERVED) + "'"
    return rng.choice(COMPS)


def scalar_expr(rng, d):
    """component-level expression text"""
    if d <= 0 or rng.random() < 0.25:
        k = rng.random()
        if k < 0.35: return name(rng)
        if k < 0.6: return num_literal(rng)
        if k < 0.75: return '"%s"' % rng.choice(SAFE_STRINGS if SAFE[0] else STRINGS)
        if k < 0.85: return 'null'
        return rng.choice(['true', 'false'])
    k = rng.random()
    if k < 0.3: return '%s %s %s' % (scalar_expr(rng, d - 1), rng.choice(['+', '-', '*', '/', '||', '=', '<>', '<', '>=', 'and', 'or', 'xor']), scalar_expr(rng, d - 1))
    if k < 0.4: return '(%s)' % scalar_expr(rng, d - 1)
    if k < 0.48: return '%s %s' % (rng.choice(['-', '+', 'not']), scalar_expr(rng, d - 1))
    if k < 0.58: return '%s(%s)' % (rng.choice(F1), scalar_expr(rng, d - 1))
    if k < 0.66: return '%s(%s, %s)' % (rng.choice(['mod', 'power', 'nvl', 'round', 'trunc']), scalar_expr(rng, d - 1), rng.choice(['2', 'null', '1.5', name(rng)]))
    if k < 0.72: return 'if %s then %s else %s' % (scalar_expr(rng, d - 1), scalar_expr(rng, d - 1), scalar_expr(rng, d - 1))
    if k < 0.77: return 'case when %s then %s when %s then %s else %s' % tuple(scalar_expr(rng, d - 1) for _ in range(5))
    if k < 0.84: return '%s %s {%s}' % (scalar_expr(rng, d - 1), rng.choice(['in', 'not_in']), ', '.join(rng.choice([num_literal(rng), '-' + num_literal(rng), '"%s"' % rng.choice(SAFE_STRINGS if SAFE[0] else STRINGS)]) for _ in range(rng.randint(1, 3))))
    if k < 0.89: return 'between(%s, %s, %s)' % (scalar_expr(rng, d - 1), num_literal(rng), num_literal(rng))
    if k < 0.93: return 'cast(%s, %s)' % (scalar_expr(rng, d - 1), rng.choice(['integer', 'number', 'string', 'boolean']))
    if k < 0.96: return 'substr(%s, %s, %s)' % (scalar_expr(rng, d - 1), rng.choice(['1', '_']), rng.choice(['2', '_']))
    return 'cast(%s, date, "YYYY-MM-DD")' % scalar_expr(rng, d - 1)


def clause(rng, d):
    k = rng.random()
    if k < 0.25: return '[filter %s]' % scalar_expr(rng, d)
    if k < 0.5:
        items = ['%s%s := %s' % (rng.choice(['', '', 'measure ', 'identifier ', 'attribute ', 'viral attribute ']), name(rng), scalar_expr(rng, d)) for _ in range(rng.randint(1, 3))]
        return '[calc %s]' % ', '.join(items)
    if k < 0.62: return '[%s %s]' % (rng.choice(['keep', 'drop']), ', '.join(name(rng) for _ in range(rng.randint(1, 3))))
    if k < 0.74: return '[rename %s]' % ', '.join('%s to %s' % (name(rng), name(rng)) for _ in range(rng.randint(1, 2)))
    if k < 0.86:
        g = rng.choice(['', ' group by %s' % name(rng), ' group except %s, %s' % (name(rng), name(rng)), ' group all',
                        ' group by %s having avg(%s) > %s' % (name(rng), name(rng), num_literal(rng)),
                        ' group by %s' % name(rng) if SAFE[0] else ' group by %s time_agg("A")' % name(rng)])
        return '[aggr %s := %s(%s)%s]' % (name(rng), rng.choice(['sum', 'avg', 'count', 'min', 'max', 'median']), name(rng), g)
    if k < 0.93: return '[sub %s = %s]' % (name(rng), rng.choice(['1', '"A"', num_literal(rng)]))
    return '[%s %s, %s]' % (rng.choice(['pivot', 'unpivot']), name(rng), name(rng))


def window(rng):
    """a window clause with every kind of limit on either side: literal or VARIABLE offsets (VTL 2.2 varLimit), both directions"""
    def lim(side):
        k = rng.random()
        if k < 0.2:
            return 'unbounded preceding' if side == 'from' else 'unbounded following'
        if k < 0.35:
            return 'current data point'
        return '%s %s' % (rng.choice(['1', '2', '0', 'n_w', 'm_w', 'n_w']), rng.choice(['preceding', 'following']))
    return ' %s between %s and %s' % (rng.choice(['data points', 'range']), lim('from'), lim('to'))



def ds_expr(rng, d):
    if d <= 0 or rng.random() < 0.2:
        return rng.choice(['DS_1', 'DS_2', 'DS_3', 'DS_3' if (SAFE[0] or rng.random() < 0.7) else "'DS 4'"])
    k = rng.random()
    if k < 0.22: return '%s %s %s' % (ds_expr(rng, d - 1), rng.choice(['+', '-', '*', '/', '=', '>', 'and', 'or']), rng.choice([ds_expr(rng, d - 1), num_literal(rng)]))
    if k < 0.3: return '(%s)' % ds_expr(rng, d - 1)
    if k < 0.5: return ds_expr(rng, d - 1) + ' ' * rng.randint(0, 1) + clause(rng, d - 1)
    if k < 0.56: return '%s#%s' % (rng.choice(['DS_1', 'DS_2']), name(rng))
    if k < 0.63: return '%s(%s)' % (rng.choice(F1 + ['flow_to_stock', 'stock_to_flow', 'period_indicator']), ds_expr(rng, d - 1))
    if k < 0.7:
        body = rng.choice(['', ' filter %s' % scalar_expr(rng, 1), ' calc %s := %s' % (name(rng), scalar_expr(rng, 1)),
                           ' keep %s' % name(rng), ' rename %s to %s' % (name(rng), name(rng)),
                           ' filter %s calc %s := %s keep %s' % (scalar_expr(rng, 1), name(rng), scalar_expr(rng, 1), name(rng)),
                           ' calc %s := 1' % name(rng) if SAFE[0] else ' aggr %s := sum(%s) group by %s' % (name(rng), name(rng), name(rng)), ' apply d1 + d2'])
        using = rng.choice(['', '', ' using Id_1', ' using Id_1, Id_2'])
        jn = rng.choice(['inner_join', 'left_join', 'full_join', 'cross_join'])
        if jn == 'cross_join': using = ''
        return '%s(DS_1 as d1, %s as d2%s%s)' % (jn, ds_expr(rng, d - 1), using, body)
    if k < 0.76: return '%s(%s%s)' % (rng.choice(['sum', 'avg', 'count', 'max', 'min']), ds_expr(rng, d - 1), rng.choice(['', ' group by Id_1', ' group except Id_1', ' group by Id_1 having count() > 1']))
    if k < 0.8: return '%s(%s over (partition by Id_1 order by Id_2%s))' % (rng.choice(['sum', 'first_value', 'max']), ds_expr(rng, d - 1), rng.choice(['', ' desc', ' data points between 1 preceding and current data point', ' range between unbounded preceding and 2 following',
                                                                                                                                                             window(rng), window(rng)]))
    if k < 0.84: return 'if %s then %s else %s' % (ds_expr(rng, d - 1), ds_expr(rng, d - 1), ds_expr(rng, d - 1))
    if k < 0.88: return '%s(%s, %s)' % (rng.choice(['union', 'intersect', 'setdiff', 'symdiff']), ds_expr(rng, d - 1), ds_expr(rng, d - 1))
    if k < 0.91: return 'check(%s%s%s%s%s)' % (ds_expr(rng, d - 1), rng.choice(['', ' errorcode "E1"', ' errorcode 5']), rng.choice(['', ' errorlevel 2', ' errorlevel "W"']), rng.choice(['', ' imbalance DS_1 - DS_2']), rng.choice(['', ' invalid', ' all']))
    if k < 0.94: return 'timeshift(%s, %s)' % (ds_expr(rng, d - 1), rng.choice(['1', '-1', '+2']))
    if k < 0.96: return 'time_agg("A", %s%s)' % (rng.choice(['', '"M", ', '_, ']), ds_expr(rng, d - 1))
    if k < 0.98: return 'exists_in(%s, %s%s)' % (ds_expr(rng, d - 1), ds_expr(rng, d - 1), rng.choice(['', ', all', ', true']))
    return 'fill_time_series(%s%s)' % (ds_expr(rng, d - 1), rng.choice(['', ', all', ', single']))


def comment(rng):
    if rng.random() < 0.5:
        return '/* %s */' % rng.choice(['note', 'multi\n   line', 'x := 1;', '"quoted"', 'ünï', ''])
    return '// %s\n' % rng.choice(['tail', 'a := b;', '', 'x /* y */'])


def definition(rng, i):
    k = rng.random()
    if k < 0.35:
        pars = ', '.join('p%d %s%s' % (j, rng.choice(['dataset', 'component', 'integer', 'number', 'string', 'boolean'] + ([] if SAFE[0] else ['scalar'])),
                                      rng.choice(['', '', ' default 1'])) for j in range(rng.randint(1, 3)))
        body = rng.choice(['p0 + 1', 'p0 * p0', 'if p0 > 0 then p0 else -p0', 'p0 || "x"' if SAFE[0] else 'p0 || "(x)"', 'nvl(p0, 0)', 'p0 [filter Me_1 > 0]', 'abs(p0) + ln((p0))'])
        ret = rng.choice(['', ' returns dataset', ' returns number', ' returns boolean', ' returns component'])
        return 'define operator op_%d (%s)%s is %s end operator;' % (i, pars, ret, body)
    if k < 0.65:
        rules = []
        for j in range(rng.randint(1, 3)):
            r = rng.choice(['', 'r%d: ' % j]) + rng.choice(['when Me_1 > 0 then Me_2 > 0', 'Me_1 >= 0', 'when At_1 = "%s" then Me_1 <> null' % ('xy' if SAFE[0] else 'x and y'), 'Me_1 + Me_2 > %s' % num_literal(rng)])
            r += rng.choice(['', ' errorcode "E%d"' % j, ' errorcode %d' % j]) + rng.choice(['', ' errorlevel %d' % j, ' errorlevel "W"'])
            rules.append(r)
        sig = rng.choice(['variable Me_1, Me_2, At_1', 'variable Me_1 as M, Me_2, At_1', 'valuedomain vd1 as Me_1, vd2 as Me_2, vd3 as At_1'])
        if 'as M' in sig: rules = [r.replace('Me_1', 'M') for r in rules]
        return 'define datapoint ruleset dpr_%d (%s) is %s end datapoint ruleset;' % (i, sig, '; '.join(rules))
    if k < 0.88:
        rules = []
        for j in range(1 if SAFE[0] else rng.randint(1, 3)):
            r = rng.choice(['', 'h%d: ' % j]) + rng.choice(['A = B + C', 'A >= B - C', 'when Id_2 = "x" then A = B + C', 'A = B + C' if SAFE[0] else 'A = B[Id_2 = "y"] + C', 'T = A + B - C', 'A > 1'])
            r += rng.choice(['', ' errorcode "H%d"' % j]) + rng.choice(['', ' errorlevel %d' % j])
            rules.append(r)
        sig = rng.choice(['variable rule Id_1', 'valuedomain rule vd', 'variable condition Id_2 rule Id_1'])
        if 'condition' not in sig: rules = [r for r in rules if 'Id_2' not in r] or ['A = B + C']
        return 'define hierarchical ruleset hr_%d (%s) is %s end hierarchical ruleset;' % (i, sig, '; '.join(rules))
    cl = rng.choice(['when "C" then "C"; when "N" and "M" then "N"; else "F"', 'aggregate max', 'c1: when "A" then "B"', 'when "Q" then "Z"; else "Y"' if SAFE[0] else 'when null then "Z"; else "Y"'])
    return 'define viral propagation vp_%d (%s At_1) is %s end viral propagation;' % (i, rng.choice(['variable', 'valuedomain']), cl)


def script(rng):
    SAFE[0] = rng.random() < 0.6      # 60 %: only literals that _handle_literal prints exactly, so other constructs show
    n = rng.randint(1, 5)
    parts = []
    for i in range(n):
        if rng.random() < 0.25: parts.append(comment(rng))
        k = rng.random()
        if k < 0.3:
            parts.append(definition(rng, i))
        else:
            rhs = ds_expr(rng, rng.randint(1, 3)) if rng.random() < 0.7 else scalar_expr(rng, rng.randint(1, 3))
            if rng.random() < 0.1:
                rhs = rng.choice(['check_datapoint(DS_1, dpr_0%s)', 'check_hierarchy(DS_1, hr_0 rule Id_1%s)', 'hierarchy(DS_1, hr_0 rule Id_1%s)']) % rng.choice(
                    ['', ' all', ' non_null', ' invalid'])
                if rhs.startswith('hierarchy') and ('invalid' in rhs): rhs = rhs.replace(' invalid', ' computed')
                if rhs.startswith('check_datapoint') and 'non_null' in rhs: rhs = rhs.replace(' non_null', '')
            parts.append('%s %s %s;' % (rng.choice(['DS_r%d' % i, 'r%d' % i, 'res_%d' % i if (SAFE[0] or rng.random() < 0.7) else "'res %d'" % i]), rng.choice([':=', ':=', '<-']), rhs))
        if rng.random() < 0.15: parts.append(comment(rng))
    sep = rng.choice(['\n', ' ', '\n\n', '\r\n'])
    return sep.join(parts)

"""C20 — validate_dataset() raises exactly when run() rejects the same input.

No theorem of its own: the property is an agreement between two implementations (pandas path of
validate_dataset vs the DuckDB loader of run()); the arbiter that explains each disagreement is InputSpec
(Props/C19.lean, whose obligations are re-checked here).  Tie (K): the C19 input space, in CSV, string-dtype
DataFrame and native-dtype DataFrame form; both entry points of the real code on the same input.
"""
import json
import os
import sys

sys.path.insert(0, os.path.join(os.path.dirname(os.path.abspath(__file__)), '..'))
sys.path.insert(0, os.path.dirname(os.path.abspath(__file__)))
import vlib
import input_common as ic
import input_gen as ig
import c19

FORMS = ['csv', 'df_str', 'df_native']


def val_kind(o):
    if o[0] == 'ok':
        return 'passes'
    if o[0] == 'vtl':
        return 'raises:%s:%s' % (o[1], o[2])
    if o[0] == 'raw':
        return 'raises:' + o[1].split('.')[-1]
    return o[0]


def run_kind(o):
    k = ic.engine_kind(o)
    return 'accepts' if k == 'accept' else ('rejects' if k == 'reject' else 'fails:' + k)


def main(ck):
    ic.regen_patterns(ck)
    pr = ck.proof('C19')   # the arbiter's obligations
    ck.trusted('correspondence harness harness/checks/c20.py + input_common.py',
               'InputSpec (Props/C19.lean) is only the arbiter named in the replay; the verdict is the disagreement itself')
    ck.assumptions += ['"raises" = validate_dataset ends with any exception; "rejects" = run() of `DS_r <- DS_1;` ends with any exception',
                       'forms: CSV path object, string-dtype DataFrame, native-dtype DataFrame']
    if ck.replay_path:
        rp = json.load(open(ck.replay_path))
        cases = [dict(rp['replay']['case'], type=rp['replay'].get('type', 'table'), vclass=rp['replay'].get('value_class', '?'), role='-', forms=FORMS)]
    else:
        samples = int(os.environ.get('VERIF_INPUT_SAMPLES') or (1 if ck.quick() else 2))
        cases = []
        for c in c19.make_cases(ck, samples):
            if ck.quick() and ck.rng.random() > 0.6:
                continue   # quick tier: a seeded sample of the value classes (thorough: all of them)
            c['forms'] = [f for f in FORMS if not (f == 'csv' and c['type'] == 'String' and c['text'] == '')]
            cases.append(c)
        for kind in ig.STRUCT_KINDS:
            for _ in range(0 if (os.environ.get('VERIF_INPUT_FILTER') and 'table' not in os.environ['VERIF_INPUT_FILTER'].split(',')) else int(os.environ.get('VERIF_INPUT_NSTRUCT') or (2 if ck.quick() else 5))):
                c = ig.structural_case(ck.rng, kind)
                c.update(type='table', vclass=kind, role='-', forms=FORMS)
                cases.append(c)
    specs = ic.spec_verdicts(ck, cases)
    outs = ic.pool_map('run_case', [dict(ic.strip_case(c), focus=c.get('focus'), forms=c['forms'], validate=True) for c in cases])
    hist = {}
    for c, s, o in zip(cases, specs, outs):
        for form in c['forms']:
            if form not in o['run'] or form not in o['val']:
                continue
            rk, vk = run_kind(o['run'][form]), val_kind(o['val'][form])
            if 'timeout' in (rk, vk) or rk == 'fails:timeout':
                continue
            ck.count((c['type'], c['vclass'], c.get('role'), form, c.get('text')))
            agree = (rk == 'accepts') == (vk == 'passes')
            hist['%s/%s' % (rk.split(':')[0], vk.split(':')[0])] = hist.get('%s/%s' % (rk.split(':')[0], vk.split(':')[0]), 0) + 1
            if agree:
                continue
            key = '%s:%s:%s:validate=%s:run=%s' % (form, c['type'], c['vclass'], vk.split(':')[0], rk.split(':')[0])
            subj = ('%s value %r (%s, as %s)' % (c['type'], c.get('text'), c['vclass'], {'me': 'measure', 'id': 'identifier'}.get(c.get('role'), c.get('role')))
                    if c.get('text') is not None else 'table with %s' % c['vclass'])
            arb = 'InputSpec accepts it' if s[0] == 'accept' else 'InputSpec rejects it (%s)' % s[1]
            wrong = 'validate_dataset' if (s[0] == 'accept') != (vk == 'passes') else 'run()'
            what = 'on %s [%s input] validate_dataset %s but run() %s; %s, so %s deviates from the documented format' % (subj, form, vk, rk, arb, wrong)
            ck.violation(key, {'case': ic.strip_case(c), 'form': form, 'type': c['type'], 'value_class': c['vclass'], 'role': c.get('role'),
                               'validate_dataset': list(o['val'][form]), 'run': [rk] + [str(x)[:200] for x in o['run'][form][1:3]],
                               'inputspec': list(s) if s[0] == 'reject' else ['accept']}, what)
    for c, s, o in list(zip(cases, specs, outs))[:3]:
        ck.sample({'table': ic.strip_case(c), 'run': {f: run_kind(x) for f, x in o['run'].items()}, 'validate_dataset': {f: val_kind(x) for f, x in o['val'].items()}})
    ck.note('outcome_histogram_run/validate', hist)
    if not pr['ok'] and not ck.viol:
        ck.unproved('Props/C19 (arbiter)', 'lake build / audit of Props/C19.lean failed: %s' % (pr['failed'] or pr['bad_axioms'] or pr['forbidden']), pr['log'][-1500:])
    ic.cleanup()


if __name__ == '__main__':
    vlib.run_check('C20', main)

"""C33 — results depend only on the set of input datapoints.
Lean: Props/C33.lean (evalD_perm, by induction over expressions; needs C10.evalD_WF).
Tie: the model is the one validated against run() by C01/C02/C05; here the implementation itself is
checked metamorphically: permuted rows, shuffled columns, DataFrame and CSV form."""
import itertools
import os
import re
import sys
sys.path.insert(0, os.path.join(os.path.dirname(os.path.abspath(__file__)), '..'))
import vlib
from sem import gen as G
from sem import variants as V


MIXED = {
    'Date': ['2020-01-15', '2020-03-01 12:30:45', '2021-12-31T23:59:59', '1999-02-28', '2020-02-29', None],
    'Time_Period': ['2020M1', '2020-Q1', '2020A', '2020-M03', '2019-S2', '2021-W05', None],
    'Time': ['2020-01-01/2020-12-31', '2020-02-01/2020-02-29', None],
    'Duration': ['A', 'M', 'D', None],
    'String': ['1', '1.0', 'abc', '', ' x', 'true', '2020-01-01', None],
    'Number': [1, 2.5, -3, 1e-7, 12345678.125, 0, None],
    'Integer': [1, -2, 0, 2147483648, None],
    'Boolean': [True, False, None],
}


def typed_stream(ck, q):
    """inputs whose columns MIX the spellings a type allows (bare dates with date-times, several period spellings,
    numeric-looking strings, ints with floats): the loader must decide per value, never from the first rows."""
    import pandas as pd
    from sem import variants as Vv
    import multiprocessing as mp
    cases = []
    for _ in range(24 if q else 300):
        r = ck.rng
        types = r.sample(sorted(MIXED), r.choice([1, 2, 3]))
        n = r.choice([3, 4, 5, 6])
        rows = []
        for i in range(n):
            rows.append([i + 1] + [r.choice(MIXED[t]) for t in types])
        comps = [{'name': 'Id_1', 'type': 'Integer', 'role': 'Identifier', 'nullable': False}] + \
                [{'name': 'Me_%d' % (k + 1), 'type': t, 'role': 'Measure', 'nullable': True} for k, t in enumerate(types)]
        script = r.choice(['DS_r <- DS_1;', 'DS_r <- DS_1[filter Id_1 > 0];', 'DS_r <- DS_1[calc Me_9 := Me_1];',
                           'DS_r <- DS_1[rename Me_1 to Me_8];', 'DS_r <- union(DS_1, DS_1);'])
        cases.append({'structs': {'datasets': [{'name': 'DS_1', 'DataStructure': comps}]}, 'cols': [c['name'] for c in comps], 'rows': rows,
                      'types': types, 'script': script})
    jobs = []
    nperm = 4 if q else 8
    for c in cases:
        for k in range(nperm + 1):
            jobs.append((c, k, 'df' if k % 2 == 0 else 'csv'))
    with mp.Pool(min(12, max(2, (os.cpu_count() or 2) - 2)), initializer=Vv._init) as pool:
        outs = pool.map(Vv.typed_worker, jobs, chunksize=2)
    i = 0
    hist = {}
    for c in cases:
        rs = outs[i:i + nperm + 1]
        i += nperm + 1
        ref = {'df': rs[0], 'csv': rs[1]}
        hist[rs[0][0]] = hist.get(rs[0][0], 0) + 1
        ck.count(('typed', c['script'], str(c['rows'])), nontrivial=rs[0][0] == 'ok', n=nperm + 1)
        for k in range(2, nperm + 1):
            form = 'df' if k % 2 == 0 else 'csv'
            a, b = ref[form], rs[k]
            if a[0] == 'timeout' or b[0] == 'timeout':
                continue
            ok, why = Vv.same_result(a, b)
            if not ok:
                ck.violation('permutation-changes-result:%s:mixed-spellings:%s' % (form, '+'.join(sorted(c['types']))),
                             {'script': c['script'], 'structures': c['structs'], 'columns': c['cols'], 'rows': c['rows'], 'form': form,
                              'permutation_seed': k, 'as_given': str(a)[:700], 'permuted': str(b)[:700], 'why': why},
                             'permuting the rows of an input whose %s column mixes allowed spellings (%s form) changes the result: %s'
                             % ('/'.join(c['types']), form, why))
                break
    ck.note('typed_stream_outcomes', hist)



def viral_stream(ck, q):
    """scripts over datasets with viral attributes and ORDER-FREE propagation rules (aggregate rules, and enumerated rules
    whose two-value table is associative: Props/C28 `enum_group_perm_partial`): the result is determined by VTL, so permuting
    the input rows must not change it.  (Rules that are not order-free are C28's subject and recorded there.)"""
    from sem import gen_viral as GV
    # analytic invocations without order by are order-dependent on the pinned tree for a reason that has nothing to do with viral
    # attributes (known C06 finding: default window), so they are left to C06
    g = GV.ViralGen(ck.rng, order_free_only=True, allow={'assign', 'filter', 'calc', 'rename', 'setop', 'keep', 'drop', 'dropv', 'sub', 'aggr', 'aggrc',
                                                          'unary', 'scalar', 'binary', 'cmp', 'bincmp', 'join'})
    cases = [g.case() for _ in range(40 if q else 800)]
    # targeted: groups of several datapoints with DIFFERENT viral values, folded by every order-free rule that has two-value
    # clauses (and by the aggregate rules), under the aggregating operators
    for ri, rule in enumerate(GV.ORDER_FREE_BINARY + [GV.Rule('agg', fn='min'), GV.Rule('agg', fn='max')]):
        for rep_ in range(2 if q else 10):
            rows = []
            for i1 in (1, 2, 3):
                for i2 in ('a', 'b', 'c'):
                    if ck.rng.random() < 0.85:
                        rows.append((i1, i2, ck.rng.choice([1.5, 2.0, None, -3.25, 10.0]), ck.rng.choice(['A', 'B', 'C', 'A', 'B', 'Q', None])))
            ck.rng.shuffle(rows)
            env = {'DS_1': {'ids': [('Id_1', 'Integer'), ('Id_2', 'String')], 'meas': [('Me_1', 'Number')], 'viral': [('VAt_1', 'String')], 'rows': rows}}
            for expr, op in (('sum(DS_1 group by Id_1)', 'aggr'), ('max(DS_1 group except Id_1)', 'aggr'), ('count(DS_1)', 'aggr'),
                             ('DS_1[aggr Me_9 := min(Me_1) group by Id_2]', 'aggrc'), ('avg(DS_1 group by Id_1)[filter true]', 'aggr')):
                cases.append({'vtl': '%s DS_r <- %s;' % (rule.vtl('R_VAt_1', 'VAt_1'), expr), 'env': env, 'ops': [op], 'spec': {'VAt_1': ('String', rule)}})
    seeds = [None, 1, 2] if q else [None, 1, 2, 3, 4]
    outs = V.run_viral(cases, seeds)
    hist = {}
    for i, c in enumerate(cases):
        base = outs[i][0]
        kind = base[0] if base[0] != 'vtl' else 'vtl:' + str(base[1])
        hist[kind] = hist.get(kind, 0) + 1
        if any(o[0] == 'timeout' for o in outs[i]):
            ck.count(None, nontrivial=False); continue
        nontrivial = base[0] == 'ok' and any((x[0] == 'ds' and x[2]) for x in base[1].values())
        ck.count(('viral', c['vtl'], GV.env_sx(c['env'])), nontrivial=nontrivial, n=len(seeds))
        for sd, o in zip(seeds[1:], outs[i][1:]):
            same, why = V.same_result(base, o)
            if not same:
                rep = (GV.case_to_json(c) if 'sx' in c else
                       {'script': c['vtl'], 'structures': GV.structures(c['env']), 'data': {n: [list(r) for r in d['rows']] for n, d in c['env'].items()}})
                rep.update({'perm_seed': sd, 'why': why, 'base': str(base)[:1200], 'permuted': str(o)[:1200]})
                ck.violation('permutation-changes-result:viral:%s' % (c.get('ops') or ['?'])[-1], rep,
                             'permuting the input rows of a script with an order-free viral propagation rule changes the result: %s | %s' % (why[:160], c['vtl'][:160]))
                break
    ck.note('viral_stream_outcomes', hist)


def corpus_stream(ck, q):
    """the upstream corpus (every run() call of the upstream tests, harvested not executed): each call is replayed as
    recorded and with the rows and columns of every CSV input shuffled; results compared as sets."""
    import shutil
    import tempfile
    import corpus
    out = tempfile.mkdtemp(prefix='verif_corpus_')
    try:
        n, tail = corpus.harvest(out, ['ReferenceManual', 'Additional'] if q else None)
        recs = corpus.load(out)
        ck.rng.shuffle(recs)
        if q:
            recs = recs[:100]
        jobs = []
        for r in recs:
            jobs.append((r, {'rop': False}))
            jobs.append((r, {'rop': False, 'perm_seed': ck.rng.randrange(1 << 30)}))
        outs = corpus.run_calls(jobs)
        hist = {}
        for k, r in enumerate(recs):
            base, perm = outs[2 * k], outs[2 * k + 1]
            hist[base[0]] = hist.get(base[0], 0) + 1
            if base[0] in ('timeout', 'skip', 'raw') or perm[0] in ('timeout', 'skip'):
                ck.count(None, nontrivial=False)
                continue
            script = str(r.get('script'))
            if 'current_date' in script or 'random' in script:
                continue
            if re.search(r'\bover\s*\(', script):
                # an analytic invocation is a function of the SET of datapoints only when its ordering is total on every partition
                # (Props/C06 `analytic_perm` vs `ties_counter`); the corpus orders by one identifier of several, so its results are
                # not determined by VTL.  Order independence of analytic functions is decided by C06 on inputs with total orders.
                hist['skip:analytic-ordering-not-total'] = hist.get('skip:analytic-ordering-not-total', 0) + 1
                ck.count(None, nontrivial=False)
                continue
            nontrivial = base[0] == 'ok' and any((x[0] == 'ds' and x[2]) for x in base[1].values())
            ck.count(('corpus', r['id']), nontrivial=nontrivial, n=2)
            ok, why = V.same_result(base, perm)
            if not ok:
                ck.violation('corpus:permutation-changes-result:%s' % (r['test'].split('::')[0].split('/')[-2] if '/' in r['test'] else '?'),
                             {'corpus_call': r, 'why': why, 'base': str(base)[:600], 'permuted': str(perm)[:600]},
                             'corpus script %s: shuffled CSV rows/columns change the result: %s' % (script[:100], why))
        ck.note('corpus_calls_harvested', n)
        ck.note('corpus_outcomes', hist)
    finally:
        shutil.rmtree(out, ignore_errors=True)


def main(ck):
    pr = ck.proof('C33', extra_modules=('VtlModel.Props.C10',))
    q = ck.quick()
    g = G.Gen(ck.rng, max_rows=6)
    gflat = G.Gen(ck.rng, max_rows=6, flat=True)
    cases = [g.case(depth=ck.rng.choice([1, 1, 2])) for _ in range(60 if q else 1200)] + [gflat.case() for _ in range(60 if q else 1200)]
    jobs = []
    nperm = 3 if q else 8
    for c in cases:
        jobs.append((c, {'form': 'df'}))
        jobs.append((c, {'form': 'csv'}))      # like is compared with like: CSV cannot tell '' from null (that is C18's subject)
        for k in range(nperm):
            jobs.append((c, {'perm_seed': ck.rng.randrange(1 << 30), 'shuffle_cols': True, 'form': 'csv' if k % 2 else 'df'}))
    outs = V.run_variants(jobs)
    i = 0
    hist = {}
    for c in cases:
        base, base_csv = outs[i], outs[i + 1]
        vars_ = outs[i + 2:i + 2 + nperm]
        vjobs = jobs[i + 2:i + 2 + nperm]
        i += 2 + nperm
        if base[0] == 'timeout' or base_csv[0] == 'timeout' or any(v[0] == 'timeout' for v in vars_):
            hist['timeout'] = hist.get('timeout', 0) + 1
            ck.count(None, nontrivial=False)
            continue
        kind = base[0] if base[0] != 'vtl' else 'vtl:' + str(base[1])
        hist[kind] = hist.get(kind, 0) + 1
        nontrivial = base[0] == 'ok' and any((x[0] == 'ds' and x[2]) for x in base[1].values())
        ck.count((c['vtl'], G.env_sx(c['env'])), nontrivial=nontrivial, n=1 + nperm)
        if nontrivial:
            ck.sample({'script': c['vtl'], 'rows': {k: len(v['rows']) for k, v in c['env'].items()}, 'permutations': nperm})
        if base[0] == 'raw':
            continue        # raw engine failures are C32/C01 findings; nothing to compare
        for v, (_, var) in zip(vars_, vjobs):
            ref = base_csv if var.get('form') == 'csv' else base
            if ref[0] == 'raw':
                continue
            ok, why = V.same_result(ref, v)
            if not ok:
                ops = c.get('ops', [])
                key = 'permutation-changes-result:%s:%s' % (var.get('form'), ops[-1] if ops else '?')
                ck.violation(key, {'script': c['vtl'], 'structures': G.structures(c['env']),
                                   'data': {k: [[str(x) if x is not None else None for x in r] for r in d['rows']] for k, d in c['env'].items()},
                                   'variant': var, 'base': str(ref)[:800], 'permuted': str(v)[:800], 'why': why},
                             'permuting input rows/columns (%s form) changed the result of %s: %s' % (var.get('form'), c['vtl'][:120], why))
                break
    typed_stream(ck, q)
    viral_stream(ck, q)
    corpus_stream(ck, q)
    ck.note('outcomes', hist)
    ck.cov['rule'] = ('case = (script, data); each case is run once as given and %d times with permuted rows + shuffled columns (DataFrame and CSV); '
                      'non-trivial = base run returns a non-empty dataset; distinct by (script, data)' % nperm)
    if not pr['ok'] and not ck.viol:
        ck.unproved('Props.C33:' + ','.join(pr['failed'] or pr['forbidden'] or pr['bad_axioms']), 'Lean build/audit failed: ' + pr['log'][-400:])
    ck.trusted('Lean kernel', 'model validated against run() by the C01/C02/C05 correspondence (same evaluator evalD)',
               'metamorphic harness (harness/sem/variants.py)', 'modelled not verified: DuckDB scan order is covered as "any permutation"; '
               'analytic functions, aggregations and joins are not yet in the model (their order independence is only exercised metamorphically when generated)')
    ck.assumptions += ['inputs have unique identifier keys (the loader rejects others: C19)']


vlib.run_check('C33', main)

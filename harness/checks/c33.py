"""C33 — results depend only on the set of input datapoints.
Lean: Props/C33.lean (evalD_perm, by induction over expressions; needs C10.evalD_WF).
Tie: the model is the one validated against run() by C01/C02/C05; here the implementation itself is
checked metamorphically: permuted rows, shuffled columns, DataFrame and CSV form."""
import itertools
import os
import sys
sys.path.insert(0, os.path.join(os.path.dirname(os.path.abspath(__file__)), '..'))
import vlib
from sem import gen as G
from sem import variants as V


def corpus_stream(ck, q):
    """the upstream corpus (every run() call of the upstream tests, harvested not executed): each call is replayed as
    recorded and with the rows and columns of every CSV input shuffled; results compared as sets."""
    import shutil
    import tempfile
    import corpus
    out = tempfile.mkdtemp(prefix='verif_corpus_')
    try:
        n, tail = corpus.harvest(out, ['ReferenceManual', 'Additional'] if q else None)
        recs = corpus.load(out)
        ck.rng.shuffle(recs)
        if q:
            recs = recs[:100]
        jobs = []
        for r in recs:
            jobs.append((r, {'rop': False}))
            jobs.append((r, {'rop': False, 'perm_seed': ck.rng.randrange(1 << 30)}))
        outs = corpus.run_calls(jobs)
        hist = {}
        for k, r in enumerate(recs):
            base, perm = outs[2 * k], outs[2 * k + 1]
            hist[base[0]] = hist.get(base[0], 0) + 1
            if base[0] in ('timeout', 'skip', 'raw') or perm[0] in ('timeout', 'skip'):
                ck.count(None, nontrivial=False)
                continue
            script = str(r.get('script'))
            if 'current_date' in script or 'random' in script:
                continue
            nontrivial = base[0] == 'ok' and any((x[0] == 'ds' and x[2]) for x in base[1].values())
            ck.count(('corpus', r['id']), nontrivial=nontrivial, n=2)
            ok, why = V.same_result(base, perm)
            if not ok:
                ck.violation('corpus:permutation-changes-result:%s' % (r['test'].split('::')[0].split('/')[-2] if '/' in r['test'] else '?'),
                             {'corpus_call': r, 'why': why, 'base': str(base)[:600], 'permuted': str(perm)[:600]},
                             'corpus script %s: shuffled CSV rows/columns change the result: %s' % (script[:100], why))
        ck.note('corpus_calls_harvested', n)
        ck.note('corpus_outcomes', hist)
    finally:
        shutil.rmtree(out, ignore_errors=True)


def main(ck):
    pr = ck.proof('C33', extra_modules=('VtlModel.Props.C10',))
    q = ck.quick()
    g = G.Gen(ck.rng, max_rows=6)
    gflat = G.Gen(ck.rng, max_rows=6, flat=True)
    cases = [g.case(depth=ck.rng.choice([1, 1, 2])) for _ in range(60 if q else 1200)] + [gflat.case() for _ in range(60 if q else 1200)]
    jobs = []
    nperm = 3 if q else 8
    for c in cases:
        jobs.append((c, {'form': 'df'}))
        jobs.append((c, {'form': 'csv'}))      # like is compared with like: CSV cannot tell '' from null (that is C18's subject)
        for k in range(nperm):
            jobs.append((c, {'perm_seed': ck.rng.randrange(1 << 30), 'shuffle_cols': True, 'form': 'csv' if k % 2 else 'df'}))
    outs = V.run_variants(jobs)
    i = 0
    hist = {}
    for c in cases:
        base, base_csv = outs[i], outs[i + 1]
        vars_ = outs[i + 2:i + 2 + nperm]
        vjobs = jobs[i + 2:i + 2 + nperm]
        i += 2 + nperm
        if base[0] == 'timeout' or base_csv[0] == 'timeout' or any(v[0] == 'timeout' for v in vars_):
            hist['timeout'] = hist.get('timeout', 0) + 1
            ck.count(None, nontrivial=False)
            continue
        kind = base[0] if base[0] != 'vtl' else 'vtl:' + str(base[1])
        hist[kind] = hist.get(kind, 0) + 1
        nontrivial = base[0] == 'ok' and any((x[0] == 'ds' and x[2]) for x in base[1].values())
        ck.count((c['vtl'], G.env_sx(c['env'])), nontrivial=nontrivial, n=1 + nperm)
        if nontrivial:
            ck.sample({'script': c['vtl'], 'rows': {k: len(v['rows']) for k, v in c['env'].items()}, 'permutations': nperm})
        if base[0] == 'raw':
            continue        # raw engine failures are C32/C01 findings; nothing to compare
        for v, (_, var) in zip(vars_, vjobs):
            ref = base_csv if var.get('form') == 'csv' else base
            if ref[0] == 'raw':
                continue
            ok, why = V.same_result(ref, v)
            if not ok:
                ops = c.get('ops', [])
                key = 'permutation-changes-result:%s:%s' % (var.get('form'), ops[-1] if ops else '?')
                ck.violation(key, {'script': c['vtl'], 'structures': G.structures(c['env']),
                                   'data': {k: [[str(x) if x is not None else None for x in r] for r in d['rows']] for k, d in c['env'].items()},
                                   'variant': var, 'base': str(ref)[:800], 'permuted': str(v)[:800], 'why': why},
                             'permuting input rows/columns (%s form) changed the result of %s: %s' % (var.get('form'), c['vtl'][:120], why))
                break
    corpus_stream(ck, q)
    ck.note('outcomes', hist)
    ck.cov['rule'] = ('case = (script, data); each case is run once as given and %d times with permuted rows + shuffled columns (DataFrame and CSV); '
                      'non-trivial = base run returns a non-empty dataset; distinct by (script, data)' % nperm)
    if not pr['ok'] and not ck.viol:
        ck.unproved('Props.C33:' + ','.join(pr['failed'] or pr['forbidden'] or pr['bad_axioms']), 'Lean build/audit failed: ' + pr['log'][-400:])
    ck.trusted('Lean kernel', 'model validated against run() by the C01/C02/C05 correspondence (same evaluator evalD)',
               'metamorphic harness (harness/sem/variants.py)', 'modelled not verified: DuckDB scan order is covered as "any permutation"; '
               'analytic functions, aggregations and joins are not yet in the model (their order independence is only exercised metamorphically when generated)')
    ck.assumptions += ['inputs have unique identifier keys (the loader rejects others: C19)']


vlib.run_check('C33', main)

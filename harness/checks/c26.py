"""C26 — every VTL error raised carries a catalogued code and its arguments fill every placeholder.

Lean: Props/C26.lean over Gen/Catalogue.lean + Gen/RaiseSites.lean (regenerated from the source on every run).
Ties: (T) the translators; (K) render model vs Python's str.format on the live catalogue (driver), generated
tables vs the live module objects; replay of every raise site on the real constructors; monitor that records
every coded exception constructed while generated failing scripts and corpus scripts run.
"""
import glob
import json
import os
import sys
import traceback

sys.path.insert(0, os.path.join(os.path.dirname(os.path.abspath(__file__)), '..'))
sys.path.insert(0, os.path.dirname(os.path.abspath(__file__)))
import vlib
import errors_common as ec
from errors_common import catmod

PID = 'C26'


def T(ck, label):
    import time
    ck.cov.setdefault('timings_s', {})[label] = round(time.time() - ck.t0, 1)


def key_of(site, code, kind):
    return 'site:%s:%s:%s:%s' % (site['file'], site['func'], code, kind)


# ----------------------------------------------------------------------------------------------------------
def replay_site(classes_live, site, code):
    """Construct the real exception class exactly as the site does (scanned keyword names, dummy values).
    -> ('ok', message) | ('fail', 'KeyError: ...') | ('nocode', message)."""
    cls = classes_live[site['cls']]
    kw = {k: '<%s>' % k for k in site['kwargs']}
    try:
        if site['in_slot']:
            if site['cls'] == 'InputValidationException':
                e = cls(code=code, **kw)
            else:
                e = cls(code, **kw)
        else:
            e = cls(code, **kw)          # the code literal lands in `message`
    except Exception as ex:  # noqa: BLE001
        return ('fail', '%s: %s' % (type(ex).__name__, ex))
    args = getattr(e, 'args', ())
    if len(args) < 2 or args[1] != code:
        return ('nocode', str(args[0]) if args else '')
    return ('ok', str(args[0]))


# ----------------------------------------------------------------------------------------------------------
class Monitor:
    """Wraps the coded constructors: records (site, class, code, keyword names, failure)."""

    def __init__(self, eng_mod, repo_pkg):
        import vtlengine.Exceptions as X
        self.X, self.pkg = X, repo_pkg
        self.records = []
        self.orig = {}

    def install(self, names):
        mon = self
        for n in names:
            cls = getattr(self.X, n)
            orig = cls.__init__
            self.orig[n] = orig

            def make(n, orig):
                def patched(self_, *a, **kw):
                    f = sys._getframe(1)
                    fn = f.f_code.co_filename
                    rel = os.path.relpath(fn, mon.pkg) if fn.startswith(mon.pkg) else fn
                    qual = getattr(f.f_code, 'co_qualname', f.f_code.co_name)
                    rec = {'cls': n, 'file': rel, 'func': qual, 'line': f.f_lineno, 'args': [repr(x)[:60] for x in a],
                           'kw': sorted(kw), 'fail': None}
                    try:
                        orig(self_, *a, **kw)
                    except Exception as ex:  # noqa: BLE001
                        rec['fail'] = '%s: %s' % (type(ex).__name__, ex)
                        mon.records.append(rec)
                        raise
                    ea = getattr(self_, 'args', ())
                    rec['code'] = ea[1] if len(ea) > 1 else None
                    rec['msg'] = str(ea[0])[:200] if ea else ''
                    mon.records.append(rec)
                return patched
            cls.__init__ = make(n, orig)

    def uninstall(self):
        for n, o in self.orig.items():
            getattr(self.X, n).__init__ = o


TYPES = ['Integer', 'Number', 'String', 'Boolean', 'Date', 'Time_Period', 'Time', 'Duration']

# script templates that fail (or may fail) semantic analysis in many different operators; {a} {b} are measures
TEMPLATES = [
    'DS_r <- DS_1 + DS_2;', 'DS_r <- DS_1 - DS_1#{a};', 'DS_r <- DS_1[calc Me_9 := {a} + {b}];',
    'DS_r <- DS_1[calc Me_9 := {a} and {b}];', 'DS_r <- DS_1[calc Me_9 := not {a}];',
    'DS_r <- DS_1[calc Me_9 := if {a} then 1 else 2];', 'DS_r <- DS_1[calc Me_9 := if {a} > 1 then {a} else {b}];',
    'DS_r <- if DS_1 then DS_1 else DS_2;', 'DS_r <- DS_1[calc Me_9 := nvl({a}, {b})];',
    'DS_r <- DS_1[calc identifier {a} := {b}];', 'DS_r <- DS_1[calc Id_1 := {a}];', 'DS_r <- DS_1[keep Id_1];',
    'DS_r <- DS_1[drop Id_1];', 'DS_r <- DS_1[keep Me_77];', 'DS_r <- DS_1[rename {a} to {b}];',
    'DS_r <- DS_1[rename Me_77 to Me_78];', 'DS_r <- DS_1[filter {a}];', 'DS_r <- DS_1[filter {a} > {b}];',
    'DS_r <- DS_1[sub Id_1 = "x"];', 'DS_r <- DS_1[sub {a} = 1];', 'DS_r <- DS_1[pivot Id_1, {a}];',
    'DS_r <- DS_1[unpivot Id_9, Me_9];', 'DS_r <- DS_1[aggr Me_9 := sum({a}) group by Id_7];',
    'DS_r <- DS_1[aggr Me_9 := sum({a}) group by Id_1 having avg({b}) > 1];',
    'DS_r <- sum(DS_1 group by Id_7);', 'DS_r <- avg(DS_1 group except Id_7);', 'DS_r <- max(DS_1 group by {a});',
    'DS_r <- DS_1[calc Me_9 := sum({a} over (partition by Id_7))];', 'DS_r <- first_value(DS_1 over (partition by {a} order by Id_1));',
    'DS_r <- DS_1[calc Me_9 := lag({a}, -1 over (order by Id_1))];', 'DS_r <- ratio_to_report(DS_1 over (partition by Id_1));',
    'DS_r <- inner_join(DS_1, DS_2);', 'DS_r <- inner_join(DS_1 as d1, DS_2 as d1);', 'DS_r <- inner_join(DS_1 as {a});',
    'DS_r <- left_join(DS_1, DS_2 using {a});', 'DS_r <- cross_join(DS_1, DS_2);', 'DS_r <- full_join(DS_1 as d1, DS_2 as d2 using Id_7);',
    'DS_r <- union(DS_1, DS_2);', 'DS_r <- intersect(DS_1, DS_2);', 'DS_r <- setdiff(DS_1, DS_2);', 'DS_r <- symdiff(DS_1, DS_2);',
    'DS_r <- substr(DS_1, 0, 1);', 'DS_r <- DS_1[calc Me_9 := substr({a}, 1, -1)];', 'DS_r <- DS_1[calc Me_9 := instr({a}, "a", 0, 1)];',
    'DS_r <- DS_1[calc Me_9 := replace({a}, 1, 2)];', 'DS_r <- DS_1[calc Me_9 := length({a})];', 'DS_r <- DS_1[calc Me_9 := {a} || {b}];',
    'DS_r <- DS_1[calc Me_9 := round({a}, {b})];', 'DS_r <- DS_1[calc Me_9 := trunc({a}, "x")];', 'DS_r <- DS_1[calc Me_9 := mod({a}, {b})];',
    'DS_r <- DS_1[calc Me_9 := power({a}, {b})];', 'DS_r <- DS_1[calc Me_9 := log({a}, {b})];', 'DS_r <- DS_1[calc Me_9 := random({a}, 1)];',
    'DS_r <- DS_1[calc Me_9 := between({a}, {b}, 5)];', 'DS_r <- DS_1[calc Me_9 := {a} in {{1, 2}}];', 'DS_r <- DS_1[calc Me_9 := match_characters({a}, "x")];',
    'DS_r <- DS_1[calc Me_9 := isnull({a})];', 'DS_r <- exists_in(DS_1, DS_2, all);', 'DS_r <- DS_1[calc Me_9 := cast({a}, integer)];',
    'DS_r <- DS_1[calc Me_9 := cast({a}, date, "YYYY")];', 'DS_r <- DS_1[calc Me_9 := cast({a}, time_period)];', 'DS_r <- cast(DS_1, string);',
    'DS_r <- DS_1[calc Me_9 := period_indicator({a})];', 'DS_r <- period_indicator(DS_1);', 'DS_r <- timeshift(DS_1, 1);',
    'DS_r <- flow_to_stock(DS_1);', 'DS_r <- stock_to_flow(DS_1);', 'DS_r <- fill_time_series(DS_1, all);', 'DS_r <- time_agg("A", DS_1);',
    'DS_r <- DS_1[calc Me_9 := time_agg("A", {a})];', 'DS_r <- DS_1[calc Me_9 := time_agg("X", {a})];', 'DS_r <- DS_1[calc Me_9 := dateadd({a}, {b}, "M")];',
    'DS_r <- DS_1[calc Me_9 := dateadd({a}, 1, 5)];', 'DS_r <- DS_1[calc Me_9 := datediff({a}, {b})];', 'DS_r <- DS_1[calc Me_9 := getyear({a})];',
    'DS_r <- DS_1[calc Me_9 := daytoyear({a})];', 'DS_r <- DS_1[calc Me_9 := yeartoday({a})];', 'DS_r <- DS_1[calc Me_9 := current_date() + {a}];',
    'DS_r <- check(DS_1 > DS_2);', 'DS_r <- check(DS_1#{a} > 1 errorcode {a});', 'DS_r <- check_datapoint(DS_1, dpr_unknown);',
    'DS_r <- check_hierarchy(DS_1, hr_unknown rule Id_1);', 'DS_r <- hierarchy(DS_1, hr_unknown rule Id_1);',
    'define datapoint ruleset dpr (variable {a}) is r1: {a} > {b} errorcode "e" end datapoint ruleset; DS_r <- check_datapoint(DS_1, dpr);',
    'define datapoint ruleset dpr (variable Me_77) is r1: Me_77 > 0 end datapoint ruleset; DS_r <- check_datapoint(DS_1, dpr);',
    'define hierarchical ruleset hr (variable rule Id_1) is r1: A = B + C end hierarchical ruleset; DS_r <- check_hierarchy(DS_1, hr rule {a});',
    'define operator f (x dataset) returns dataset is x + 1 end operator; DS_r <- f(DS_1, DS_2);',
    'define operator f (x integer) returns integer is x + 1 end operator; DS_r <- f({a});',
    'define operator f (x component) returns component is x + 1 end operator; DS_r <- DS_1[calc Me_9 := f({a}, {b})];',
    'DS_r <- f_unknown(DS_1);', 'DS_r <- DS_9;', 'DS_r <- DS_1#Me_77;', 'DS_1 <- DS_1;', 'DS_r <- DS_1; DS_r <- DS_2;',
    'DS_r <- DS_1 = DS_2;', 'DS_r <- DS_1 > "a";', 'DS_r <- DS_1 in {{1, "a"}};', 'DS_r <- DS_1[calc Me_9 := {a} = {b}];',
    'DS_r <- eval(sq(DS_1) language "SQL" returns dataset {{ identifier<integer> Id_1, measure<number> Me_1 }});',
    'DS_r <- DS_1[calc Me_9 := string_distance(hamming, {a}, {b})];', 'DS_r <- string_distance(levenshtein, DS_1, DS_2);',
    'DS_r <- DS_1[calc Me_9 := case when {a} then 1 else 2];', 'DS_r <- DS_1[calc Me_9 := case when {a} > 1 then {a} when {b} then {b} else 0];',
    'sc_r <- 1 + "a";', 'sc_r <- cast("x", integer) + true;', 'sc_r <- if 1 then 2 else 3;', 'sc_r <- substr("abc", 0);', 'sc_r <- dateadd(1, 1, "M");',
]


def gen_semantic_cases(rng, n):
    import eng
    out = []
    for _ in range(n):
        t = rng.choice(TEMPLATES)
        ta, tb = rng.choice(TYPES), rng.choice(TYPES)
        idt = rng.choice(['Integer', 'String', 'Date', 'Time_Period'])
        c1 = [eng.comp('Id_1', idt, 'Identifier'), eng.comp('Me_1', ta, 'Measure'), eng.comp('Me_2', tb, 'Measure')]
        if rng.random() < 0.3:
            c1.append(eng.comp('At_1', rng.choice(TYPES), 'Attribute'))
        second = rng.choice(['same', 'other_measure', 'other_id', 'types'])
        if second == 'same':
            c2 = [dict(c) for c in c1]
        elif second == 'other_measure':
            c2 = [eng.comp('Id_1', idt, 'Identifier'), eng.comp('Me_3', ta, 'Measure')]
        elif second == 'other_id':
            c2 = [eng.comp('Id_2', idt, 'Identifier'), eng.comp('Me_1', ta, 'Measure'), eng.comp('Me_2', tb, 'Measure')]
        else:
            c2 = [eng.comp('Id_1', rng.choice(TYPES[:3]), 'Identifier'), eng.comp('Me_1', rng.choice(TYPES), 'Measure'), eng.comp('Me_2', rng.choice(TYPES), 'Measure')]
        a, b = rng.choice([('Me_1', 'Me_2'), ('Me_2', 'Me_1'), ('Me_1', 'Me_1'), ('Id_1', 'Me_1'), ('Me_1', 'Id_1')])
        script = t.format(a=a, b=b)
        st = eng.structures(eng.structure('DS_1', c1), eng.structure('DS_2', c2))
        out.append((script, st, (t, ta, tb, idt, second, a, b)))
    return out


def corpus_cases(repo, rng, n):
    """(script text, [structure json paths]) from tests/**/data/vtl/*.vtl with their input structures."""
    vtls = sorted(glob.glob(os.path.join(repo, 'tests', '**', 'data', 'vtl', '*.vtl'), recursive=True))
    rng.shuffle(vtls)
    out = []
    for v in vtls:
        if len(out) >= n:
            break
        code = os.path.basename(v)[:-4]
        d = os.path.dirname(os.path.dirname(v))
        js = sorted(glob.glob(os.path.join(d, 'DataStructure', 'input', glob.escape(code) + '-*.json')))
        if not js or os.path.getsize(v) > 6000:
            continue
        out.append((v, js))
    return out


def _with_alarm(seconds, fn, *a, **kw):
    import signal

    class TO(Exception):
        pass

    def h(sig, frm):
        raise TO()
    old = signal.signal(signal.SIGALRM, h)
    signal.alarm(seconds)
    try:
        return fn(*a, **kw)
    except TO:
        return ('timeout',)
    finally:
        signal.alarm(0); signal.signal(signal.SIGALRM, old)


# ----------------------------------------------------------------------------------------------------------
def main(ck):
    if ck.replay_path:
        return replay(ck)
    # 1. translators
    shape_err = None
    try:
        gen = ec.generate(ck)
    except vlib.ShapeError as e:
        shape_err = str(e)
        gen = None
    ck.trusted('translators harness/translate/catalogue.py (Python ast scan; digests in evidence)',
               'Python str.format semantics for plain {name} fields (validated on every catalogue message by the driver correspondence)')
    import eng
    import vtlengine.Exceptions as X
    from vtlengine.Exceptions.messages import centralised_messages as live
    classes_live = {n: getattr(X, n) for n in ('SemanticError', 'RunTimeError', 'DataLoadError', 'InputValidationException')}

    if gen is None:
        # the source has a shape the translator does not know: search with the dynamic monitor only
        found = dynamic_monitor(ck, eng, live, None)
        if not found:
            ck.unproved('translator', 'source shape unknown to the translator: ' + shape_err)
        return
    d = gen['cat']
    cat, catd, sites = d['cat'], d['catd'], d['sites']
    ck.note('catalogue_codes', len(cat)); ck.note('raise_sites', len(sites)); ck.note('uncoded_sites', len(d['uncoded']))
    ck.note('dynamic_sites', [catmod.site_key(s) for s in sites if not s['literal']])
    ck.note('claimed_bad', [catmod.site_key(sites[i]) for i in d['bad']])

    T(ck, 'translated')
    # 2. proof
    pr = ck.proof(PID)
    T(ck, 'proved')

    # 3a. generated tables == live objects (translator validation against the importable module)
    live_codes = list(live.keys())
    if live_codes != [m['code'] for m in cat]:
        ck.unproved('catalogue_table_matches_live_module', 'codes read from messages.py differ from the imported centralised_messages',
                    {'only_source': sorted(set(m['code'] for m in cat) - set(live_codes)), 'only_live': sorted(set(live_codes) - set(catd))})
    for m in cat:
        if live.get(m['code'], {}).get('message') != m['message']:
            ck.unproved('catalogue_table_matches_live_module', 'message text of %s differs between source scan and live module' % m['code'])
        ck.count(('cat', m['code']))
    for n, info in d['classes'].items():
        import inspect
        ps = [p for p in inspect.signature(classes_live[n].__init__).parameters][1:]
        if [p for p in ps if p != 'kwargs'] != info['params']:
            ck.unproved('constructor_signatures_match_live', '%s: scanned %s live %s' % (n, info['params'], ps))

    # 3b. replay of EVERY raise site on the real constructors; compare with the model's verdict
    disagreements = []
    for idx, s in enumerate(sites):
        probs = {c: (k, det) for c, k, det in catmod.site_problems(s, catd)}
        if not s['resolved']:
            ck.unproved('dynamic_code_resolved', 'cannot resolve the code expression at %s:%d: %s' % (s['file'], s['line'], s['text']))
            continue
        for c in s['codes']:
            res = replay_site(classes_live, s, c)
            ck.count(('site', s['file'], s['func'], c, tuple(s['kwargs'])))
            model_ok = c not in probs
            real_ok = res[0] == 'ok'
            if s['star']:
                continue
            if model_ok != real_ok:
                disagreements.append((catmod.site_key(s, c), model_ok, res))
            if not real_ok:
                kind = probs.get(c, ('construct-fails', ''))[0]
                ck.violation(key_of(s, c, kind),
                             {'how': 'construct the exception exactly as the raise site does', 'file': s['file'], 'function': s['func'],
                              'line': s['line'], 'call': s['text'], 'class': s['cls'], 'code': c, 'kwargs': s['kwargs'],
                              'result': list(res), 'python': "from vtlengine.Exceptions import %s; %s(%s%r%s)" % (
                                  s['cls'], s['cls'], 'code=' if s['cls'] == 'InputValidationException' and s['in_slot'] else '', c,
                                  ''.join(', %s="x"' % k for k in s['kwargs']))},
                             '%s:%s raises %s(%s) %s -> %s' % (s['file'], s['func'], s['cls'], c, kind, res[1][:80]))
            elif len(ck.cov['samples']) < 3:
                ck.sample({'site': catmod.site_key(s, c), 'kwargs': s['kwargs'], 'rendered': res[1][:100]})
    for k, mo, res in disagreements:
        ck.unproved('model_vs_constructor:' + k, 'model says %s, real constructor says %s' % (mo, res))

    T(ck, 'sites_replayed')
    # 3c. render model vs str.format on the live catalogue (Lean driver)
    I = d['intern']
    reqs, exp = [], []
    for m in cat:
        phs = sorted({n for k, n in m['pieces'] if k == 'ph'})
        subsets = [phs]
        if phs:
            subsets.append(phs[:-1])
            subsets.append([p for p in phs if ck.rng.random() < 0.5])
            subsets.append(phs + ['zz_extra'])
        for sub in subsets:
            ids = [I.ids.get(p) for p in sub]
            if any(i is None for i in ids):
                ids = [i for i in ids if i is not None]   # a name the table never saw: behaves like an absent key
                sub = [p for p in sub if p in I.ids]
            reqs.append('render %d %s' % (I.ids[m['code']], ' '.join(str(i) for i in ids)))
            kw = {p: 'V%d' % I.ids[p] for p in sub}
            try:
                exp.append('ok ' + ' '.join(str(ord(ch)) for ch in live[m['code']]['message'].format(**kw)))
            except KeyError as e:
                exp.append('err missing %d' % I.ids[e.args[0]])
            except Exception as e:  # noqa: BLE001
                exp.append('python-error %s' % type(e).__name__)
    reqs.append('render 999999'); exp.append('err unknown 999999')
    reqs.append('status'); exp.append(None)
    try:
        ans = ck.driver('Errors', reqs)
        for r, a, e in zip(reqs, ans, exp):
            if e is None:
                ck.note('driver_status', a); continue
            ck.count(('render', r))
            if a.strip() != e.strip():
                ck.unproved('render_model_vs_str_format', 'Lean render and Python str.format disagree on %r' % r, {'lean': a[:300], 'python': e[:300]})
                break
        ck.cov['traces_validated_against_impl'] += len(reqs) - 1
    except vlib.DriverError as e:
        ck.unproved('driver', str(e)[:500])

    T(ck, 'driver_done')
    # 4. dynamic monitor: every coded exception actually constructed
    dynamic_monitor(ck, eng, live, d)
    T(ck, 'monitor_done')

    # 5. proof verdict
    if not pr['ok']:
        # a theorem broke: the replay loop above is the failing-input search over every site; if it reported nothing
        # new, the obligation is reported as unproved
        for t in (pr['failed'] or ['build']):
            ck.unproved(t, 'lake build / audit failed: ' + (pr['log'][-600:] if not pr['build_ok'] else '; '.join(pr['forbidden'] + pr['bad_axioms'])))
    ck.assumptions += [
        'argument values are rendered by format(v, "") without raising (values at raise sites are str/int/type names; the monitor re-renders every exception actually raised)',
        'exception classes are referenced by their own names (no aliasing); the translator raises ShapeError on aliases/subclasses outside Exceptions/',
        '`**kwargs` sites (none today) are only checked for a catalogued code',
    ]


def dynamic_monitor(ck, eng, live, d):
    """Run failing scripts with the constructors wrapped; every construction is re-checked.  -> True if a
    violation was reported."""
    from vtlengine import semantic_analysis, run
    before = len(ck.viol)
    pkg = os.path.join(vlib.REPO, 'src', 'vtlengine') + os.sep
    mon = Monitor(eng, pkg)
    mon.install(['SemanticError', 'RunTimeError', 'DataLoadError', 'InputValidationException'])
    n_gen = 250 if ck.quick() else 1200
    n_corpus = 120 if ck.quick() else 600
    hist = {}
    try:
        targeted = [('DS_r <- inner_join(DS_1 as Me_1);', eng.structures(eng.structure('DS_1', [eng.comp('Id_1', 'Integer', 'Identifier'), eng.comp('Me_1', 'Number', 'Measure')])), 'targeted')]
        for script, st, meta in targeted + gen_semantic_cases(ck.rng, n_gen):
            i0 = len(mon.records)
            o = _with_alarm(20, eng.outcome, semantic_analysis, script, st)
            hist[o[0]] = hist.get(o[0], 0) + 1
            check_records(ck, mon.records[i0:], live, {'script': script, 'data_structures': st, 'entry': 'semantic_analysis'}, o)
        for v, js in corpus_cases(vlib.REPO, ck.rng, n_corpus):
            i0 = len(mon.records)
            script = open(v, encoding='utf-8').read()
            o = _with_alarm(20, eng.outcome, semantic_analysis, script, [__import__('pathlib').Path(j) for j in js])
            hist['corpus_' + o[0]] = hist.get('corpus_' + o[0], 0) + 1
            check_records(ck, mon.records[i0:], live, {'script_file': os.path.relpath(v, vlib.REPO), 'data_structures': [os.path.relpath(j, vlib.REPO) for j in js],
                                                         'entry': 'semantic_analysis'}, o)
    finally:
        mon.uninstall()
    ck.note('monitor_outcomes', hist)
    ck.note('monitor_constructions', len(mon.records))
    codes = {}
    for r in mon.records:
        codes[r.get('code') or 'FAILED'] = codes.get(r.get('code') or 'FAILED', 0) + 1
    ck.note('monitor_distinct_codes', len(codes))
    return len(ck.viol) > before


def check_records(ck, recs, live, case, outcome):
    for r in recs:
        ck.count(('mon', r['cls'], r.get('code'), r['file'], r['func'], tuple(r['kw'])))
        site = {'file': r['file'], 'func': r['func']}
        if r['fail'] is not None:
            code = r['args'][0].strip("'\"") if r['args'] else (str(r['kw']))
            kind = 'uncatalogued' if code not in live else 'unfilled'
            ck.violation(key_of(site, code, kind), dict(case, construction=r, escaping=list(outcome[:4]) if outcome[0] != 'ok' else 'ok'),
                         'constructing %s(%s) at %s:%s failed: %s' % (r['cls'], code, r['file'], r['func'], r['fail']))
        elif r.get('code') is not None and r['code'] not in live:
            ck.violation(key_of(site, r['code'], 'uncatalogued'), dict(case, construction=r), 'raised code %s is not catalogued' % r['code'])
        elif r.get('code') is not None and ('{' in r['msg'] and '}' in r['msg'] and any(('{%s}' % p) in r['msg'] for p in _phs(live[r['code']]['message']))):
            ck.violation(key_of(site, r['code'], 'unrendered'), dict(case, construction=r), 'message of %s still contains a placeholder' % r['code'])


def _phs(msg):
    import string
    return [f for _, f, _, _ in string.Formatter().parse(msg) if f]


def replay(ck):
    rp = json.load(open(ck.replay_path))
    r = rp.get('replay', {})
    import eng  # noqa: F401
    import vtlengine.Exceptions as X
    if 'python' in r:
        cls = getattr(X, r['class'])
        kw = {k: 'x' for k in r['kwargs']}
        try:
            e = cls(code=r['code'], **kw) if r['class'] == 'InputValidationException' else cls(r['code'], **kw)
            print('constructed:', e.args)
            if len(e.args) < 2:
                print('REPRODUCED: the exception carries no code'); sys.exit(1)
            print('not reproduced'); sys.exit(0)
        except Exception as ex:  # noqa: BLE001
            print('REPRODUCED: %s: %s' % (type(ex).__name__, ex)); sys.exit(1)
    if 'script' in r:
        from vtlengine import semantic_analysis
        o = eng.outcome(semantic_analysis, r['script'], r['data_structures'])
        print(o[:4]); sys.exit(1 if o[0] == 'raw' else 0)
    print('nothing to replay in', ck.replay_path); sys.exit(2)


if __name__ == "__main__":
    vlib.run_check(PID, main)

"""C15 — results are deterministic and independent of engine configuration.
Lean: Props/C15.lean (config_independent = corollary of C33.evalD_perm; implUnion_eq_spec for the
first-occurrence union under BranchOrderPreserved, with a proved counter-example otherwise).
Tie: configuration matrix on the real engine, results compared as sets."""
import os
import sys
from fractions import Fraction
sys.path.insert(0, os.path.join(os.path.dirname(os.path.abspath(__file__)), '..'))
import vlib
from sem import gen as G
from sem import variants as V


def big_case(rng, n):
    """inputs large enough for DuckDB to split the scan across threads; order-sensitive constructs on top."""
    ids = [('Id_1', 'Integer')]
    meas = [('Me_1', 'Number')]
    def rows(lo, hi, f):
        r = [(i, Fraction(f(i))) for i in range(lo, hi)]
        rng.shuffle(r)
        return r
    env = {'DS_1': {'ids': ids, 'meas': meas, 'rows': rows(0, n, lambda i: i % 97)},
           'DS_2': {'ids': ids, 'meas': meas, 'rows': rows(n // 2, n + n // 2, lambda i: -(i % 89))},
           'DS_3': {'ids': ids, 'meas': meas, 'rows': rows(n // 4, n, lambda i: 1000 + i % 7)}}
    script = rng.choice([
        'DS_r <- union(DS_1, DS_2, DS_3);',
        'DS_r <- union(DS_2, DS_1);',
        'DS_r <- symdiff(DS_1, DS_2);',
        'DS_r <- intersect(DS_1, DS_2, DS_3);',
        'DS_r <- DS_1 + DS_2 * DS_3;',
        'DS_r <- union(DS_1[filter Me_1 > 10], DS_2)[calc Me_2 := Me_1 * 2];',
        'T_1 := union(DS_3, DS_1); DS_r <- setdiff(T_1, DS_2);',
    ])
    return {'env': env, 'vtl': script, 'ops': ['big'], 'ids': ids, 'meas': meas}


def main(ck):
    pr = ck.proof('C15', extra_modules=('VtlModel.Props.C33', 'VtlModel.Props.C10'))
    q = ck.quick()
    threads = ['1', '4'] if q else ['1', '2', '4', '16']
    configs = [{'VTL_THREADS': t, 'VTL_USE_IN_MEMORY_DB': m, 'VTL_MEMORY_LIMIT': lim}
               for t in threads for m in ('1', '0') for lim in ((None,) if q else (None, '64MB'))]
    g = G.Gen(ck.rng, max_rows=8)
    cases = [g.case() for _ in range(30 if q else 400)]
    cases += [big_case(ck.rng, n) for n in ([20000, 60000] if q else [20000, 100000, 300000, 300000, 1000000])]
    jobs = []
    for c in cases:
        for cfg in configs:
            jobs.append((c, {'environ': cfg}))
        jobs.append((c, {'environ': configs[0]}))     # repeated run, same configuration
    outs = V.run_variants(jobs, budget=600, procs=4 if not q else 6)
    per = len(configs) + 1
    hist = {}
    for k, c in enumerate(cases):
        rs = outs[k * per:(k + 1) * per]
        if any(r[0] == 'timeout' for r in rs):
            hist['timeout'] = hist.get('timeout', 0) + 1
            ck.count(None, nontrivial=False)
            continue
        base = rs[0]
        hist[base[0]] = hist.get(base[0], 0) + 1
        nontrivial = base[0] == 'ok' and any((x[0] == 'ds' and x[2]) for x in base[1].values())
        ck.count((c['vtl'], len(str(c['env']))), nontrivial=nontrivial, n=per)
        if nontrivial:
            ck.sample({'script': c['vtl'], 'rows': {n: len(d['rows']) for n, d in c['env'].items()}, 'configs': len(configs)})
        if base[0] == 'raw':
            continue
        for r, cfg in zip(rs[1:], configs[1:] + [configs[0]]):
            ok, why = V.same_result(base, r)
            if not ok:
                ck.violation('configuration-changes-result:' + (c.get('ops') or ['?'])[-1],
                             {'script': c['vtl'], 'rows': {n: len(d['rows']) for n, d in c['env'].items()}, 'config_a': configs[0], 'config_b': cfg, 'why': why,
                              'structures': G.structures(c['env'])},
                             'same script and data, different result under %s vs %s: %s' % (configs[0], cfg, why))
                break
    ck.note('outcomes', hist)
    ck.note('configurations', configs)
    ck.cov['rule'] = ('case = (script, data) run under every configuration of the matrix plus one repeated run; results compared as sets; '
                      'non-trivial = non-empty result; big cases have 2e4..1e6 rows so that DuckDB parallelises the scan')
    if not pr['ok'] and not ck.viol:
        ck.unproved('Props.C15:' + ','.join(pr['failed'] or pr['forbidden'] or pr['bad_axioms']), 'Lean build/audit failed: ' + pr['log'][-400:])
    ck.trusted('Lean kernel', 'configuration-matrix harness (harness/sem/variants.py)',
               'NOT modelled (runtime): DuckDB\'s scheduler, spilling and UNION ALL branch order — the model covers them as "any permutation" and '
               'states BranchOrderPreserved as an explicit hypothesis of implUnion_eq_spec; the matrix only samples them')
    ck.assumptions += ['VTL_THREADS / VTL_USE_IN_MEMORY_DB / VTL_MEMORY_LIMIT are read from os.environ on every run()']


vlib.run_check('C15', main)

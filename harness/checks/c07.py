"""C07 — validation and hierarchy operators report exactly the failing datapoints.
Lean: Props/C07.lean over VtlModel.Sem.Valid / VtlModel.Sem.Hier; tie: correspondence model <-> real run(), model
validated against the Reference-Manual examples (independent oracle); HRDAGAnalyzer.sort_hr_rules checked with the
model's executable `isValidOrder`."""
import collections
import csv
import json
import multiprocessing as mp
import os
import sys
from fractions import Fraction

sys.path.insert(0, os.path.join(os.path.dirname(os.path.abspath(__file__)), '..'))
import vlib
from sem import gen as G
from sem import gen_valid as GV
from sem import runner as R
from sem import check_common as CC

KNOWN_ALT = {
    'inner-join': 'check:imbalance-operand-lacks-a-datapoint:row-dropped-by-inner-join',
    'dataset-as-rule': 'hierarchy:input-mode-dataset:right-side-items-read-computed-values-like-rule',
    'engine-order-names': 'hierarchical-ruleset:unnamed-rules:ruleid-is-position-after-dependency-sort',
    'engine-order': 'hierarchy:sort_hr_rules:order-violates-dependencies:result-follows-the-invalid-order',
}
KEY_BAD_ORDER = 'sort_hr_rules:order-not-dependency-respecting:item-defined-by-an-equality-and-a-comparison-rule'
KEY_CYCLE = 'check_hierarchy:reference-manual-example-ruleset-rejected-as-cyclic:1-3-2-3'
KEY_DSPRIO = 'check_hierarchy:input-mode-dataset_priority:raw-NotImplementedError'
KEY_SIGN = 'hierarchical-rule:right-side-starts-with-a-sign:AttributeError-HRUnOp-has-no-attribute-value'
KEY_ALIAS = 'check_datapoint:signature-alias:not-resolved-inside-parentheses:BinderException'
KEY_BOOLNAME = 'check:boolean-operand-measure-not-named-bool_var:structure-keeps-the-operand-name'
KEY_ELTEXT = 'ruleset:errorlevel-missing-on-some-rules:numeric-errorlevel-returned-as-text'


def normalise_errorlevel(e):
    """a numeric errorlevel that comes back as text ('5.0') is compared as the number it spells; -> (engine outcome, flagged)."""
    if e[0] != 'ok' or 'DS_r' not in e[1] or e[1]['DS_r'][0] != 'ds':
        return e, False
    kind, comps, rows = e[1]['DS_r']
    names = [c[0] for c in comps]
    if 'errorlevel' not in names:
        return e, False
    j = names.index('errorlevel')
    if comps[j][2] not in ('Number', 'Integer'):
        return e, False
    flagged, out = False, []
    for r in rows:
        v = r[j]
        if isinstance(v, str):
            try:
                v = float(v)
                flagged = True
            except ValueError:
                pass
        out.append(r[:j] + (v,) + r[j + 1:])
    res = dict(e[1])
    res['DS_r'] = (kind, comps, out)
    return ('ok', res), flagged


# ---------------------------------------------------------------------------------------------- engine side
def _flat(node, neg, out):
    cls = type(node).__name__
    if cls == 'DefIdentifier':
        out.append((neg, node.value))
    elif cls == 'HRBinOp':
        _flat(node.left, neg, out)
        _flat(node.right, neg != (node.op == '-'), out)
    elif cls == 'HRUnOp':
        _flat(node.operand, neg != (node.op == '-'), out)
    else:
        raise ValueError('unknown node in a hierarchical rule: ' + cls)


def _rule_sig(rule):
    n = rule.rule
    if type(n).__name__ == 'HRBinOp' and n.op == 'when':
        n = n.right
    items = []
    _flat(n.right, False, items)
    return (n.left.value, n.op, tuple(items))


def engine_rule_order(script):
    """the order in which the real DAG code leaves the rules of the (single) hierarchical ruleset."""
    from vtlengine.API import create_ast
    from vtlengine.AST.DAG import HRDAGAnalyzer
    ast = create_ast(script)
    for ch in ast.children:
        if type(ch).__name__ == 'HRuleset':
            HRDAGAnalyzer.sort_hr_rules(ch)
            return [_rule_sig(x) for x in ch.rules]
    return None


def _work(args):
    case, budget = args
    order = None
    if case['kind'] in ('ch', 'hier'):
        try:
            order = engine_rule_order(case['vtl'])
        except BaseException as e:  # noqa: BLE001
            if isinstance(e, (KeyboardInterrupt, SystemExit)):
                raise
            order = ('error', type(e).__name__ + ': ' + str(e)[:200])
    out = R._run_one((case, budget, {}))
    return out, order


def run_engine(cases, budget=90):
    jobs = min(12, max(1, (os.cpu_count() or 2) - 2))
    with mp.Pool(jobs, initializer=R._init) as pool:
        return pool.map(_work, [(c, budget) for c in cases], chunksize=2)


OPSYM = {'=': 'eq', '<': 'lt', '<=': 'le', '>': 'gt', '>=': 'ge'}


def reorder(case, order):
    """the generated rules in the engine's order (identified by left item, operator, signed right side)."""
    by = {(x['left'], x['cmp'][1], tuple(x['right'])): x for x in case['rules']}
    out = []
    for left, op, items in order:
        k = (left, OPSYM.get(op, op), tuple(items))
        if k not in by:
            return None
        out.append(by[k])
    return out if len(out) == len(case['rules']) else None


# ---------------------------------------------------------------------------------------------- Reference Manual
def rm_dir():
    return os.path.join(vlib.REPO, 'tests', 'ReferenceManual', 'data')


def _conv(t, s):
    if s == '' or s is None:
        return None
    if t == 'Integer':
        return int(float(s))
    if t == 'Number':
        return Fraction(s)
    if t == 'Boolean':
        return s.strip().lower() == 'true'
    return s


def rm_load(n, where, name):
    st = json.load(open(os.path.join(rm_dir(), 'DataStructure', where, '%d-%s.json' % (n, name))))['datasets'][0]['DataStructure']
    comps = [(c['name'], c['type'], c['role']) for c in st]
    rows = []
    with open(os.path.join(rm_dir(), 'DataSet', where, '%d-%s.csv' % (n, name)), newline='') as f:
        rd = csv.DictReader(f)
        for rec in rd:
            rows.append(tuple(_conv(t, rec.get(nm)) for nm, t, _ in comps))
    ids = [(nm, t) for nm, t, role in comps if role == 'Identifier']
    meas = [(nm, t) for nm, t, role in comps if role == 'Measure']        # attributes are not modelled (the HR operators strip them)
    order = [nm for nm, _ in ids + meas]
    pos = {nm: i for i, (nm, _, _) in enumerate(comps)}
    rows = [tuple(r[pos[nm]] for nm in order) for r in rows]
    return {'ids': ids, 'meas': meas, 'rows': rows}


def hr(name, left, op, right, ec=None, el=None):
    return {'name': name, 'pos': 0, 'left': left, 'cmp': (op, OPSYM[op]), 'right': [(False, x) for x in right], 'cond': None, 'ec': ec, 'el': el}


RM_HR = [hr(None, 'A', '=', 'JKL'), hr(None, 'B', '=', 'MNO'), hr(None, 'C', '=', 'PQ'), hr(None, 'D', '=', 'RS'), hr(None, 'E', '=', 'TUV'),
         hr(None, 'F', '=', 'YWZ'), hr(None, 'G', '=', 'BC'), hr(None, 'H', '=', 'DE'), hr(None, 'I', '=', 'DG')]
RM159 = [hr('R010', 'A', '=', 'JKL', None, 5), hr('R020', 'B', '=', 'MNO', None, 5), hr('R030', 'C', '=', 'PQ', 'XX', 5),
         hr('R040', 'D', '=', 'RS', None, 1), hr('R050', 'E', '=', 'TUV', None, 0), hr('R060', 'F', '=', 'YWZ', None, 7),
         hr('R070', 'G', '=', 'BC'), hr('R080', 'H', '=', 'DE', None, 0), hr('R090', 'I', '=', 'DG', 'YY', 0),
         hr('R100', 'M', '>=', 'N', None, 5), hr('R110', 'M', '<=', 'G', None, 5)]
for _i, _r in enumerate(RM_HR):
    _r['pos'] = _i + 1
RM_DP = ('(rule "1" (bin eq (col "Id_3") (const (s "CREDIT"))) (bin ge (col "Me_1") (const (i 0))) (s "Bad credit") n) '
         '(rule "2" (bin eq (col "Id_3") (const (s "DEBIT"))) (bin ge (col "Me_1") (const (i 0))) (s "Bad debit") n)')


def rm_cases():
    rs = ' '.join(GV.VGen.hr_rule_sx(x) for x in RM_HR)
    out = [
        (132, ['DS_1'], '(hier non_null rule 0 "Id_2" (%s) (ds DS_1))' % rs),
        (133, ['DS_1'], '(hier non_zero rule 0 "Id_2" (%s) (ds DS_1))' % rs),
        (134, ['DS_1'], '(hier partial_null rule 0 "Id_2" (%s) (ds DS_1))' % rs),
        (157, ['DS_1'], '(dp invalid (%s) (ds DS_1))' % RM_DP),
        (158, ['DS_1'], '(dp all (%s) (ds DS_1))' % RM_DP),
        (159, ['DS_1'], '(ch partial_null all "Id_2" (%s) (ds DS_1))' % ' '.join(GV.VGen.hr_rule_sx(x) for x in RM159)),
        (160, ['DS_1', 'DS_2'], '(check n n 0 0 (zip (ds DS_1) (ds DS_2) (bin ge hole hole2) "bool_var") (zip (ds DS_1) (ds DS_2) (bin sub hole hole2) _))'),
    ]
    cases = []
    for n, names, sx in out:
        env = {nm: rm_load(n, 'input', nm) for nm in names}
        ref = rm_load(n, 'output', 'DS_r')
        vtl = open(os.path.join(rm_dir(), 'vtl', 'RM%03d.vtl' % n)).read()
        cases.append({'kind': 'rm', 'rm': n, 'env': env, 'vtl': vtl.replace('DS_r :=', 'DS_r <-'), 'sx': sx, 'alt': {}, 'ops': ['RM%d' % n], 'flat': False,
                      'depth': 1, 'ref': ref, 'meta': {'op': 'RM%d' % n}, 'ids': ref['ids'], 'meas': ref['meas']})
    return cases


def ref_as_engine(ref):
    comps = [(n, 'Identifier', t, False) for n, t in ref['ids']] + [(n, 'Measure', t, True) for n, t in ref['meas']]
    rows = [tuple(float(v) if isinstance(v, Fraction) else v for v in r) for r in ref['rows']]
    return ('ok', {'DS_r': ('ds', comps, rows)})


# ---------------------------------------------------------------------------------------------- main
def replay_of(c, v, d, e, a, extra=None):
    rp = {'script': c['vtl'], 'structures': G.structures(c['env']),
          'data': {k: [[str(x) if x is not None else None for x in r] for r in x['rows']] for k, x in c['env'].items()},
          'model_request': GV.request(c), 'model_answer': a, 'engine': [str(x)[:800] for x in e], 'verdict': v, 'detail': str(d)[:800],
          'meta': c.get('meta')}
    if extra:
        rp.update(extra)
    return rp


def generic_key(c, v, d, e):
    m = c['meta']
    base = '%s:%s:%s' % (m['op'], m.get('mode', '-'), m.get('output', '-'))
    msg = str(e[-1]) if len(e) > 2 else ''
    if e[0] == 'raw' and "'HRUnOp' object has no attribute 'value'" in msg and m.get('leading_sign'):
        return KEY_SIGN
    if e[0] == 'raw' and 'BinderException' in e[1] and m.get('aliases') and 'Referenced column "X' in msg:
        return KEY_ALIAS
    if v == 'DISAGREE:columns-vs-components' and m['op'] == 'check' and m.get('bool_measure', 'bool_var') != 'bool_var':
        return KEY_BOOLNAME
    if v in ('DISAGREE:engine-error', 'DISAGREE:model-divzero') and e[0] == 'raw':
        return '%s:%s:%s' % (base, e[1].split('.')[-1], CC.msg_head(e))
    if v == 'DISAGREE:engine-error' and e[0] == 'vtl':
        return '%s:%s:%s' % (base, e[1], e[2])
    if v == 'DISAGREE:value' and isinstance(d, dict):
        return '%s:wrong-value:%s' % (base, d.get('measure'))
    if v == 'DISAGREE:keys':
        return '%s:wrong-datapoints' % base
    return '%s:%s' % (base, v.split(':', 1)[1])


def replay(ck):
    """`./check C07 --replay replays/<file>.json`: re-run the stored script and data on the real engine and on the
    model; a (still) disagreeing case is reported under its stored key."""
    rp = json.load(open(ck.replay_path))
    r = rp.get('replay', rp) or {}
    if 'script' not in r or 'structures' not in r:
        print('replay: %s names a broken obligation or a bare probe, not a (script, data) case' % ck.replay_path)
        if 'script' in r:
            print('script :', r['script'])
        return
    env = {}
    for d in r['structures']['datasets']:
        ids = [(c['name'], c['type']) for c in d['DataStructure'] if c['role'] == 'Identifier']
        meas = [(c['name'], c['type']) for c in d['DataStructure'] if c['role'] != 'Identifier']
        rows = []
        for row in r['data'].get(d['name'], []):
            vals = []
            for (n, t), v in zip(ids + meas, row):
                if v is None:
                    vals.append(None)
                elif t == 'Integer':
                    vals.append(int(v))
                elif t == 'Number':
                    vals.append(Fraction(v))
                elif t == 'Boolean':
                    vals.append(v == 'True')
                else:
                    vals.append(v)
            rows.append(tuple(vals))
        env[d['name']] = {'ids': ids, 'meas': meas, 'rows': rows}
    case = {'kind': 'replay', 'env': env, 'vtl': r['script'], 'ops': [], 'flat': False, 'depth': 0, 'meta': r.get('meta') or {'op': 'replay'}}
    ans = ck.driver('Valid', [r['model_request']])[0]
    out = R.run_engine([case], jobs=1)[0]
    e, el_text = normalise_errorlevel(out)
    v, d = R.compare(case, ans, e)
    print('script :', r['script'])
    print('model  :', ans[:500])
    print('engine :', str(out)[:700])
    print('verdict:', v, str(d)[:300], '(numeric errorlevel returned as text)' if el_text else '')
    ck.count((r['script'], 'replay'), nontrivial=True)
    ck.sample({'replayed': ck.replay_path, 'verdict': v})
    ck.cov['rule'] = 'replay of one stored case'
    if v.startswith('DISAGREE') or el_text:
        ck.violation(rp.get('key') or 'replay:' + v, dict(r, verdict=v, detail=str(d)[:600]), '%s: %s' % (v, r['script'][-200:]))


def main(ck):
    if ck.replay_path:
        return replay(ck)
    pr = ck.proof('C07')
    q = ck.quick()
    g = GV.VGen(ck.rng)
    n = int(os.environ.get("VERIF_N", 0)) or (96 if q else 800)
    kinds = (os.environ.get('VERIF_KINDS') or 'check,check,dp,dp,ch,ch,hier,hier,hier').split(',')
    cases = [g.case(kinds[i % len(kinds)]) for i in range(n)]
    rmc = rm_cases()
    all_cases = rmc + cases
    # ---- model, first pass
    reqs, idx = [], []
    for i, c in enumerate(all_cases):
        idx.append((i, 'primary')); reqs.append(GV.request(c))
        for an, sx in c['alt'].items():
            idx.append((i, an)); reqs.append(GV.request(c, sx))
    ans = ck.driver('Valid', reqs)
    model = collections.defaultdict(dict)
    for (i, an), a in zip(idx, ans):
        model[i][an] = a
    # ---- engine
    outs = run_engine(all_cases)
    # ---- model, second pass: the engine's rule order
    reqs2, idx2 = [], []
    for i, (c, (e, order)) in enumerate(zip(all_cases, outs)):
        if c['kind'] not in ('ch', 'hier') or not isinstance(order, list):
            continue
        ro = reorder(c, order)
        if ro is None:
            continue
        idx2.append((i, 'validorder')); reqs2.append(GV.rules_request(ro))
        if c['kind'] == 'ch' and not c['named']:
            body = ' '.join(GV.VGen.hr_rule_sx(x, name=str(k + 1)) for k, x in enumerate(ro))
            idx2.append((i, 'engine-order-names'))
            reqs2.append(GV.request(c, '(ch %s %s "Id_2" (%s) (ds DS_1))' % (c['mode_sx'], c['meta']['output'], body)))
        if c['kind'] == 'hier':
            body = ' '.join(GV.VGen.hr_rule_sx(x) for x in ro)
            im = c['meta']['input']
            idx2.append((i, 'engine-order'))
            reqs2.append(GV.request(c, '(hier %s %s %d "Id_2" (%s) (ds DS_1))' % (c['mode_sx'], 'rule' if im == 'dataset' else im,
                                                                                 1 if c['meta']['output'] == 'all' else 0, body)))
    if reqs2:
        for (i, an), a in zip(idx2, ck.driver('Valid', reqs2)):
            model[i][an] = a
    # ---- verdicts
    hist = collections.Counter()
    dist = collections.defaultdict(collections.Counter)
    groups = collections.defaultdict(list)
    rm_ok = 0
    for i, (c, (e, order)) in enumerate(zip(all_cases, outs)):
        a = model[i]['primary']
        if c['kind'] == 'rm':
            # (1) the model against the reference output of the manual (independent oracle)
            v, d = R.compare(c, a, ref_as_engine(c['ref']))
            hist['rm-model-vs-reference:' + v.split(':')[0]] += 1
            if v == 'agree':
                rm_ok += 1
                ck.count(('rm', c['rm']))
                ck.sample({'reference_manual_example': c['rm'], 'model_reproduces_reference_output_rows': d})
            else:
                ck.unproved('model-vs-reference-manual:RM%d' % c['rm'], 'the model does not reproduce the reference output: %s %s' % (v, str(d)[:300]))
            # (2) the engine on the same example
            v2, d2 = R.compare(c, a, e)
            if v2 != 'agree':
                if c['rm'] == 159 and e[0] == 'vtl' and e[2] == '1-3-2-3':
                    ck.violation(KEY_CYCLE, replay_of(c, v2, d2, e, a), 'RM159 (check_hierarchy, rules M >= N and M <= G next to B = M + N + O, G = B + C) is '
                                 'rejected: the rule sorter treats comparison rules as definitions and finds a cycle')
                else:
                    ck.violation('reference-manual:RM%d:%s' % (c['rm'], v2), replay_of(c, v2, d2, e, a), 'engine differs from model and reference on RM%d: %s' % (c['rm'], str(d2)[:200]))
            else:
                hist['rm-engine:agree'] += 1
            continue
        m = c['meta']
        e, el_text = normalise_errorlevel(e)
        if el_text:
            hist['errorlevel-returned-as-text'] += 1
            ck.violation(KEY_ELTEXT, replay_of(c, 'errorlevel-as-text', '', e, a), 'the errorlevel column is declared Number but holds text when some rule of the '
                         'ruleset has no errorlevel: ' + c['vtl'][-200:])
        v, d = R.compare(c, a, e)
        # validity of the engine's rule order (independent of the comparison)
        vo = model[i].get('validorder')
        if vo is not None:
            hist['sort_hr_rules-order:' + ('valid' if vo == '(ok (b 1))' else 'INVALID')] += 1
            if vo != '(ok (b 1))':
                ck.violation(KEY_BAD_ORDER, replay_of(c, v, d, e, a, {'engine_rule_order': [str(x) for x in order]}),
                             'HRDAGAnalyzer.sort_hr_rules leaves the `=` rules in an order in which a rule reads an item that a later rule defines: %s'
                             % [x[0] for x in order])
        elif c['kind'] in ('ch', 'hier') and not (isinstance(order, tuple) and e[0] != 'ok'):
            hist['sort_hr_rules-order:unknown'] += 1
        hv = v if not v.startswith('skip:semantic-reject') else 'skip:semantic-reject'
        hist[hv] += 1
        for k in ('op', 'mode', 'output', 'input', 'nrules', 'when_rules', 'named', 'form'):
            if k in m:
                dist[k][str(m[k])] += 1
        if v == 'agree':
            nontrivial = isinstance(d, int) and d > 0
            ck.count((c['vtl'], G.env_sx(c['env'])), nontrivial=nontrivial)
            if nontrivial:
                dist['agree_nontrivial_by_op'][m['op']] += 1
                ck.sample({'script': c['vtl'][:400], 'model': a[:200]}, cap=6)
            continue
        ck.count(None, nontrivial=False)
        if v.startswith('skip'):
            if v.startswith('skip:semantic-reject'):
                dist['semantic_rejects'][str(e[2])] += 1
            continue
        key = None
        for an, k in KNOWN_ALT.items():
            if an in model[i]:
                v2, _ = R.compare(c, model[i][an], e)
                if v2 == 'agree':
                    key = k
                    break
        if key is None:
            key = generic_key(c, v, d, e)
        groups[key].append((len(c['vtl']) + sum(len(x['rows']) for x in c['env'].values()) * 20, c, v, d, e, a))
    # ---- second independent oracle: the upstream test corpus of hierarchical rulesets (model vs stored reference outputs)
    try:
        import eng  # noqa: F401  (the repository's own create_ast)
        from sem import valid_corpus as VC
        ccases, cskipped = VC.corpus_cases(vlib.REPO)
        cans = ck.driver('Valid', [GV.request(c) for c in ccases]) if ccases else []
        c_ok = 0
        for c, a in zip(ccases, cans):
            v, d = R.compare(c, a, ref_as_engine(c['ref']))
            hist['corpus-model-vs-reference:' + v.split(':')[0]] += 1
            if v == 'agree':
                c_ok += 1
                ck.count(('corpus', c['code']))
            else:
                ck.unproved('model-vs-upstream-corpus:' + c['code'], 'the model does not reproduce the stored reference output of %s: %s %s'
                            % (c['code'], v, str(d)[:300]))
        ck.note('upstream_corpus', {'cases': len(ccases), 'reproduced_by_model': c_ok, 'skipped': cskipped})
    except vlib.DriverError:
        raise
    except Exception as ex:  # noqa: BLE001
        ck.note('upstream_corpus', {'error': repr(ex)[:300]})
    ck.note('outcomes', dict(hist))
    ck.note('distribution', {k: dict(v) for k, v in dist.items()})
    ck.note('reference_manual_examples_reproduced_by_model', rm_ok)
    for key, lst in groups.items():
        lst.sort(key=lambda x: x[0])
        _, c, v, d, e, a = lst[0]
        ck.violation(key, replay_of(c, v, d, e, a, {'occurrences': len(lst)}),
                     '%s: %s | model %s | engine %s' % (v, c['vtl'][-160:], a[:100], str(e[1:3])[:140]))
    # ---- dataset_priority (accepted by the grammar, not implemented)
    try:
        import eng
        from vtlengine import run
        pc = g.case('ch')
        while ' all' in pc['vtl'][-20:] or ' invalid' in pc['vtl'][-20:] or ' dataset)' in pc['vtl'][-12:] or ' all_measures' in pc['vtl'][-20:]:
            pc = g.case('ch')
        script = pc['vtl'][:-2] + ' dataset_priority);'
        o = eng.outcome(run, script, G.structures(pc['env']), G.dataframes(pc['env']))
        hist['dataset_priority:' + o[0]] += 1
        if o[0] == 'raw' and 'NotImplementedError' in o[1]:
            ck.violation(KEY_DSPRIO, {'script': script, 'engine': [str(x)[:300] for x in o]}, 'check_hierarchy(... dataset_priority) raises a raw NotImplementedError')
        ck.note('outcomes', dict(hist))
    except Exception as ex:  # noqa: BLE001
        ck.note('dataset_priority_probe_error', repr(ex)[:200])
    compared = hist['agree']
    if compared < min(40 if q else 600, n // 3):
        ck.unproved('correspondence:C07', 'only %d of %d cases could be compared: %s' % (compared, len(cases), dict(hist)))
    if not pr['ok'] and not ck.viol:
        ck.unproved('Props.C07:' + ','.join(pr['failed'] or pr['forbidden'] or pr['bad_axioms']), 'Lean build/audit failed: ' + pr['log'][-400:])
    ck.note('rule', 'case = (script, input data); non-trivial = model and engine agree on a non-empty result; distinct by (script, data)')
    ck.trusted('correspondence harness (generator harness/sem/gen_valid.py, canonicaliser harness/sem/runner.py: rows as sets keyed by the '
               'identifiers incl. ruleid, numbers exact-or-1e-9 relative)', 'stand-in parser harness/vtlstub for the script text',
               'modelled not verified: DuckDB evaluation of the generated SQL')
    ck.assumptions += ['VTL semantics as restated in lean/VtlModel/Sem/Valid.lean and Hier.lean; adopted from the engine where the manual is not at '
                       'hand offline: `check ... invalid` keeps bool_var; non_zero of check_hierarchy drops a rule result when BOTH sides are 0; '
                       'a null `when` of a datapoint rule gives a null bool_var; hierarchical `when` FALSE makes the rule hold with null imbalance',
                       'right-side conditions of code items (`A [cond]`) and valuedomain signatures with positional `components` are not modelled']


vlib.run_check('C07', main)

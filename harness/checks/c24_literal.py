"""C24, Number literals: correspondence tie between the Lean model `VtlModel.Text.Literal` and the real
`vtlengine.AST.ASTString._handle_literal`, and the failing-input search for the literal part of
"prettify preserves meaning".

Not a standalone check.  `harness/checks/c24.py` calls `check_literals(ck, eng)`.

For every generated NUMBER_CONSTANT lexeme `I.F` (digits only; the sign of `{...}` list items is rendered
by a '-' prefix and not modelled):
  * real code:   `_handle_literal(float(text))`, `str(float(text))`, `f"{v:f}"`, `f"{v:g}"`
  * Lean model:  driver `TextLiteral`, requests `(lit I F)`, `(str I F)`, `(fmt I F)`, `(ren I F)`
  * the model answers `unknown` outside its domain (more than 15 significant digits, exact decimal
    ties, `:f` where half an ulp exceeds 0.5e-6); every other answer must equal Python's, character
    for character.  A difference is reported with `ck.unproved('literal_model_correspondence', ...)`.
  * PROPERTY predicate on the real output (independent of the model): the output re-lexes as exactly one
    NUMBER_CONSTANT token `[0-9]+ '.' [0-9]+` whose exact decimal value equals the exact decimal value
    of the input lexeme (`decimal.Decimal`, no float).  For lexemes with more than 15 significant
    digits no renderer that starts from the parsed float can keep the exact decimal, so there the value
    test is `float(output) == float(input)` (the AST value is preserved).  A failing literal is reported
    with `ck.violation(key, ...)`; the key is chosen from the observed behaviour.
  * FIXED TREE.  `handle` models the code as it is today.  When the real function no longer behaves like
    `handle` but (a) every generated literal satisfies the predicate and (b) inside the model's domain its
    output is character for character the Lean `render` (the canonical lexeme, theorem `preserves_render`),
    the tie is made to `render` instead (`literal_model_tie.mode == 'render'`) and nothing is reported.
    Any other difference is `unproved`.
"""
import re
from decimal import Decimal

SITE = 'src/vtlengine/AST/ASTString.py:_handle_literal'
P = 'ASTString:_handle_literal:'
K_INDEX = P + "float without '.' in str() raises IndexError"
K_F = P + '>6 fractional digits rounded by :f'
K_G = P + '>6 significant digits rounded by :g'
K_EXP = P + 'exponent notation emitted (:g, >=1e6)'
K_INT = P + 'integral float rendered without fraction (Number literal becomes Integer)'
K_TINY = P + "tiny float renders as '0.' (not a token)"
# classes beyond the six expected ones, observed on the real code while building the tie
K_NDOT = P + "renders as 'N.' with a dangling '.' (not a token)"
K_BIN = P + ':f prints the binary neighbour (<=6 fractional digits, value changed)'
# never observed on the unchanged tree (kept specific so that a new behaviour is a new key)
K_EXC = P + 'raises %s'
K_OTHER = P + 'output is not a literal token'

NUM_RE = re.compile(r'[0-9]+\.[0-9]+\Z')
INT_RE = re.compile(r'[0-9]+\Z')
NDOT_RE = re.compile(r'[0-9]+\.\Z')


# ------------------------------------------------------------------------------------------------ lexeme helpers
def canon(i, f):
    """canonical digit strings: no leading zeros in I, no trailing zeros in F, one digit kept"""
    return (i.lstrip('0') or '0'), (f.rstrip('0') or '0')


def sig_digits(i, f):
    return (i + f).lstrip('0').rstrip('0')


def in_domain(i, f):
    """D: at most 15 significant digits"""
    return len(sig_digits(i, f)) <= 15


def lex_class(out):
    if NUM_RE.match(out): return 'number'
    if INT_RE.match(out): return 'integer'
    return 'other'


def preserves(i, f, out):
    """the property predicate on one rendered literal"""
    if not isinstance(out, str) or lex_class(out) != 'number':
        return False
    text = i + '.' + f
    if in_domain(i, f):
        return Decimal(out) == Decimal(text)
    return float(out) == float(text)


def real_outcome(handle, text):
    try:
        r = handle(float(text))
    except Exception as e:          # the observation, not a harness failure
        return ('err', type(e).__name__)
    return ('ok', r)


def classify(i, f, outcome):
    """key of the behaviour class of a literal whose real outcome fails the predicate"""
    kind, s = outcome
    if kind == 'err':
        return K_INDEX if s == 'IndexError' else K_EXC % s
    if not isinstance(s, str):
        return K_OTHER
    v = float(i + '.' + f)
    sv = str(v)
    path_f = '.' in sv and len(sv.split('.')[1]) > 4
    lc = lex_class(s)
    if lc == 'other':
        if 'e' in s: return K_EXP
        if s == '0.': return K_TINY
        if NDOT_RE.match(s): return K_NDOT
        return K_OTHER
    if lc == 'integer':
        return K_INT if v.is_integer() else K_G
    # a NUMBER_CONSTANT with another value
    if path_f:
        frac_digits = -Decimal(sv).as_tuple().exponent
        return K_F if frac_digits > 6 else K_BIN
    return K_G


# ------------------------------------------------------------------------------------------------ generators
def _digits(rng, n):
    return ''.join(rng.choice('0123456789') for _ in range(n))


def _nz(rng):
    return rng.choice('123456789')


def _sig(rng, s):
    """s significant digits, first and last non-zero"""
    if s == 1: return _nz(rng)
    return _nz(rng) + _digits(rng, s - 2) + _nz(rng)


def _place(D, X):
    """the canonical lexeme of D[0].D[1:] x 10^X as (I, F)"""
    s = len(D)
    if X >= 0:
        if s <= X + 1:
            return D + '0' * (X + 1 - s), '0'
        return D[:X + 1], D[X + 1:]
    return '0', '0' * (-X - 1) + D


def _pad(rng, i, f):
    """sometimes add leading zeros to I / trailing zeros to F (007.50), within 22 / 20 digits"""
    if rng.random() < 0.15 and len(i) < 22:
        i = '0' * rng.randint(1, min(3, 22 - len(i))) + i
    if rng.random() < 0.15 and len(f) < 20:
        f = f + '0' * rng.randint(1, min(3, 20 - len(f)))
    return i, f


def gen_stratified(rng):
    """digit-length stratified: 1-22 integer digits, 1-20 fractional digits, zeros at either end"""
    li, lf = rng.randint(1, 22), rng.randint(1, 20)
    i, f = _digits(rng, li), _digits(rng, lf)
    r = rng.random()
    if r < 0.2:
        z = rng.randint(1, li); i = '0' * z + i[z:]
    elif r > 0.8:
        z = rng.randint(1, lf); f = f[:lf - z] + '0' * z
    return i, f


def gen_domain(rng):
    """inside D: s <= 15 significant digits at a random decimal position"""
    s = rng.randint(1, 15)
    X = rng.randint(max(-20, s - 21), 21)
    if rng.random() < 0.6:
        X = rng.randint(max(-8, s - 21), 17)          # the interesting band
    D = _sig(rng, s)
    i, f = _place(D, X)
    if len(f) > 20 or len(i) > 22:
        i, f = _place(D, 0)
    return _pad(rng, i, f)


def gen_uniform(rng):
    """what a user types: a random float printed with a random number of decimals"""
    v = rng.random() * 10 ** rng.randint(-8, 18)
    nd = rng.randint(1, 12)
    t = '%.*f' % (nd, v)
    i, f = t.split('.')
    return i[:22], f[:20]


def boundary_pool(rng):
    """boundary families, regenerated (with random digits) on every call"""
    out = []
    add = lambda i, f: out.append((i, f))
    # zero and integral floats N.0
    for z in ('0', '00', '000'):
        for y in ('0', '00', '0000000'):
            add(z, y)
    for n in range(1, 23):
        add(_nz(rng) + _digits(rng, n - 1), '0')
        add('1' + '0' * (n - 1), '0')
        add('9' * n, '0')
        add(_sig(rng, min(n, 3)) + '0' * max(0, n - 3), '0')
        add(_sig(rng, min(n, 15)) + '0' * max(0, n - 15), '0')
    # around 1e-4 / 1e-5 (repr switches to scientific below 1e-4)
    for lzn in range(0, 12):
        z = '0' * lzn
        for tail in ('1', '9', '15', '99', '10001', '5', '49', '51', '4999999', '5000001', _sig(rng, rng.randint(1, 8))):
            if len(z + tail) <= 20: add('0', z + tail)
    add('0', '0001'); add('0', '00009999'); add('0', '00010001'); add('0', '00001'); add('0', '000099999999999')
    # around 1e16 (repr switches to scientific) and 1e15 / 2^53
    for t in ('9999999999999998', '9999999999999990', '10000000000000000', '10000000000000002', '999999999999999',
              '1000000000000000', '9007199254740992', '9007199254740993', '9007199254740991', '12345678901234500',
              '99999999999999900000', '1' + '0' * 21, '15' + '0' * 18, '123456789012345' + '0' * 7):
        add(t, '0'); add(t, '5'); add(t, _digits(rng, 3))
    # around 1e6 (:g switches to exponent) and the 6/7 significant digit edge
    for t in ('999999', '1000000', '1000001', '99999', '100000', '999998', '9999999', '123456', '1234567', '1234565', '1234575'):
        for y in ('0', '4', '5', '6', '49', '51', '5000', '4999', '50', '05'):
            add(t, y)
    for X in range(-4, 16):
        for s in (5, 6, 7, 8):
            D = _sig(rng, s)
            i, f = _place(D, X)
            if len(f) <= 20: add(i, f)
        for D in (_sig(rng, 6)[:5] + _nz(rng) + '5', '9999995', '9999996', '9999994', '99999949', '99999951', '1000005', '1999995'):
            i, f = _place(D, X)                       # :g ties and carries
            if len(f) <= 20: add(i, f)
    # exactly 1..8 fractional digits with 1..11 integer digits
    for k in range(1, 9):
        for n in range(1, 12):
            add(_nz(rng) + _digits(rng, n - 1), _digits(rng, k - 1) + _nz(rng))
            add('0' * rng.randint(0, 2) + _nz(rng) + _digits(rng, n - 1), _digits(rng, k - 1) + _nz(rng) + '0' * rng.randint(0, 3))
    # :f ties and carries at the 6th fractional digit
    for n in range(0, 9):
        ip = (_nz(rng) + _digits(rng, n - 1)) if n else '0'
        for y in ('1234565', '1234575', '9999995', '9999996', '9999994', '99999949', '99999951', '0000005', '0000015',
                  '00000049', '00000051', '000000499999', '0000005000001'):
            add(ip, y)
        add('9' * max(n, 1), '9999996'); add('9' * max(n, 1), '99999951')
    return out


def gen_literals(rng, n):
    """n lexemes as (I, F, family): 1/5 boundary families, then domain / stratified / uniform 11:5:4"""
    nb = max(1, n // 5)
    pool = boundary_pool(rng)
    while len(pool) < nb:
        pool += boundary_pool(rng)                    # fresh random digits every round
    if len(pool) > nb:
        pool = rng.sample(pool, nb)
    out = [(i, f, 'boundary') for i, f in pool]
    for j in range(max(0, n - len(out))):
        r = j % 20
        if r < 11: i, f = gen_domain(rng); fam = 'domain'
        elif r < 16: i, f = gen_stratified(rng); fam = 'stratified'
        else: i, f = gen_uniform(rng); fam = 'uniform'
        out.append((i, f, fam))
    return out


# ------------------------------------------------------------------------------------------------ the tie
def _py_fmt(text):
    v = float(text)
    return str(v), '%s %s' % (f'{v:f}', f'{v:g}')


def check_literals(ck, eng_module, n=None):
    """Tie the Lean literal model to the real `_handle_literal`, and search failing literals."""
    from vtlengine.AST.ASTString import _handle_literal
    if n is None:
        n = 5000 if ck.quick() else 200000
    lits = gen_literals(ck.rng, n)
    seen, uniq = set(), []
    for i, f, fam in lits:
        if (i, f) not in seen:
            seen.add((i, f)); uniq.append((i, f, fam))
    lits = uniq
    lines = []
    for i, f, _ in lits:
        lines.append('(lit %s %s)' % (i, f))
        lines.append('(str %s %s)' % (i, f))
        lines.append('(fmt %s %s)' % (i, f))
        lines.append('(ren %s %s)' % (i, f))
    ans = ck.driver('TextLiteral', lines)

    R = 4
    classes, model, fams = {}, {'agree': 0, 'unknown': 0, 'disagree': 0, 'sub_agree': 0, 'sub_unknown': 0,
                                'render_agree': 0, 'render_differs': 0, 'unknown_in_domain': 0}, {}
    disagreements, sub_disagreements, reported, in_d, preserved = [], [], set(), 0, 0
    for j, (i, f, fam) in enumerate(lits):
        text = i + '.' + f
        fams[fam] = fams.get(fam, 0) + 1
        outcome = real_outcome(_handle_literal, text)
        shown = ('ok %s' % outcome[1]) if outcome[0] == 'ok' else ('err %s' % outcome[1])
        a_lit, a_str, a_fmt, a_ren = ans[R * j], ans[R * j + 1], ans[R * j + 2], ans[R * j + 3]
        dom = in_domain(i, f)
        in_d += dom
        ck.count(text)
        # -- model vs implementation
        if a_lit == 'unknown':
            model['unknown'] += 1
            if dom: model['unknown_in_domain'] += 1
        elif a_lit == shown:
            model['agree'] += 1
        else:
            model['disagree'] += 1
            disagreements.append({'literal': text, 'request': lines[R * j], 'model': a_lit, 'python': shown})
            # failing-input search: the modelled (unchanged) code prints this literal exactly, the real code no longer does
            if a_lit.startswith('ok ') and preserves(i, f, a_lit[3:]) and not (outcome[0] == 'ok' and preserves(i, f, outcome[1])):
                ck.violation(P + 'literal inside the exact bands of the modelled code is no longer printed exactly',
                             {'call': '_handle_literal(float(%r))' % text, 'literal': text, 'observed': shown, 'modelled_code_prints': a_lit[3:]},
                             'Number literal %s: the modelled _handle_literal prints %s, the real one now gives %s' % (text, a_lit[3:], shown))
        if dom:
            if a_ren == shown: model['render_agree'] += 1
            else: model['render_differs'] += 1
        p_str, p_fmt = _py_fmt(text)
        if a_str == 'unknown':
            model['sub_unknown'] += 1
            if dom:
                sub_disagreements.append({'literal': text, 'request': lines[R * j + 1], 'model': a_str,
                                      'python': p_str, 'why': 'model must answer str() everywhere in D'})
        elif a_str == 'ok ' + p_str:
            model['sub_agree'] += 1
        else:
            sub_disagreements.append({'literal': text, 'request': lines[R * j + 1], 'model': a_str, 'python': 'ok ' + p_str})
        mf, mg = (a_fmt.split(' ') + ['?'])[:2]
        pf, pg = p_fmt.split(' ')
        for what, m, p in ((':f', mf, pf), (':g', mg, pg)):
            if m == 'unknown': model['sub_unknown'] += 1
            elif m == p: model['sub_agree'] += 1
            else:
                sub_disagreements.append({'literal': text, 'request': lines[R * j + 2], 'format': what, 'model': m, 'python': p})
        # -- the property on the real outcome
        if outcome[0] == 'ok' and preserves(i, f, outcome[1]):
            preserved += 1
            cls = 'preserved'
        else:
            cls = classify(i, f, outcome)
            if cls not in reported:
                reported.add(cls)
                ck.violation(cls, {'call': '_handle_literal(float(%r))' % text, 'literal': text, 'observed': shown,
                                   'str': p_str, 'model': a_lit, 'in_model_domain': bool(dom)},
                             'Number literal %s is rendered as %s by _handle_literal (%s)' % (
                                 text, shown[3:] if outcome[0] == 'ok' else 'an ' + outcome[1], cls[len(P):]))
        classes[cls] = classes.get(cls, 0) + 1
        if len(ck.cov['samples']) < 8 and (j % 97 == 0):
            ck.sample({'literal': text, 'python': shown, 'model': a_lit, 'class': cls[len(P):] if cls.startswith(P) else cls})

    mode = 'handle'
    if disagreements and preserved == len(lits) and model['render_differs'] == 0:
        mode = 'render'          # the defects are gone: the real function is the canonical renderer on D
        disagreements = []
    ck.note('literal_classes', {(k[len(P):] if k.startswith(P) else k): v for k, v in sorted(classes.items())})
    ck.note('literal_model_tie', dict(model, mode=mode, literals=len(lits), in_domain=in_d, families=fams))
    ck.trusted('Lean model VtlModel.Text.Literal is tied to ASTString._handle_literal by running both on %d lexemes '
               '(%s, str, :f, :g compared character for character wherever the model answers)' % (len(lits), mode))
    a = ('Literal model: a decimal with <= 15 significant digits survives decimal -> double -> repr, and the double is '
         'within v*2^-53 of it (IEEE-754 not modelled; validated against Python on every generated literal)')
    if a not in ck.assumptions: ck.assumptions.append(a)
    disagreements = disagreements + sub_disagreements
    if disagreements:
        ck.unproved('literal_model_correspondence',
                    'Lean model VtlModel.Text.Literal and the real _handle_literal/str/:f/:g differ on %d generated '
                    'literal requests, first: %s' % (len(disagreements), disagreements[0]),
                    disagreements[:50])


# ------------------------------------------------------------------------------------------------ findings
def _known(key, what, literal, observed):
    return {'property': 'C24', 'key': key, 'site': SITE, 'what': what,
            'example': {'call': '_handle_literal(float(%r))' % literal, 'literal': literal, 'observed': observed,
                        'via': 'prettify("DS_r <- DS_1 * %s;")' % literal},
            'status': 'known'}


KNOWN = [
    _known(K_INDEX, "str(value) of a float below 1e-4 or from 1e16 with one significant digit has no '.' "
                    "('1e-05', '1e+20'): .split('.')[1] raises IndexError, prettify crashes", '0.00001', 'IndexError'),
    _known(K_F, 'more than 4 digits after the point in str(value) -> f"{value:f}" keeps 6 fractional digits: '
                '0.123456789 is printed as 0.123457 (another Number)', '0.123456789', '0.123457'),
    _known(K_G, 'at most 4 digits after the point -> f"{value:g}" keeps 6 significant digits: 123.4567 is printed '
                'as 123.457 (another Number; 123456.5 becomes the Integer 123456)', '123.4567', '123.457'),
    _known(K_EXP, 'f"{value:g}" switches to exponent notation from 1e6: 1234567.0 is printed as 1.23457e+06, '
                  'which is not VTL syntax (no exponent in NUMBER_CONSTANT)', '1234567.0', '1.23457e+06'),
    _known(K_INT, 'f"{value:g}" drops the fraction of an integral float: 5.0 is printed as 5, an INTEGER_CONSTANT '
                  '(the literal changes type from Number to Integer)', '5.0', '5'),
    _known(K_TINY, "a float below 5e-7 with 2+ significant digits: f\"{value:f}\" is '0.000000', rstrip('0') leaves "
                   "'0.', which is not a token", '0.00000015', '0.'),
    _known(K_NDOT, "f\"{value:f}\".rstrip('0') leaves a dangling '.' whenever the six printed fractional digits are "
                   "all zero: 9.9999996 -> '10.', 15000000000000000000.0 -> '15000000000000000000.'", '9.9999996', '10.'),
    _known(K_BIN, 'f"{value:f}" prints six fractional digits of the binary double; with 10+ integer digits and 5-6 '
                  'fractional digits they differ from the literal: 9234567890.12345 -> 9234567890.123449',
           '9234567890.12345', '9234567890.123449'),
]


FINDINGS_MD = r'''## `ASTString._handle_literal` does not render Number literals faithfully

Site: `src/vtlengine/AST/ASTString.py:_handle_literal` (float branch). All reproduced on the real code
(`/venv/bin/python`, `sys.path.insert(0, '/verif/harness'); import eng`), directly and through `prettify`:

```python
from vtlengine.AST.ASTString import _handle_literal
from vtlengine import prettify
_handle_literal(float("0.00001"))                 # IndexError: list index out of range   (str -> '1e-05')
_handle_literal(float("100000000000000000000.0")) # IndexError                            (str -> '1e+20')
_handle_literal(float("0.123456789"))             # '0.123457'      value changed (:f keeps 6 decimals)
_handle_literal(float("123.4567"))                # '123.457'       value changed (:g keeps 6 significant digits)
_handle_literal(float("123456.5"))                # '123456'        value changed and the token is an Integer
_handle_literal(float("1234567.0"))               # '1.23457e+06'   not VTL (no exponent syntax), value changed
_handle_literal(float("5.0"))                     # '5'             INTEGER_CONSTANT: Number literal becomes Integer
_handle_literal(float("0.00000015"))              # '0.'            not a token ('0.000000'.rstrip('0'))
_handle_literal(float("9.9999996"))               # '10.'           not a token ('10.000000'.rstrip('0'))
_handle_literal(float("15000000000000000000.0"))  # '15000000000000000000.'  not a token
_handle_literal(float("9234567890.12345"))        # '9234567890.123449'      binary neighbour printed by :f
prettify("DS_r <- DS_1 * 1234567.0;")             # 'DS_r <-\n\tDS_1 * 1.23457e+06;\n' -> does not parse again
prettify("DS_r <- DS_1 + 0.00001;")               # IndexError
```

| key (suffix after `ASTString:_handle_literal:`) | smallest literal | rendered |
|---|---|---|
| float without '.' in str() raises IndexError | `0.00001`, `100000000000000000000.0` | IndexError |
| >6 fractional digits rounded by :f | `0.123456789` | `0.123457` |
| >6 significant digits rounded by :g | `123.4567` | `123.457` |
| exponent notation emitted (:g, >=1e6) | `1234567.0` | `1.23457e+06` |
| integral float rendered without fraction (Number literal becomes Integer) | `5.0` | `5` |
| tiny float renders as '0.' (not a token) | `0.00000015` | `0.` |
| renders as 'N.' with a dangling '.' (not a token) | `9.9999996` | `10.` |
| :f prints the binary neighbour (<=6 fractional digits, value changed) | `9234567890.12345` | `9234567890.123449` |

The Lean model (`lean/VtlModel/Text/Literal.lean`, `handle`) reproduces each of these outputs
(`LiteralLemmas.lean`, theorems `counter_*`), and proves that the renderer is exact only on the narrow band
"at most 4 fractional digits and at most 6 significant digits, not integral" (`literal_roundtrip_g`) and
"5 or 6 fractional digits, at most 9 integer digits, value >= 1e-4" (`literal_roundtrip_f`).

### Proposed patch (small, safe)

`repr(float)` is the shortest decimal that reads back as the same double; expand it positionally and keep a
fraction part so that the token stays a NUMBER_CONSTANT:

```python
from decimal import Decimal

    elif isinstance(value, float):
        text = format(Decimal(repr(value)), "f")      # positional, never an exponent, exact digits of repr
        if "." not in text:                           # Decimal('1E+20') -> '100000000000000000000'
            text += ".0"
        return text
```

`inf`/`nan` cannot come from a NUMBER_CONSTANT lexeme (`[0-9]+ '.' [0-9]+`) of fewer than 309 digits; a guard
(`if not math.isfinite(value): return str(value)`) keeps the old behaviour for them.  With the patch every
lexeme with at most 15 significant digits is printed as its canonical form (`007.50` -> `7.5`, `5.0` -> `5.0`,
`0.00001` -> `0.00001`, `1234567.0` -> `1234567.0`), and every longer lexeme as the shortest decimal of the same
double, so `float(prettified) == float(original)` always.  Negative list items keep their `-` prefix
(`format(Decimal('-1E-7'), 'f') == '-0.0000001'`).
'''

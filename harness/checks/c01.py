"""C01 — element-wise operators compute VTL values over matched datapoints.
Lean: Props/C01.lean over the model VtlModel.Sem; tie: correspondence model <-> real run()."""
import os
import sys
sys.path.insert(0, os.path.join(os.path.dirname(os.path.abspath(__file__)), '..'))
import vlib
from sem import check_common as CC
import c01_ext

ELEMENT = {'ifd', 'irr', 'arith_c', 'mod_c', 'unary_num', 'ceilfloor', 'round', 'power', 'nvl', 'cmp_c', 'between', 'in', 'isnull',
           'concat_c', 'str_un', 'length', 'substr', 'replace', 'not', 'bool_c', 'zip_arith', 'zip_cmp', 'zip_concat', 'zip_bool'}


def main(ck):
    if ck.replay_path:
        import json
        rp = json.load(open(ck.replay_path))
        if rp.get('replay', rp).get('driver') == 'C01Ext':
            return c01_ext.replay_ext(ck, rp)
        return CC.replay(ck)
    pr = ck.proof('C01', extra_modules=('VtlModel.Props.C01Cond', 'VtlModel.Props.C01Ext'))
    q = ck.quick()
    res = []
    res += CC.run_stream(ck, "single-operator", int(os.environ.get("VERIF_N", 250)) if q else 3000, dict(allow=ELEMENT), dict(depth=1))
    res += CC.run_stream(ck, 'multi-statement', 120 if q else 3000, dict(allow=ELEMENT | {'filter'}, flat=True))
    res += CC.run_stream(ck, 'nested', 100 if q else 3000, dict(allow=ELEMENT | {'filter'}))
    res += CC.mixed_ids_stream(ck, 'mixed-identifiers', 40 if q else 600)
    hist = CC.report(ck, res)
    c01_ext.run_ext(ck)
    ck.note('rule', 'case = (script, input data); non-trivial = model and engine agree on a non-empty result or on the '
                    'division-by-zero error; distinct by (script, data)')
    ck.cov['rule'] = ck.cov.pop('rule') if 'rule' in ck.cov else ''
    if not pr['ok']:
        # a proof obligation of the model broke (only possible when the Lean sources changed); the
        # correspondence above is the failing-input search on the implementation side
        if not ck.viol:
            ck.unproved('Props.C01:' + ','.join(pr['failed'] or pr['forbidden'] or pr['bad_axioms']), 'Lean build/audit failed: ' + pr['log'][-400:])
    ck.trusted('correspondence harness (generator harness/sem/gen.py, canonicaliser harness/sem/runner.py: rows as sets keyed by '
               'identifiers, numbers exact-or-1e-9 relative, single renamed measure compared by position)',
               'stand-in parser harness/vtlstub for the script text',
               'modelled not verified: DuckDB evaluation of the generated SQL; DECIMAL/DOUBLE arithmetic (cases on a rounding '
               'boundary and exact comparisons after double-valued operators are excluded and counted)')
    ck.assumptions += ['VTL semantics as restated in lean/VtlModel/Sem (adopted behaviours: mod = truncated remainder, mod(x,0)=null, '
                       'case/if null condition takes the else branch, round half away from zero)',
                       'well-typed scripts (cases rejected by semantic analysis are counted, not compared)']


vlib.run_check('C01', main)

"""C06 — analytic (window) functions compute over the specified partitions and frames.
Lean: Props/C06.lean over the model VtlModel.Sem.An (Sem/Analytic.lean); tie: correspondence model <-> real run()
on generated invocations + the property's own metamorphic predicate on the engine (shuffled input rows give the same
result set); the model is validated against the Reference-Manual examples and the simple-form examples of
tests/Analytic (independent oracles: stored reference outputs)."""
import collections
import csv
import json
import os
import sys
from fractions import Fraction

sys.path.insert(0, os.path.join(os.path.dirname(os.path.abspath(__file__)), '..'))
import vlib
from sem import gen as G
from sem import gen_analytic as GA
from sem import runner as R
from sem.sx import dec_answer
from sem.check_common import msg_head


# ---------------------------------------------------------------------------- the Lean driver (one build per run)
class Driver:
    def __init__(self, ck):
        self.ck, self.built = ck, False

    def __call__(self, lines):
        if not lines:
            return []
        if not self.built:
            self.built = True
            return self.ck.driver('Analytic', lines)
        inp = '\n'.join(lines) + '\n'
        rc, out = vlib.sh(['lake', 'env', 'lean', '--run', os.path.join('Drivers', 'Analytic.lean')], cwd=vlib.LEAN, timeout=3000, input=inp)
        res = out.split('\n')
        if res and res[-1] == '':
            res.pop()
        if rc != 0 or len(res) != len(lines):
            raise vlib.DriverError('driver failed rc=%s, %d answers for %d requests: %s' % (rc, len(res), len(lines), out[-1500:]))
        return res


# ---------------------------------------------------------------------------- stored examples as oracle
def _cell(t, s):
    if s == '' or s is None:
        return None
    if t == 'Integer':
        return int(float(s))
    if t == 'Number':
        return Fraction(s)
    if t == 'Boolean':
        return s.strip().lower() == 'true'
    return s


def _load_example(label, vtl_path, struct_path, in_csv, out_csv):
    vtl = open(vtl_path).read().strip()
    spec = GA.parse_simple(vtl)
    if spec is None:
        return None
    st = json.load(open(struct_path))
    comps = st['datasets'][0]['DataStructure']
    if any(c['type'] not in ('Integer', 'Number', 'String', 'Boolean') for c in comps):
        return None
    ids = [(c['name'], c['type']) for c in comps if c['role'] == 'Identifier']
    meas = [(c['name'], c['type']) for c in comps if c['role'] == 'Measure']
    if len(ids) + len(meas) != len(comps) or not meas:      # no measure: the example is an error test, its output file is stale
        return None
    rows = []
    with open(in_csv, newline='') as f:
        for rec in csv.DictReader(f):
            rows.append(tuple(_cell(t, rec[nm]) for nm, t in ids + meas))
    with open(out_csv, newline='') as f:
        ref = list(csv.DictReader(f))
    env = {'DS_1': {'ids': ids, 'meas': meas, 'rows': rows}}
    return {'label': label, 'env': env, 'sx': '(analytic %s (ds DS_1))' % spec, 'ref': ref, 'vtl': ' '.join(vtl.split())}


def oracle_cases():
    out = []
    base = os.path.join(vlib.REPO, 'tests', 'ReferenceManual', 'data')
    for n in (139, 151, 152, 153, 154, 155, 156):
        try:
            c = _load_example('RM%03d' % n, os.path.join(base, 'vtl', 'RM%03d.vtl' % n),
                              os.path.join(base, 'DataStructure', 'input', '%d-DS_1.json' % n),
                              os.path.join(base, 'DataSet', 'input', '%d-DS_1.csv' % n),
                              os.path.join(base, 'DataSet', 'output', '%d-DS_r.csv' % n))
        except (OSError, KeyError, ValueError):
            c = None
        if c:
            c['rm'] = True
            out.append(c)
    base = os.path.join(vlib.REPO, 'tests', 'Analytic', 'data')
    vdir = os.path.join(base, 'vtl')
    for f in sorted(os.listdir(vdir)) if os.path.isdir(vdir) else []:
        code = f[:-4]
        try:
            c = _load_example('Analytic/' + code, os.path.join(vdir, f), os.path.join(base, 'DataStructure', 'input', code + '-1.json'),
                              os.path.join(base, 'DataSet', 'input', code + '-1.csv'), os.path.join(base, 'DataSet', 'output', code + '-1.csv'))
        except (OSError, KeyError, ValueError, IndexError):
            c = None
        if c:
            c['rm'] = False
            out.append(c)
    return out


def oracle_agrees(case, ans):
    """the model's answer against the stored reference output of the example."""
    a = dec_answer(ans)
    if a[0] != 'ok':
        return False, 'model answered %s' % ans[:120]
    _, ids, meas, mrows = a
    sq = set(GA.squared_of(ans))
    ref = case['ref']
    if len(ref) != len(mrows):
        return False, '%d datapoints in the reference, %d in the model' % (len(ref), len(mrows))
    names = ids + meas
    if ref and sorted(ref[0].keys()) != sorted(names):
        return False, 'components %s vs reference %s' % (names, sorted(ref[0].keys()))
    mk = {tuple(str(dict(zip(names, r))[i]) for i in ids): dict(zip(names, r)) for r in mrows}
    for rec in ref:
        k = tuple(rec[i] for i in ids)
        if k not in mk:
            return False, 'reference key %s missing in the model' % (k,)
        for m in meas:
            mv, rv = mk[k][m], rec[m]
            if rv == '':
                if mv is not None:
                    return False, '%s %s: reference null, model %s' % (k, m, mv)
                continue
            if mv is None:
                return False, '%s %s: model null, reference %s' % (k, m, rv)
            if isinstance(mv, (int, Fraction)) and not isinstance(mv, bool):
                x = float(rv)
                if m in sq:
                    x = x * x
                if abs(float(mv) - x) > 2e-6 * max(1.0, abs(x)):     # reference CSVs carry ~7 significant digits
                    return False, '%s %s: model %s, reference %s' % (k, m, mv, rv)
            elif str(mv) != rv and not (isinstance(mv, bool) and str(mv).lower() == rv.lower()):
                return False, '%s %s: model %r, reference %r' % (k, m, mv, rv)
    return True, ''


# ---------------------------------------------------------------------------- classification of disagreements
def finding_key(case, verdict, detail, eng_out):
    fn, level, st = case['fn'], case['level'], case['stream']
    lvl = 'dataset-level' if level == 'each' else 'calc-level'
    if st == 'no-order-by' and verdict in ('DISAGREE:value', 'SHUFFLE'):
        return 'dataset-level:partition-by-without-order-by-and-window:running-frame-over-physical-row-order'
    if verdict == 'DISAGREE:columns-vs-components' and fn == 'count' and level == 'each' and len(case['meas']) > 1:
        return 'dataset-level:count:several-measures:result-columns-differ-from-components'
    if verdict.startswith('skip:semantic-reject') or verdict.startswith('REJECT'):
        code = verdict.rsplit(':', 1)[1]
        if level == 'calc' and case['order_kind'] == 'meas' and code == '1-1-1-10':
            return 'calc-level:order-by-a-measure-other-than-the-operand:SemanticError-1-1-1-10'
        return '%s:%s:valid-invocation-rejected:SemanticError-%s' % (lvl, fn, code)
    if verdict in ('DISAGREE:engine-error', 'DISAGREE:model-divzero') and eng_out[0] == 'raw':
        cls = eng_out[1].split('.')[-1]
        if '2-1-3-1' in str(eng_out[-1]):
            return 'ratio_to_report:zero-sum:VTL-error-2-1-3-1-escapes-as-raw-%s' % cls
        return '%s:%s:%s:%s' % (lvl, fn, cls, msg_head(eng_out))
    if verdict == 'DISAGREE:engine-error':
        return '%s:%s:%s:%s' % (lvl, fn, eng_out[1], eng_out[2])
    kind = verdict.split(':', 1)[1] if ':' in verdict else verdict
    what = {'value': 'wrong-value', 'keys': 'wrong-datapoints', 'SHUFFLE': 'depends-on-input-row-order'}.get(kind, kind)
    return '%s:%s:%s:frame-%s:order-%s' % (lvl, fn, what, case['frame_shape'], case['order_kind'])


def replay_of(case, verdict, detail, eng_out, ans, extra=None):
    d = {'script': case['vtl'], 'structures': G.structures(case['env']),
         'data': {k: [[str(x) if x is not None else None for x in r] for r in x['rows']] for k, x in case['env'].items()},
         'case': {k: case[k] for k in ('fn', 'level', 'family', 'order_kind', 'frame_shape', 'part_sizes', 'stream')},
         'types': {k: {'ids': x['ids'], 'meas': x['meas']} for k, x in case['env'].items()},
         'model_request': GA.request(case), 'model_answer': ans, 'engine': [str(x)[:600] for x in eng_out],
         'verdict': verdict, 'detail': str(detail)[:600]}
    if extra:
        d.update(extra)
    return d


# ---------------------------------------------------------------------------- replay
def _case_from_replay(r):
    env = {}
    for name, tp in r['types'].items():
        ts = [t for _, t in tp['ids'] + tp['meas']]
        env[name] = {'ids': [tuple(x) for x in tp['ids']], 'meas': [tuple(x) for x in tp['meas']],
                     'rows': [tuple(_cell(t, v) for t, v in zip(ts, row)) for row in r['data'][name]]}
    c = dict(r['case'])
    c.update(env=env, vtl=r['script'], sx='', meas=env['DS_1']['meas'], ids=env['DS_1']['ids'], ops=[c['fn']], flat=True, depth=1,
             nrows=len(env['DS_1']['rows']))
    return c


def replay(ck):
    r = json.load(open(ck.replay_path)).get('replay') or {}
    if 'script' not in r:
        print('  (nothing replayable in this file)'); sys.exit(2)
    print('replaying', r['script'])
    c = _case_from_replay(r)
    ans = Driver(ck)([r['model_request']])[0]
    outs = R.run_engine([c, GA.permuted(c, 7)], budget=120, jobs=2)
    v, d = compare(c, ans, outs[0])
    s, why = GA.same_result_set(outs[0], outs[1])
    print('  model :', ans[:300])
    print('  engine:', str(outs[0])[:300])
    print('  model vs engine: %s %s' % (v, str(d)[:200]))
    print('  shuffled input rows give the same result set: %s %s' % (s, why))
    sys.exit(1 if (v.startswith('DISAGREE') or v.startswith('REJECT') or s is False) else 0)


def compare(case, ans, eng_out):
    v, d = GA.compare(case, ans, eng_out)
    if v.startswith('skip:semantic-reject'):
        a = dec_answer(ans)
        if a[0] == 'ok':             # every generated invocation is valid VTL: a rejection is a disagreement
            return 'REJECT:semantic:' + v.rsplit(':', 1)[1], d
    return v, d


# ---------------------------------------------------------------------------- main
def main(ck):
    if ck.replay_path:
        return replay(ck)
    pr = ck.proof('C06', extra_modules=('VtlModel.Sem.AnalyticLemmas',))
    q = ck.quick()
    drv = Driver(ck)
    n_main = int(os.environ.get("VERIF_N", 0)) or (190 if q else 700)
    g = GA.AnGen(ck.rng)
    cases = []
    # every function x level and every frame shape x mode at least once (thorough: several times), then random
    cover = [(fn, lv) for fn in GA.ALL_FUNCS for lv in ('each', 'calc') if not (fn == 'rank' and lv == 'each')]
    for fn, lv in cover * (1 if q else 6):
        cases.append(g.case(fn=fn, level=lv))
    for mode in ('rows', 'range'):
        for shape in GA.FRAME_SHAPES * (1 if q else 6):
            cases.append(g.case(fn=ck.rng.choice(GA.AGG), shape=shape, mode=mode))
    # the order-sensitive aggregates on every frame shape (a whole-partition frame still needs its ORDER BY)
    for fn in ('first_value', 'last_value'):
        for shape in GA.FRAME_SHAPES * (1 if q else 3):
            cases.append(g.case(fn=fn, shape=shape, mode='rows'))
        for _ in range(2 if q else 8):
            cases.append(g.case(fn=fn, shape='UP-UF', mode=ck.rng.choice(['rows', 'range'])))
    for fn in ('sum', 'count', 'max', 'first_value', 'last_value', 'avg') * (1 if q else 4):        # no window clause
        for lv in ('each', 'calc'):
            cases.append(g.case(fn=fn, level=lv, nowindow=True))
    while len(cases) < n_main:
        cases.append(g.case())
    side = [g.no_order_each() for _ in range(6 if q else 40)] + [g.ratio_zero() for _ in range(4 if q else 24)]
    allc = cases + side
    oracles = oracle_cases()
    answers = drv([GA.request(c) for c in allc] + [GA.request(c) for c in oracles])
    m_ans, o_ans = answers[:len(allc)], answers[len(allc):]

    # ---- model against stored reference outputs (independent oracle)
    bad = []
    for c, a in zip(oracles, o_ans):
        ok, why = oracle_agrees(c, a)
        ck.count(('oracle', c['label']), nontrivial=ok)
        if not ok:
            bad.append('%s %s: %s' % (c['label'], c['vtl'][:120], why))
    ck.note('reference_examples', {'reference_manual': [c['label'] for c in oracles if c['rm']],
                                   'tests_Analytic_simple_forms': [c['label'] for c in oracles if not c['rm']],
                                   'model_disagrees': bad})
    rm_bad = [b for b in bad if b.startswith('RM')]
    if rm_bad or len([c for c in oracles if c['rm']]) < 7:
        ck.unproved('model-vs-reference-manual', 'the Lean model does not reproduce the manual examples: ' + ('; '.join(rm_bad)[:600] or 'examples missing'))
    other_bad = [b for b in bad if not b.startswith('RM')]
    if other_bad:
        ck.unproved('model-vs-tests-Analytic', 'the Lean model does not reproduce stored reference outputs: ' + '; '.join(other_bad)[:800])

    # ---- engine: every case on its rows and on shuffled rows
    perms = [GA.permuted(c, ck.rng.randrange(1 << 30)) for c in allc]
    outs = R.run_engine(allc + perms, budget=120, jobs=int(os.environ.get('VERIF_JOBS', 0)) or None)
    e_base, e_perm = outs[:len(allc)], outs[len(allc):]

    hist = collections.Counter()
    fnhist, shapehist, lvlhist, ordhist, famhist = (collections.Counter() for _ in range(5))
    psize, nparts, rowshist, nullhist, offhist, shufhist = (collections.Counter() for _ in range(6))
    groups = collections.defaultdict(list)
    for c, a, e, e2, cp in zip(allc, m_ans, e_base, e_perm, perms):
        v, d = compare(c, a, e)
        if c['stream'] == 'no-order-by' and e[0] == 'ok':
            # what the function ranges over here depends on how the VTL defaults are read (whole partition, or the running
            # frame over the remaining identifiers): not compared with the model, only the order-independence predicate below
            v, d = 'skip:default-order-and-window-reading', None
        hv = v if not v.startswith('skip:semantic-reject') else 'skip:semantic-reject'
        hist[hv] += 1
        if v == 'agree':
            nontrivial = d == 'divzero' or (isinstance(d, int) and d > 0)
            ck.count((c['vtl'], G.env_sx(c['env'])), nontrivial=nontrivial)
            fnhist[c['fn']] += 1; shapehist[c['frame_shape']] += 1; lvlhist[c['level'] + ':' + c['arg']] += 1
            ordhist[c['order_kind']] += 1; famhist[c['family'] + '/Id_2:' + c['id2_type']] += 1
            for s in c['part_sizes']:
                psize[s] += 1
            nparts[len(c['part_sizes'])] += 1
            rowshist[min(c['nrows'] // 5 * 5, 40)] += 1
            nullhist[str(c['null_rate'])] += 1
            for k in c['offsets']:
                offhist[k] += 1
            if nontrivial:
                ck.sample({'script': c['vtl'], 'rows': c['nrows'], 'partitions': c['part_sizes'], 'model': a[:160]})
        else:
            ck.count(None, nontrivial=False)
            if v.startswith('DISAGREE') or v.startswith('REJECT'):
                groups[finding_key(c, v, d, e)].append((len(c['vtl']) + 20 * c['nrows'], c, v, d, e, a, None))
        # the property's own predicate on the engine: shuffled input rows give the same result set
        s, why = GA.same_result_set(e, e2)
        shufhist['same' if s else ('timeout' if s is None else 'DIFFERENT')] += 1
        if s:
            ck.count(('shuffle', c['vtl'], G.env_sx(c['env'])), nontrivial=e[0] == 'ok' and c['nrows'] > 1)
        elif s is False:
            groups[finding_key(c, 'SHUFFLE', why, e)].append(
                (len(c['vtl']) + 20 * c['nrows'], c, 'SHUFFLE', why, e, a,
                 {'shuffled_data': [[str(x) if x is not None else None for x in r] for r in cp['env']['DS_1']['rows']],
                  'engine_on_shuffled': [str(x)[:600] for x in e2]}))
    ck.note('outcomes', dict(hist))
    ck.note('shuffle_metamorphic', dict(shufhist))
    ck.note('function_histogram', dict(fnhist))
    ck.note('frame_shape_histogram', dict(shapehist))
    ck.note('frame_offsets_histogram', {str(k): v for k, v in sorted(offhist.items())})
    ck.note('level_histogram', dict(lvlhist))
    ck.note('ordering_histogram', dict(ordhist))
    ck.note('measure_family_histogram', dict(famhist))
    ck.note('partition_size_histogram', {str(k): v for k, v in sorted(psize.items())})
    ck.note('partitions_per_dataset_histogram', {str(k): v for k, v in sorted(nparts.items())})
    ck.note('input_rows_histogram', {str(k): v for k, v in sorted(rowshist.items())})
    ck.note('null_rate_histogram', dict(nullhist))
    ck.note('rule', 'case = (script, input data); non-trivial = model and engine agree on a non-empty result (or on the zero-sum error), '
                    'resp. the engine returns the same result set for shuffled input rows of a dataset with >1 datapoint; distinct by (script, data)')
    for key, lst in groups.items():
        lst.sort(key=lambda x: x[0])
        _, c, v, d, e, a, extra = lst[0]
        ck.violation(key, replay_of(c, v, d, e, a, dict(extra or {}, occurrences=len(lst))),
                     '%s: %s | model %s | engine %s' % (v, c['vtl'][:150], a[:100], str(e[1:3])[:140]))
    if hist['agree'] < (40 if q else 500):
        ck.unproved('correspondence:C06', 'only %d of %d cases could be compared: %s' % (hist['agree'], len(allc), dict(hist)))
    if not pr['ok'] and not [v for v in ck.viol if not v[3]]:
        ck.unproved('Props.C06:' + ','.join(pr['failed'] or pr['forbidden'] or pr['bad_axioms']), 'Lean build/audit failed: ' + pr['log'][-400:])
    ck.trusted('correspondence harness (generator harness/sem/gen_analytic.py; canonicaliser harness/sem/runner.py: rows as sets keyed by '
               'identifiers, numbers exact-or-1e-9 relative, stddev compared through squares)',
               'stand-in parser harness/vtlstub for the script text',
               'modelled not verified: DuckDB window evaluation of the generated SQL (ROWS/RANGE frames, NULLS LAST default, '
               'DECIMAL sums, DOUBLE avg/median/variance/ratio)')
    ck.assumptions += ['VTL analytic semantics as restated in lean/VtlModel/Sem/Analytic.lean, validated against the Reference-Manual '
                       'examples 139, 151-156 and the simple-form examples of tests/Analytic (stored reference outputs)',
                       'adopted behaviours (VTL text not available offline): nulls sort last in both directions; count of an empty/all-null '
                       'frame is 0; stddev_samp/var_samp of one value is null; ratio_to_report over an all-null partition is null; no window '
                       'clause with an `order by` = unbounded preceding..current data point',
                       'model choices NOT exercised by the comparison (both readings of the VTL defaults coincide on every generated case): '
                       'an omitted `partition by` = ONE partition (generated only with an order by over all identifiers); no `order by` and no '
                       'window = whole partition (generated for ratio_to_report only; the dataset-level stream without order by is judged '
                       'by the order-independence predicate alone)',
                       'total orderings only (the dataset key is covered by partition by + order by); with ties the result may depend '
                       'on the input row order (Props.C06.ties_counter)']


vlib.run_check('C06', main)

"""C17 — concurrent API calls from several threads behave like sequential ones under every interleaving.

Lean: VtlModel/Session/Interleave.lean (shared-store interleaving machine, decidable discipline),
Props/C17.lean (disciplined_serialisable for every schedule; counter-examples).  Tie: the REAL access traces of
run / semantic_analysis / prettify / create_ast are recorded through the hook on every run and translated;
the Lean driver decides the discipline on them; where it fails the counter-example schedule is FORCED on the
real engine (threads parked at the access points), the Lean machine is run on the same schedule (observed
values must agree) and each call's result is compared with its solo result."""
import json
import multiprocessing as mp
import os
import shutil
import sys
import tempfile

HERE = os.path.dirname(os.path.abspath(__file__))
sys.path.insert(0, os.path.join(HERE, '..'))
sys.path.insert(0, HERE)
import vlib  # noqa: E402
import session_conc as K  # noqa: E402

NPROC = 12
# process-global mutation sites without a hook that were present at ebd8c71 (class attributes assigned in
# Operator.validate classmethods, the VirtualCounter singleton): recorded, outside the modelled variables
UNHOOKED_AT_SNAPSHOT = {('src/vtlengine/Utils/__Virtual_Assets.py', '__new__'), ('src/vtlengine/Operators/Join.py', 'validate'),
                        ('src/vtlengine/Operators/Time.py', 'validate'), ('src/vtlengine/Operators/Numeric.py', 'validate'),
                        ('src/vtlengine/Operators/Analytic.py', 'validate')}


def pool_map(fn, args, timeout):
    if not args: return []
    ctx = mp.get_context('fork')
    with ctx.Pool(processes=min(NPROC, len(args))) as p:
        return p.map_async(fn, args, chunksize=1).get(timeout=timeout)


# ------------------------------------------------------------------ the call library (seeded)
def viral_rule(rng, name='VP'):
    if rng.random() < 0.35:
        return 'define viral propagation %s (variable VAt_1) is aggregate %s end viral propagation;\n' % (name, rng.choice(['max', 'min']))
    a, b = rng.sample(['A', 'B', 'C'], 2)
    return 'define viral propagation %s (variable VAt_1) is when "%s" then "%s"; when "%s" then "%s"; else "%s" end viral propagation;\n' % (
        name, a, rng.choice('ZQW'), b, rng.choice('XYV'), rng.choice('DEF'))


def library(rng, n_extra):
    L = []
    def add(fam, **sp): sp['family'] = fam; L.append(sp)
    body = ['DS_r <- DS_1 + DS_2;', 'DS_r <- DS_1 * DS_2;', 'DS_t := DS_1 + DS_2; DS_r <- DS_t - DS_1;']
    add('viral', kind='run', script='define viral propagation VP (variable VAt_1) is when "A" then "Z"; else "D" end viral propagation;\nDS_r <- DS_1 + DS_2;', structs='V')
    add('viral', kind='run', script='define viral propagation VP (variable VAt_1) is aggregate max end viral propagation;\nDS_r <- DS_1 + DS_2;', structs='V')
    add('viral', kind='semantic_analysis', script='define viral propagation VP (variable VAt_1) is aggregate min end viral propagation;\nDS_r <- DS_1 + DS_2;', structs='V')
    add('plain', kind='semantic_analysis', script='DS_B <- DS_1 + 1;', structs='N')
    add('plain', kind='run', script='DS_p <- DS_1 * 2;', structs='N')
    add('errname', kind='semantic_analysis', script='DS_A <- DS_1 + DS_9;', structs='N')
    add('errname', kind='run', script='DS_E <- DS_1#Me_9;', structs='N')
    add('tp', kind='run', script='DS_r <- DS_1;', structs='TP', fmt='sdmx_reporting')
    add('tp', kind='run', script='DS_r <- DS_1;', structs='TP', fmt='natural')
    add('parse', kind='prettify', script='DS_r <- DS_1 + 1; /* first */')
    add('parse', kind='prettify', script='/* other */ DS_q := DS_2 * 3;')
    add('parse', kind='create_ast', script='DS_r <- DS_1 + ;')
    add('parse', kind='create_ast', script='DS_k <- DS_1 - 1;')
    for _ in range(n_extra):
        f = rng.choice(['viral', 'viral', 'errname', 'plain', 'tp', 'parse'])
        if f == 'viral':
            add('viral', kind=rng.choice(['run', 'run', 'semantic_analysis']), script=viral_rule(rng) + rng.choice(body), structs='V')
        elif f == 'errname':
            nm = 'DS_' + rng.choice('CDFGH') + str(rng.randint(1, 9))
            add('errname', kind=rng.choice(['run', 'semantic_analysis']), script='%s <- DS_1 %s;' % (nm, rng.choice(['+ DS_8', '#Me_7', '[keep Me_5]'])), structs='N')
        elif f == 'plain':
            add('plain', kind=rng.choice(['run', 'semantic_analysis']), script='DS_x%d <- DS_1 + %d;' % (rng.randint(1, 9), rng.randint(1, 9)), structs='N')
        elif f == 'tp':
            add('tp', kind='run', script='DS_r <- DS_1;', structs='TP', fmt=rng.choice(['vtl', 'sdmx_reporting', 'natural']))
        else:
            add('parse', kind=rng.choice(['prettify', 'create_ast']), script='DS_z%d <- DS_1 + %d; /* c%d */' % (rng.randint(1, 9), rng.randint(1, 9), rng.randint(1, 99)))
    return L


def recode(toks, i):
    """identity-like values (1000+n: n-th registry written by the call) are named per call"""
    out = []
    for t in toks:
        if t[0] == 'w':
            v, x = t[1:].split(':')
            x = int(x)
            if 1000 <= x < 1100: x += 100 * i
            out.append('w%s:%d' % (v, x))
        else:
            out.append(t)
    return out


def gates_of(solo, var):
    return solo['gates'].get(var, 0)


def schedules(rng, gcounts, quick):
    """forced schedules over gate points for calls with gcounts[i] gates each"""
    n = len(gcounts)
    out = []
    ga, gb = gcounts[0], gcounts[1]
    ps = sorted(set([1, max(1, ga // 2), max(1, ga - 1)])) if quick else list(range(1, ga + 1))
    qs = sorted(set([1, gb])) if quick else sorted(set([1, max(1, gb // 2), gb]))
    for p in ps:
        for q in qs:
            s = [0] * p + [1] * q
            if n == 3: s += [2] * max(1, gcounts[2] // 2) + [0] + [2] * gcounts[2]
            s += [0] * ga + [1] * gb
            out.append(s)
    if not quick:
        for _ in range(3):
            pool = [i for i, g in enumerate(gcounts) for _ in range(g)]
            rng.shuffle(pool)
            out.append(pool)
    seen, uniq = set(), []
    for s in out:
        if tuple(s) not in seen: seen.add(tuple(s)); uniq.append(s)
    return uniq


def shape(toks): return [t.split(':')[0] for t in toks]


def lean_replay_request(fr):
    """the forced run's global order as a Lean schedule over the SOLO calls, truncated per call where the forced
    trace leaves the shape of the solo trace"""
    n = len(fr['specs'])
    solo = [s['toks'] for s in fr['solos']]          # already named per call index by task_forced
    lim = []
    for i in range(n):
        a, b = shape(fr['toks'][i]), shape(solo[i])
        k = 0
        while k < len(a) and k < len(b) and a[k] == b[k]: k += 1
        lim.append(k)
    pos = [0] * n
    sched = []
    for c in fr['sched']:
        if pos[c] < lim[c]: sched.append(c)
        pos[c] += 1
    calls = ' ; '.join(' '.join(t) if t else 'r99' for t in solo)
    return 'sched %s | %s' % (','.join(map(str, sched)) or '-', calls), lim


def last_foreign_writer(fr, i, vid, var):
    """the other call whose write to the variable was the last one before call i first observed it differently"""
    ptr = [0] * len(fr['toks'])
    nobs = 0
    so = fr['solos'][i]['obs']
    last = None
    for c in fr['sched']:
        if ptr[c] >= len(fr['toks'][c]): continue
        t = fr['toks'][c][ptr[c]]; ptr[c] += 1
        if c == i and (t[0] in 'ri'):
            if nobs < len(so) and nobs < len(fr['obs'][i]) and fr['obs'][i][nobs][0] == var and fr['obs'][i][nobs] != so[nobs]:
                return [last] if last is not None else []
            nobs += 1
        if t.startswith('w%d:' % vid) or t == 'i%d' % vid:
            last = c if c != i else None
    return []


def main(ck):
    if ck.replay_path:
        return replay(ck)
    root = tempfile.mkdtemp(prefix='verif_c17_', dir='/tmp')
    try:
        run_check(ck, root)
    finally:
        shutil.rmtree(root, ignore_errors=True)


def replay(ck):
    rp = json.load(open(ck.replay_path))['replay']
    root = tempfile.mkdtemp(prefix='verif_c17_', dir='/tmp')
    try:
        if rp.get('mode') == 'stress':
            st = K.task_stress((rp['specs'], 12, root))
            print('stress (randomised, may need several attempts): %d differing calls in 12 rounds' % len(st['diffs']))
            for d in st['diffs'][:3]: print('  ', d)
            print('REPRODUCED' if st['diffs'] else 'not reproduced')
            sys.exit(1 if st['diffs'] else 0)
        fr = K.task_forced((rp['specs'], rp['gate_var'], rp['schedule'], root))
        bad = False
        for i, sp in enumerate(fr['specs']):
            same = fr['outcomes'][i] == fr['solos'][i]['outcome']
            bad = bad or not same
            print('call %d %s: %s' % (i, sp['kind'], 'same as alone' if same else 'DIFFERS\n   alone : %s\n   forced: %s' % (str(fr['solos'][i]['outcome'])[:400], str(fr['outcomes'][i])[:400])))
        print('REPRODUCED' if bad else 'not reproduced')
        sys.exit(1 if bad else 0)
    finally:
        shutil.rmtree(root, ignore_errors=True)


def run_check(ck, root):
    quick = ck.quick()
    rng = ck.rng
    pr = ck.proof('C17')
    ck.trusted('hook access reports of the six process-wide variables + proxy around parser_lock (harness) as the definition of a call\'s trace',
               'trace translation (values interned; registries named by writer) and the forced scheduler in harness/checks/session_conc.py',
               'the stand-in parser keeps the same kind of process-global parse state as the C++ extension (last text / error / comments)',
               'modelled, not verified: CPython thread switching between hook points, DuckDB\'s own threads, the C++ parse tree (g_state)')
    # ---------------------------------------------------------------- inventory of process-global mutation sites
    inv = K.inventory(vlib.REPO)
    unhooked = [(x['file'], x['function']) for x in inv if not x['hooked']]
    new_unhooked = [u for u in unhooked if u not in UNHOOKED_AT_SNAPSHOT]
    ck.note('global_mutation_sites', {'hooked': len([x for x in inv if x['hooked']]), 'unhooked': ['%s:%s' % u for u in unhooked]})
    # ---------------------------------------------------------------- solo traces
    lib = library(rng, 3 if quick else 24)
    chunks = [c for c in (lib[i::NPROC] for i in range(NPROC)) if c]
    solos_by_id = {}
    for ch, res in zip(chunks, pool_map(K.task_solo, [(ch, root) for ch in chunks if ch], 900)):
        for sp, r in zip(ch, res): solos_by_id[id(sp)] = r
    solos = [solos_by_id[id(sp)] for sp in lib]
    for sp, so in zip(lib, solos):
        ck.count(('solo', sp['kind'], sp['script'], sp.get('fmt')))
        if so['stuck']: raise RuntimeError('solo call stuck: %s' % sp)
    ck.note('trace_lengths', sorted({len(s['toks']) for s in solos}))
    ck.cov['traces_validated_against_impl'] = len(solos)
    extra_vars = sorted({v for s in solos for v in s['extra']})
    ck.note('variables_seen', K.VARS + extra_vars)
    ck.sample({'call': lib[0]['kind'], 'script': lib[0]['script'], 'trace': ' '.join(solos[0]['toks'])})

    # ---------------------------------------------------------------- groups, discipline decided by Lean
    idx = list(range(len(lib)))
    groups = []
    fams = {}
    for i in idx: fams.setdefault(lib[i]['family'], []).append(i)
    for f, members in fams.items():
        for a in members:
            for b in members:
                if a < b: groups.append((a, b))
    cross = [(a, b) for a in idx for b in idx if a < b and lib[a]['family'] != lib[b]['family']]
    rng.shuffle(cross)
    groups += cross[: (10 if quick else 80)]
    triples = []
    for _ in range(3 if quick else 25):
        t = rng.sample(idx, 3)
        triples.append(tuple(t))
    groups += triples
    reqs = []
    for g in groups:
        reqs.append('disc ' + ' ; '.join(' '.join(recode(solos[i]['toks'], k)) or 'r99' for k, i in enumerate(g)))
    reqs.append('disc ' + ' ; '.join(' '.join(recode(solos[i]['toks'], k)) or 'r99' for k, i in enumerate(idx)))
    driver_err = None
    try:
        ans = ck.driver('Session', reqs)
    except vlib.DriverError as e:
        driver_err = str(e)
        ans = ['disciplined=0 undisciplined=%s kinds=-' % ','.join(str(i) for i in range(6))] * len(reqs)
    und_all = ans[-1].split('undisciplined=')[1].split(' ')[0]
    und_names = [] if und_all == '-' else [(K.VARS + extra_vars)[int(v)] if int(v) < len(K.VARS + extra_vars) else 'var%s' % v for v in und_all.split(',')]
    ck.note('undisciplined_variables_on_recorded_traces', und_names)
    ck.note('discipline_kinds_all_calls', ans[-1].split('kinds=')[1])
    ck.note('groups_decided', len(groups))

    # ---------------------------------------------------------------- force the counter-example schedules
    forced_args = []
    for g, a in zip(groups, ans[:-1]):
        ck.count(('disc', tuple(lib[i]['script'] for i in g), tuple(lib[i]['kind'] for i in g)))
        und = a.split('undisciplined=')[1].split(' ')[0]
        if und == '-': continue
        for v in und.split(','):
            vname = (K.VARS + extra_vars)[int(v)] if int(v) < len(K.VARS + extra_vars) else None
            if vname is None: continue
            for order in ([g, (g[1], g[0]) + tuple(g[2:])] if len(g) >= 2 else [g]):
                gc_ = [gates_of(solos[i], vname) for i in order]
                if vname == 'parser_state': gc_ = [2 for _ in order]
                if gc_[0] == 0 or gc_[1] == 0: continue
                for s in schedules(rng, gc_, quick)[: (4 if quick else 12)]:
                    forced_args.append(([{k: w for k, w in lib[i].items()} for i in order], vname, s, root))
    cap = 40 if quick else 900
    if len(forced_args) > cap:
        rng.shuffle(forced_args)
        forced_args = forced_args[:cap]
    forced = pool_map(K.task_forced, forced_args, 1200 if quick else 3000)
    # Lean machine on the same schedules
    lreqs, lims = [], []
    for fr in forced:
        r, lim = lean_replay_request(fr)
        lreqs.append(r); lims.append(lim)
    lans = ck.driver('Session', lreqs) if (lreqs and driver_err is None) else []
    disagreements = []
    timeouts = []
    nviol = 0
    visible = {}
    for fi, fr in enumerate(forced):
        ck.count(('forced', fr['gate_var'], tuple(fr['schedule']), tuple(sp['script'] for sp in fr['specs'])))
        if fr['stuck']:
            disagreements.append(('stuck', fr['gate_var'], fr['schedule'])); continue
        n = len(fr['specs'])
        pred = None
        if lans:
            ob = lans[fi].split('obs=')[1].split(' ')[0].split(';')
            pred = [[] if o == '-' else [int(x) for x in o.split(',')] for o in ob]
        for i in range(n):
            real = fr['obs'][i]
            if pred is not None:
                k = min(len(real), len(pred[i]))
                # the model must predict every value the real call observed (parser_state reads report a label, not a value)
                for j in range(k):
                    if real[j][0] in ('parser_state', 'decimal_config') or real[j][0] not in K.VARS: continue
                    if real[j][1] != pred[i][j]:
                        disagreements.append(('obs', fr['gate_var'], fr['schedule'], i, j, real[j], pred[i][j])); break
            if fr['outcomes'][i] == ('none',) or fr['solos'][i]['outcome'] == ('none',):
                timeouts.append((fr['gate_var'], i)); continue          # wall-clock guard hit (overloaded machine): no verdict
            if fr['outcomes'][i] != fr['solos'][i]['outcome']:
                # attribute to the first variable on which the call observed something else than alone
                var, seen_code = fr['gate_var'], None
                so = fr['solos'][i]['obs']
                differing = []
                for j in range(min(len(real), len(so))):
                    if real[j][0] != so[j][0]: break
                    if real[j][1] != so[j][1] and real[j][0] not in ('parser_state',):
                        differing.append((real[j][0], real[j][1]))
                # a shifted VirtualCounter only renames internal datasets (__VDS_n__); when another variable was
                # observed differently too, that one is reported as the cause
                pref = [d for d in differing if d[0] != 'virtual_counter'] or differing
                if pref: var, seen_code = pref[0]
                vid = (K.VARS + fr['extra']).index(var) if var in K.VARS + fr['extra'] else -1
                writers = last_foreign_writer(fr, i, vid, var)
                if not writers: writers = [c for c in range(n) if c != i and any(t.startswith('w%d:' % vid) or t == 'i%d' % vid for t in fr['toks'][c])]
                if not writers: writers = [c for c in range(n) if c != i]
                key = 'shared-global:%s:%s<-%s' % (var, fr['specs'][i]['kind'], '+'.join(sorted({fr['specs'][c]['kind'] for c in writers})))
                visible.setdefault(key, 0); visible[key] += 1
                nviol += 1
                what = '%s of call %d (%s) under the forced schedule differs from the same call alone: alone %s | concurrent %s' % (
                    'result' if fr['outcomes'][i][0] == 'ok' and fr['solos'][i]['outcome'][0] == 'ok' else 'outcome / error text', i, fr['specs'][i]['kind'],
                    str(fr['solos'][i]['outcome'])[:160], str(fr['outcomes'][i])[:160])
                ck.violation(key, {'specs': fr['specs'], 'gate_var': fr['gate_var'], 'schedule': fr['schedule'], 'call': i,
                                   'alone': fr['solos'][i]['outcome'], 'concurrent': fr['outcomes'][i]}, what)
    ck.note('forced_schedules_run', len(forced))
    ck.note('calls_without_verdict_wall_clock_guard', len(timeouts))
    ck.note('forced_runs_with_a_differing_call', nviol)
    ck.note('visible_effects_by_key', visible)
    if forced:
        ck.sample({'forced': forced[0]['gate_var'], 'schedule': forced[0]['schedule'], 'calls': [sp['kind'] for sp in forced[0]['specs']]})
    und_no_effect = [v for v in und_names if not any(k.split(':')[1] == v for k in visible)]
    ck.note('undisciplined_without_visible_effect_found', und_no_effect)

    # ---------------------------------------------------------------- randomised stress (thorough)
    if not quick:
        sargs = []
        for f, members in fams.items():
            for _ in range(3):
                pick = [lib[i] for i in rng.sample(members, min(len(members), 3))]
                sargs.append((pick, 6, root))
        st = pool_map(K.task_stress, sargs, 3000)
        nd = 0
        for s in st:
            ck.count(('stress', tuple(sp['script'] for sp in s['specs'])), n=s['rounds'])
            for d in s['diffs']:
                nd += 1
                fam = s['specs'][0]['family']
                var = {'viral': 'viral_registry', 'errname': 'exceptions_dataset_output', 'tp': 'time_period_representation', 'parse': 'parser_state'}.get(fam, 'unknown')
                # the interfering writer is not observable under free running threads: name one kind (run before semantic_analysis)
                kinds = (sorted({sp['kind'] for j, sp in enumerate(s['specs']) if j != d['call'] and sp['kind'] in ('run', 'semantic_analysis')}) or ['run'])[0]
                ck.violation('shared-global:%s:%s<-%s' % (var, s['specs'][d['call']]['kind'], kinds), {'mode': 'stress', 'specs': s['specs'], 'diff': d},
                             'stress with switch interval 1e-6: call %d differs from alone: %s vs %s' % (d['call'], d['solo'][:120], d['got'][:120]))
        ck.note('stress', {'groups': len(st), 'rounds_each': 6, 'differing_calls': nd})

    # ---------------------------------------------------------------- verdict on proof / tie
    ck.note('disagreements', len(disagreements))
    if disagreements: ck.note('first_disagreements', json.loads(json.dumps(disagreements[:3], default=str)))
    new_viol = [v for v in ck.viol if not v[3]]
    if not pr['ok'] and not new_viol:
        ck.unproved('+'.join(pr['failed']) or 'Props.C17', 'lake build / audit of Props.C17 failed: %s' % (pr['log'][-600:] if not pr['build_ok'] else str(pr['forbidden'] + pr['bad_axioms'])))
    if driver_err and not new_viol:
        ck.unproved('driver:Session', driver_err[:600])
    if disagreements and not new_viol:
        ck.unproved('correspondence:interleave', 'Lean machine and real engine disagree on the values observed under %d forced schedules, e.g. %s' % (len(disagreements), json.dumps(disagreements[0], default=str)[:500]))
    if new_unhooked and not new_viol:
        ck.unproved('inventory:process-global-state', 'functions that assign process-global state without reporting through the hook (not in the model, cannot be scheduled): %s' % new_unhooked)
    ck.assumptions.append('a call is represented by its accesses to the hooked variables; class attributes assigned in Operator.validate classmethods (%s) are process-global too but not hooked: outside the model'
                          % ', '.join('%s:%s' % u for u in sorted(UNHOOKED_AT_SNAPSHOT)))
    ck.assumptions.append('decimal_config is only reported on write (readers are not hooked), time_period_representation is never read through get_representation on the DuckDB path: both count as write-only (kind D)')
    ck.assumptions.append('partial: the C++ parse tree (g_state) and DuckDB\'s threads are outside the model; the stand-in parser is used')


vlib.run_check('C17', main)

"""C32 — execution failures surface as VTL errors (VTLEngineException subclasses with catalogued codes), never
raw DuckDB / Python errors.

Lean: Props/C32.lean over Gen/SqlErrors.lean, Gen/ErrorMap.lean, Gen/Catalogue.lean (regenerated every run).
Ties: (T) translators sql_errors.py / catalogue.py; (K) the transcribed if-chains against the real
`_map_query_error` / `map_duckdb_error` on engine-authored, DuckDB-native, run-time and synthetic texts (driver);
generated runtime-failing inputs through the real run(): whatever escapes must be a VTLEngineException subclass
with a catalogued code.
"""
import json
import os
import subprocess
import sys
import tempfile

sys.path.insert(0, os.path.join(os.path.dirname(os.path.abspath(__file__)), '..'))
sys.path.insert(0, os.path.dirname(os.path.abspath(__file__)))
import vlib
import errors_common as ec
from errors_common import sqlmod

PID = 'C32'
FMTS = ['vtl', 'sdmx_gregorian', 'sdmx_reporting', 'natural']
WORKER = os.path.join(os.path.dirname(os.path.abspath(__file__)), 'errors_worker.py')


def T(ck, label):
    import time
    ck.cov.setdefault('timings_s', {})[label] = round(time.time() - ck.t0, 1)


def comp(name, typ, role, nullable=None):
    return {'name': name, 'type': typ, 'role': role, 'nullable': (role != 'Identifier') if nullable is None else nullable}


def structs(*dss):
    return {'datasets': [{'name': n, 'DataStructure': cs} for n, cs in dss]}


# ----------------------------------------------------------------------------------------------------------
# generated runtime-failing inputs
def gen_cases(rng, n_per_family):
    """-> list of cases (dict) with 'family'.  Every family × level (dataset / component / scalar) × value choice."""
    cases = []

    def add(family, script, st, data, fmt=None):
        cases.append({'family': family, 'script': script, 'structures': st, 'data': data, 'fmt': fmt})

    def num_ds(vals1, vals2=None, typ='Number'):
        cs = [comp('Id_1', 'Integer', 'Identifier'), comp('Me_1', typ, 'Measure')]
        d = {'Id_1': list(range(1, len(vals1) + 1)), 'Me_1': list(vals1)}
        if vals2 is not None:
            cs.append(comp('Me_2', typ, 'Measure')); d['Me_2'] = list(vals2)
        return structs(('DS_1', cs)), {'DS_1': d}

    def pick(xs):
        return rng.choice(xs)

    for _ in range(n_per_family):
        # ---- zero divisors
        a = [pick([1.0, -2.5, 0.0, 7.0]) for _ in range(3)]
        z = [pick([0.0, 0.0, 1.0]) for _ in range(3)]
        if 0.0 not in z: z[0] = 0.0
        st, d = num_ds(a, z)
        add('div0:dataset-scalar', 'DS_r <- DS_1 / 0;', st, d)
        add('div0:scalar-dataset', 'DS_r <- 1 / DS_1;', *num_ds(z))
        add('div0:component', 'DS_r <- DS_1[calc Me_3 := Me_1 / Me_2];', st, d)
        add('div0:scalar', 'sc_r <- %s / 0;' % pick(['1', '2.5', '0']), st, d)
        add('div0:dataset-dataset', 'DS_r <- DS_1[keep Me_1] / DS_1[keep Me_2][rename Me_2 to Me_1];', st, d)
        sti, di = num_ds([pick([1, 5, 0]) for _ in range(3)], [0, pick([0, 1]), 2], typ='Integer')
        add('div0:integer-component', 'DS_r <- DS_1[calc Me_3 := Me_1 / Me_2];', sti, di)
        add('mod0:component', 'DS_r <- DS_1[calc Me_3 := mod(Me_1, Me_2)];', sti, di)
        add('ratio0:analytic', 'DS_r <- ratio_to_report(DS_1 over (partition by Id_1));', *num_ds([0.0, 0.0]))
        # ---- logarithms / roots
        neg = [pick([-4.0, 0.0, -0.5, 3.0]) for _ in range(3)]
        if all(v > 0 for v in neg): neg[1] = pick([0.0, -1.0])
        add('ln:dataset', 'DS_r <- ln(DS_1);', *num_ds(neg))
        add('ln:component', 'DS_r <- DS_1[calc Me_3 := ln(Me_1)];', *num_ds(neg))
        add('ln:scalar', 'sc_r <- ln(%s);' % pick(['0', '-1', '-2.5']), *num_ds([1.0]))
        add('log:dataset', 'DS_r <- log(DS_1, %s);' % pick(['2', '10']), *num_ds(neg))
        add('log:base', 'DS_r <- DS_1[calc Me_3 := log(%s, Me_1)];' % pick(['4', '8.5']), *num_ds([pick([1.0, 0.0, -2.0]), 2.0]))
        add('log:scalar-base', 'sc_r <- log(8, %s);' % pick(['1', '0', '-2']), *num_ds([1.0]))
        add('sqrt:dataset', 'DS_r <- sqrt(DS_1);', *num_ds(neg))
        add('sqrt:component', 'DS_r <- DS_1[calc Me_3 := sqrt(Me_1)];', *num_ds(neg))
        add('sqrt:scalar', 'sc_r <- sqrt(%s);' % pick(['-1', '-0.25']), *num_ds([1.0]))
        add('power:component', 'DS_r <- DS_1[calc Me_3 := power(Me_1, %s)];' % pick(['0.5', '-1', '1000']), *num_ds([pick([-4.0, 0.0]), 9e17]))
        add('exp:dataset', 'DS_r <- exp(DS_1);', *num_ds([1e6, 800.0]))
        # ---- overflow
        big = 9223372036854775807
        sto, do = num_ds([big, pick([big, 3, -big])], [pick([1, big, -5]), 2], typ='Integer')
        add('overflow:int-add', 'DS_r <- DS_1[calc Me_3 := Me_1 %s Me_2];' % pick(['+', '-', '*']), sto, do)
        add('overflow:int-dataset', 'DS_r <- DS_1 %s %s;' % (pick(['+', '*']), pick(['1', '2', '1000'])), sto, do)
        add('overflow:int-abs', 'DS_r <- abs(DS_1 - 2) ;', *num_ds([-big, 1], typ='Integer'))
        add('overflow:int-sum', 'DS_r <- sum(DS_1 group except Id_1);', *num_ds([big, big, 5], typ='Integer'))
        bign = pick([9e17, 1e15, 1e12])
        add('overflow:decimal-mul', 'DS_r <- DS_1[calc Me_3 := Me_1 * Me_2];', *num_ds([bign, 2.0], [bign, 3.0]))
        add('overflow:decimal-dataset', 'DS_r <- DS_1 * DS_1 * DS_1;', *num_ds([bign, 2.0]))
        add('overflow:number-to-int', 'DS_r <- DS_1[calc Me_3 := cast(Me_1, integer)];', *num_ds([pick([9e17, 1e16]), 2.0]))
        add('overflow:round', 'DS_r <- round(DS_1, %s);' % pick(['40', '-40', '400']), *num_ds([bign, 2.5]))
        # ---- casts of unparsable strings
        bad = [pick(['abc', '12x', '', ' ', '1e400', '2020-13-45', '2020Q5', 'P1Y', 'true']) for _ in range(2)] + ['7']
        sts = structs(('DS_1', [comp('Id_1', 'Integer', 'Identifier'), comp('Me_1', 'String', 'Measure')]))
        ds = {'DS_1': {'Id_1': [1, 2, 3], 'Me_1': bad}}
        tgt = pick(['integer', 'number', 'date', 'time_period', 'boolean', 'duration', 'time'])
        add('cast:component:' + tgt, 'DS_r <- DS_1[calc Me_3 := cast(Me_1, %s)];' % tgt, sts, ds)
        add('cast:dataset:' + tgt, 'DS_r <- cast(DS_1, %s);' % tgt, sts, ds)
        add('cast:scalar:' + tgt, 'sc_r <- cast("%s", %s);' % (pick(['abc', '12x', '2020-13-45', '2020Q5']), tgt), sts, ds)
        # ---- Time_Period values in each output format
        tps = [pick(['2020A', '2020S1', '2020Q3', '2020M11', '2020W33', '2020D250', '2021Q1', '2021-02', '2020-W05']) for _ in range(3)]
        tps = list(dict.fromkeys(tps))
        if not any(t[4:5] in 'QSW' or '-W' in t for t in tps): tps.append(pick(['2020Q2', '2020S2', '2020W07']))
        stt = structs(('DS_1', [comp('Id_1', 'Time_Period', 'Identifier'), comp('Me_1', 'Number', 'Measure')]))
        stm = structs(('DS_1', [comp('Id_1', 'Integer', 'Identifier'), comp('Me_1', 'Time_Period', 'Measure'), comp('Me_2', 'Time_Period', 'Measure')]))
        dm = {'DS_1': {'Id_1': list(range(len(tps))), 'Me_1': tps, 'Me_2': list(reversed(tps))}}
        for fmt in FMTS:
            add('tpformat:identifier:' + fmt, 'DS_r <- DS_1;', stt, {'DS_1': {'Id_1': tps, 'Me_1': [1.0] * len(tps)}}, fmt)
            add('tpformat:measure:' + fmt, 'DS_r <- DS_1[filter Id_1 >= 0];', stm, dm, fmt)
            add('tpformat:cast-string:' + fmt, 'DS_r <- DS_1[calc Me_3 := cast(Me_1, string)];', stm, dm, fmt)
            add('tpformat:scalar:' + fmt, 'sc_r <- cast("%s", time_period);' % pick(tps), stm, dm, fmt)
            add('tpformat:timeshift:' + fmt, 'DS_r <- timeshift(DS_1, %s);' % pick(['1', '-3']), stt, {'DS_1': {'Id_1': [pick(['2020Q1', '2020S2', '2020W10'])], 'Me_1': [1.0]}}, fmt)
        fmt = pick(FMTS)
        # ---- periods with different indicators
        op = pick(['<', '>', '<=', '>='])
        add('tpcmp:component', 'DS_r <- DS_1[calc Me_3 := Me_1 %s Me_2];' % op, stm, {'DS_1': {'Id_1': [1, 2], 'Me_1': ['2020Q1', '2020M03'], 'Me_2': [pick(['2020A', '2020M01']), '2021Q1']}}, fmt)
        add('tpcmp:dataset-scalar', 'DS_r <- DS_1[keep Me_1] %s cast("2020M01", time_period);' % op, stm, {'DS_1': {'Id_1': [1, 2], 'Me_1': ['2020Q1', '2020M03'], 'Me_2': ['2020A', '2021Q1']}}, fmt)
        add('tpcmp:filter', 'DS_r <- DS_1[filter Me_1 %s Me_2];' % op, stm, {'DS_1': {'Id_1': [1, 2], 'Me_1': ['2020Q1', '2020M03'], 'Me_2': ['2020A', '2021Q1']}})
        agg = pick(['min', 'max'])
        add('tpminmax:dataset', 'DS_r <- %s(DS_1 group except Id_1);' % agg, stm, {'DS_1': {'Id_1': [1, 2], 'Me_1': ['2020Q1', '2020M03'], 'Me_2': ['2020A', '2021Q1']}}, fmt)
        add('tpminmax:aggr', 'DS_r <- DS_1[aggr Me_3 := %s(Me_1) group by Id_1];' % agg, structs(('DS_1', [comp('Id_1', 'Integer', 'Identifier'), comp('Id_2', 'Integer', 'Identifier'), comp('Me_1', 'Time_Period', 'Measure')])),
            {'DS_1': {'Id_1': [1, 1], 'Id_2': [1, 2], 'Me_1': ['2020Q1', pick(['2020M03', '2020A'])]}})
        add('tpminmax:analytic', 'DS_r <- DS_1[calc Me_3 := %s(Me_1 over (partition by Id_1))];' % agg, structs(('DS_1', [comp('Id_1', 'Integer', 'Identifier'), comp('Id_2', 'Integer', 'Identifier'), comp('Me_1', 'Time_Period', 'Measure')])),
            {'DS_1': {'Id_1': [1, 1], 'Id_2': [1, 2], 'Me_1': ['2020Q1', '2020M03']}})
        # ---- time_agg to a finer period
        add('timeagg:finer', 'DS_r <- DS_1[calc Me_3 := time_agg("%s", Me_1)];' % pick(['M', 'Q', 'D', 'W']), stm, {'DS_1': {'Id_1': [1, 2], 'Me_1': [pick(['2020A', '2020S1']), '2020Q2'], 'Me_2': ['2020A', '2020A']}})
        add('timeagg:dataset-finer', 'DS_r <- time_agg("%s", DS_1);' % pick(['M', 'Q']), stt, {'DS_1': {'Id_1': ['2020A', '2021S1'], 'Me_1': [1.0, 2.0]}})
        # ---- durations
        add('daytoyear:negative', 'DS_r <- DS_1[calc Me_3 := %s(Me_1)];' % pick(['daytoyear', 'daytomonth']), *num_ds([pick([-5, -400]), 30], typ='Integer'))
        add('daytoyear:scalar', 'sc_r <- %s(%s);' % (pick(['daytoyear', 'daytomonth']), pick(['-1', '-366'])), *num_ds([1], typ='Integer'))
        add('yeartoday:bad', 'DS_r <- DS_1[calc Me_3 := %s(Me_1)];' % pick(['yeartoday', 'monthtoday']), structs(('DS_1', [comp('Id_1', 'Integer', 'Identifier'), comp('Me_1', 'Duration', 'Measure')])),
            {'DS_1': {'Id_1': [1], 'Me_1': [pick(['A', 'M'])]}})
        # ---- hamming
        s2 = structs(('DS_1', [comp('Id_1', 'Integer', 'Identifier'), comp('Me_1', 'String', 'Measure'), comp('Me_2', 'String', 'Measure')]))
        d2 = {'DS_1': {'Id_1': [1, 2], 'Me_1': ['abc', 'ab'], 'Me_2': [pick(['ab', 'abcd']), 'ab']}}
        add('hamming:component', 'DS_r <- DS_1[calc Me_3 := string_distance(hamming, Me_1, Me_2)];', s2, d2)
        add('hamming:component-scalar', 'DS_r <- DS_1[calc Me_3 := string_distance(hamming, Me_1, "%s")];' % pick(['a', 'abcd']), s2, d2)
        add('hamming:scalar', 'sc_r <- string_distance(hamming, "abc", "%s");' % pick(['a', 'abcd']), s2, d2)
        add('hamming:dataset', 'DS_r <- string_distance(hamming, DS_1[keep Me_1], "%s");' % pick(['a', 'abcd']), s2, d2)
        # ---- dates
        sd = structs(('DS_1', [comp('Id_1', 'Integer', 'Identifier'), comp('Me_1', 'Date', 'Measure')]))
        add('dateadd:overflow', 'DS_r <- DS_1[calc Me_3 := dateadd(Me_1, %s, "%s")];' % (pick(['300000', '-300000', '99999999']), pick(['Y', 'M', 'D'])), sd, {'DS_1': {'Id_1': [1], 'Me_1': [pick(['9999-12-31', '2020-01-31'])]}})
        # ---- nested dataset expressions (measure renamed by an inner operator)
        inner = pick(['(DS_1 / 2.0)', '(DS_1 + 1)', 'abs(DS_1)', '(DS_1 * DS_1)', 'round(DS_1, 1)'])
        outer = pick(['%s > 2.5', '%s = 1', 'not (%s > 1)', '- %s', 'isnull(%s)', 'cast(%s, string)', '%s in {1, 2}', 'between(%s, 1, 2)'])
        add('nested:numeric', 'DS_r <- %s;' % (outer % inner), *num_ds([1.0, 6.0]))
        inner = pick(['length(DS_1)', 'upper(DS_1)', 'instr(DS_1, "a")', '(DS_1 || "x")', 'substr(DS_1, 1, 1)'])
        outer = pick(['- %s', '%s > 1', '%s + 1', 'length(%s)', 'cast(%s, string)', 'isnull(%s)', '%s = "a"'])
        add('nested:string', 'DS_r <- %s;' % (outer % inner), structs(('DS_1', [comp('Id_1', 'Integer', 'Identifier'), comp('Me_1', 'String', 'Measure')])), {'DS_1': {'Id_1': [1, 2], 'Me_1': ['abc', 'a']}})
        inner = pick(['(DS_1 > 1)', 'isnull(DS_1)', '(DS_1 = 2)', 'between(DS_1, 0, 3)'])
        outer = pick(['not %s', '%s and true', 'cast(%s, integer)', 'if %s then DS_1 else DS_1 * 2', '%s = true', 'cast(%s, string)'])
        add('nested:boolean', 'DS_r <- %s;' % (outer % inner), *num_ds([1.0, 6.0]))
        # ---- literals
        add('literal:unary', 'DS_r <- DS_1[calc Me_2 := %s];' % pick(['- -1', '-(-1)', '+ -1', '- +1', '- - -2', 'not not true', '1 - -1', '2 * -3']), *num_ds([1.0]))
        add('literal:scalar', 'sc_r <- %s;' % pick(['- -1', '-(-1.5)', '1--1', '- - 2']), *num_ds([1.0]))
    # ---- VALID scripts whose temporary (:=) results carry time-typed columns while the persistent result does not (or the
    #      other way round): nothing may escape, in any output format, when every result is returned
    tds = structs(('DS_1', [comp('Id_1', 'Integer', 'Identifier'), comp('Id_2', 'Time_Period', 'Identifier'), comp('Me_1', 'Number', 'Measure'),
                            comp('Me_2', 'Date', 'Measure'), comp('Me_3', 'Duration', 'Measure')]))
    tdata = {'DS_1': {'Id_1': [1, 1, 2], 'Id_2': ['2020M1', '2020M2', '2021M12'], 'Me_1': [1.0, 2.0, 3.0],
                      'Me_2': ['2020-01-15', '2020-02-29', None], 'Me_3': ['M', 'A', None]}}
    valid = ['T_1 := DS_1[filter Me_1 > 0]; DS_r <- count(T_1 group by Id_1);',
             'T_1 := DS_1; DS_r <- T_1[keep Me_1][sub Id_2 = cast("2020M1", time_period)];',
             'T_1 := DS_1[calc Me_4 := Me_1 * 2]; T_2 := T_1[keep Me_4]; DS_r <- sum(T_2 group by Id_1);',
             'DS_r <- DS_1[keep Me_1]; T_1 := DS_1[keep Me_2];',
             'T_1 := DS_1[keep Me_3]; DS_r <- DS_1[aggr Me_9 := max(Me_1) group by Id_1];',
             'T_1 := DS_1[calc Me_5 := period_indicator(Id_2)]; DS_r <- max(DS_1#Me_1 group by Id_1);',
             'T_1 := DS_1; T_2 := T_1; DS_r <- T_2;',
             'sc_1 := cast("2020Q1", time_period); DS_r <- DS_1[keep Me_1];']
    for v in valid:
        for f in FMTS:
            add('valid:time-typed-temporaries', v, tds, tdata, f)
    for i, c in enumerate(cases):
        c['id'] = i
    return cases


def corpus_cases(repo, rng, n):
    import glob
    vtls = sorted(glob.glob(os.path.join(repo, 'tests', '**', 'data', 'vtl', '*.vtl'), recursive=True))
    rng.shuffle(vtls)
    out = []
    for v in vtls:
        if len(out) >= n:
            break
        code = os.path.basename(v)[:-4]
        d = os.path.dirname(os.path.dirname(v))
        js = sorted(glob.glob(os.path.join(d, 'DataStructure', 'input', glob.escape(code) + '-*.json')))
        if not js or os.path.getsize(v) > 4000:
            continue
        if 'BigProjects' in v or 'Concurrency' in v:
            continue
        csvs = {}
        okc = True
        for j in js:
            try:
                st = json.load(open(j))
            except Exception:  # noqa: BLE001
                okc = False; break
            c = os.path.join(d, 'DataSet', 'input', os.path.basename(j)[:-5] + '.csv')
            for dsj in st.get('datasets', []):
                csvs[dsj['name']] = c if os.path.exists(c) else None
        if not okc:
            continue
        out.append({'family': 'corpus', 'script': open(v, encoding='utf-8').read(), 'structures': None, 'structure_paths': js, 'csv': csvs,
                    'file': os.path.relpath(v, repo), 'fmt': rng.choice(FMTS)})
    return out


def run_cases(cases, nproc, timeout):
    """Run the cases through errors_worker.py in `nproc` subprocesses.  -> {id: result}"""
    tmp = tempfile.mkdtemp(prefix='verif_c32_')
    chunks = [cases[i::nproc] for i in range(nproc)]
    procs = []
    for i, ch in enumerate(chunks):
        if not ch:
            continue
        fi, fo = os.path.join(tmp, 'in%d.json' % i), os.path.join(tmp, 'out%d.json' % i)
        json.dump(ch, open(fi, 'w'))
        env = dict(os.environ)
        procs.append((subprocess.Popen(['/venv/bin/python', WORKER, fi, fo], stdout=subprocess.DEVNULL, stderr=subprocess.PIPE, env=env), fo, ch))
    res = {}
    for p, fo, ch in procs:
        try:
            _, err = p.communicate(timeout=timeout)
        except subprocess.TimeoutExpired:
            p.kill(); err = b'timeout'
        if os.path.exists(fo):
            for r in json.load(open(fo)):
                res[r['id']] = r
        for c in ch:
            res.setdefault(c['id'], {'id': c['id'], 'sem': {'outcome': 'harness-error', 'msg': (err or b'')[-300:].decode('utf-8', 'replace')}, 'run': None})
    import shutil
    shutil.rmtree(tmp, ignore_errors=True)
    return res


def escape_key(r):
    return 'escape:%s:%s:%s' % (r['phase'], r['cls'].split('.')[-1], ec.msg_signature(r['msg'] if not r['is_vtl'] else (r['code'] or r['msg'])))


# ----------------------------------------------------------------------------------------------------------
def sample_text(e, rng=None):
    """engine error text with sample fills, as DuckDB reports it"""
    fills = ['Q', 'M', '2020-Q1', '3', 'Me_1', '2020-01-01/2020-02-01']
    out, k = [], 0
    for p in e['pieces']:
        if p[0] == 'lit':
            out.append(p[1])
        else:
            out.append(fills[k % len(fills)] if rng is None else rng.choice(fills)); k += 1
    return 'Invalid Input Error: ' + ''.join(out)


def main(ck):
    if ck.replay_path:
        return replay(ck)
    shape_err, gen = None, None
    try:
        gen = ec.generate(ck)
    except vlib.ShapeError as e:
        shape_err = str(e)
    T(ck, 'translated')
    ck.trusted('translators harness/translate/sql_errors.py + catalogue.py (AST / SQL text scans; digests in evidence)',
               'DuckDB itself: the native messages are enumerated by probing the installed DuckDB, not derived',
               'phase attribution of a traceback (function names) in the dynamic runs')
    pr = None
    if gen is not None:
        sd = gen['sql']
        ck.note('sql_errors', len(sd['errors'])); ck.note('mappers', [(m['name'], len(m['rules']), 'total' if m['total'] else 'partial') for m in sd['mappers']])
        ck.note('db_sites', len(sd['db_sites'])); ck.note('unwrapped_phases', [sqlmod.PHASE_NAMES[p] for p in sd['unwrapped']])
        ck.note('claimed_unmapped', [(sd['errors'][i]['unit'], sqlmod.PHASE_NAMES[p]) for i, p in sd['unmapped']])
        ck.note('native_probes', len(gen['native'])); ck.note('native_unmapped', [gen['native'][i][0] for i in sd['native_unmapped']])
        pr = ck.proof(PID)
        T(ck, 'proved')
        static_part(ck, gen)
        T(ck, 'static_done')
    # dynamic part (also the failing-input search when the proof or the translator broke)
    found = dynamic_part(ck, gen)
    T(ck, 'dynamic_done')
    if gen is None:
        if not found:
            ck.unproved('translator', 'source shape unknown to the translator: ' + shape_err)
        return
    if not pr['ok']:
        for t in (pr['failed'] or ['build']):
            ck.unproved(t, 'lake build / audit failed: ' + (pr['log'][-600:] if not pr['build_ok'] else '; '.join(pr['forbidden'] + pr['bad_axioms'])))
    ck.assumptions += [
        'str.lower() maps the ASCII literal parts of a message char by char, independent of the surrounding text',
        'engine-authored SQL error texts of macros are taken to be reachable from any transpiled statement (over-approximation)',
        'load-phase failures are out of scope of C32 (inputs that fail load validation); the load mapper is transcribed and its rules are proved ok',
        'DuckDB-native messages are enumerated (probe list + what the generated runs raise), not derived: PARTIAL',
    ]


def static_part(ck, gen):
    import eng  # noqa: F401
    import duckdb
    from vtlengine.duckdb_transpiler.io import _execution as X, _validation as V
    from vtlengine.Exceptions import VTLEngineException
    sd = gen['sql']
    I = gen['cat']['intern']
    catd = gen['cat']['catd']
    fns = {'_map_query_error': lambda t: X._map_query_error(duckdb.InvalidInputException(t), 'SELECT 1'),
           'map_duckdb_error': lambda t: V.map_duckdb_error(duckdb.InvalidInputException(t), 'DS_1', {})}

    def real(mname, text):
        err = None
        try:
            r = fns[mname](text)
        except Exception as e:  # noqa: BLE001
            return 'mapper-raised %s: %s' % (type(e).__name__, e)
        if isinstance(r, VTLEngineException):
            a = r.args
            return a[1] if len(a) > 1 else 'nocode'
        return 'none'

    # --- (K) transcribed if-chains vs the real mappers
    texts = [sample_text(e) for e in sd['errors']] + [t for _, t in gen['native']]
    needles = []
    for m in sd['mappers']:
        for r in m['rules']:
            stack = [r['cond']]
            while stack:
                c = stack.pop()
                if c[0] == 'has': needles.append(c[1])
                elif c[0] in ('and', 'or'): stack += [c[1], c[2]]
                elif c[0] == 'not': stack.append(c[1])
    junk = ['Out of Range Error: ', 'Conversion Error: ', ' xyz ', 'LINE 1: SELECT "Me_date" FROM t', 'Constraint Error: ', 'NULL', '']
    n_syn = 150 if ck.quick() else 1500
    for _ in range(n_syn):
        k = ck.rng.randint(0, 3)
        parts = [ck.rng.choice(needles) for _ in range(k)] + [ck.rng.choice(junk) for _ in range(2)]
        ck.rng.shuffle(parts)
        t = ' '.join(parts)
        if ck.rng.random() < 0.3: t = t.upper()
        if ck.rng.random() < 0.2: t = t[:max(1, len(t) - ck.rng.randint(1, 6))]
        texts.append(t)
    reqs, exp, meta = [], [], []
    for k, m in enumerate(sd['mappers']):
        if m['name'] not in fns:
            continue
        for t in texts:
            if any(ord(ch) > 127 for ch in t):
                continue
            reqs.append('map %d %s' % (k, ec.points(t))); exp.append(real(m['name'], t)); meta.append((m['name'], t))
    reqs.append('status'); exp.append(None); meta.append(None)
    try:
        ans = ck.driver('Errors', reqs)
    except vlib.DriverError as e:
        ck.unproved('driver', str(e)[:500]); ans = None
    if ans:
        for r, a, e, mt in zip(reqs, ans, exp, meta):
            if e is None:
                ck.note('driver_status', a)
                want = 'bad=%s unmapped=%s unwrapped=%s' % (','.join(str(i) for i in gen['cat']['bad']), ','.join('%d:%d' % x for x in sd['unmapped']), ','.join(str(p) for p in sd['unwrapped']))
                if a.strip() != want:
                    ck.unproved('certificates_vs_model', 'driver status %r differs from the translator certificates %r' % (a, want))
                continue
            ck.count(('map', mt[0], mt[1]))
            if a == 'none':
                lean = 'none'
            else:
                ids = a.split(' ')[1].split(',')
                lean = {I.strs[int(i)] for i in ids}
            ok = (lean == 'none' and e == 'none') or (lean != 'none' and e in lean)
            if not ok:
                ck.unproved('mapper_model_vs_real:' + mt[0], 'Lean if-chain and real %s disagree on %r' % mt, {'lean': a, 'real': e})
                break
        ck.cov['traces_validated_against_impl'] += len(reqs) - 1

    # --- certified unmapped engine errors: replay each on the real mapper
    for i, p in sd['unmapped']:
        e = sd['errors'][i]
        t = sample_text(e)
        first = next((x[1] for x in e['pieces'] if x[0] == 'lit'), '')
        key = 'unmapped-sql-error:%s:%s:%s:%s' % (e['file'], e['unit'], sqlmod.PHASE_NAMES[p], first.split(':')[0].strip()[:40])
        rr = real('_map_query_error', t)
        wrapped = sqlmod.phase_wrapped(sd['db_sites'], p)
        if rr == 'none' or not wrapped:
            ck.violation(key, {'how': 'engine-authored SQL error text is not turned into a VTL error', 'file': e['file'], 'unit': e['unit'], 'line': e['line'],
                               'phase': sqlmod.PHASE_NAMES[p], 'phase_wrapped_by_a_handler': wrapped, 'text': t, '_map_query_error_returns': rr,
                               'python': "from vtlengine.duckdb_transpiler.io._execution import _map_query_error; import duckdb; e=duckdb.InvalidInputException(%r); assert _map_query_error(e,'') is e" % t},
                         '%s (%s) raises %r in phase %s: %s' % (e['unit'], e['file'], first[:60], sqlmod.PHASE_NAMES[p],
                                                               'no rule of _map_query_error matches' if wrapped else 'the phase has no duckdb.Error handler'))
        else:
            ck.unproved('unmapped_certificate:' + key, 'model says unmapped, real mapper returns %s' % rr)
    # --- every rule's outcome constructs on the real classes
    import vtlengine.Exceptions as EX
    for m in sd['mappers']:
        for r in m['rules']:
            for o in r['outs']:
                ck.count(('rule', m['name'], r['line'], o['code']))
                try:
                    cls = getattr(EX, o['cls'])
                    kw = {k: 'x' for k in o['kwargs']}
                    cls(code=o['code'], **kw) if o['cls'] == 'InputValidationException' else cls(o['code'], **kw)
                except Exception as ex:  # noqa: BLE001
                    ck.violation('mapper-rule:%s:%s:%s' % (m['file'], m['name'], o['code']),
                                 {'mapper': m['name'], 'line': r['line'], 'class': o['cls'], 'code': o['code'], 'kwargs': o['kwargs'], 'result': '%s: %s' % (type(ex).__name__, ex)},
                                 'rule of %s cannot construct %s(%s): %s' % (m['name'], o['cls'], o['code'], ex))


def dynamic_part(ck, gen):
    before = len(ck.viol)
    import eng  # noqa: F401
    from vtlengine.Exceptions.messages import centralised_messages as live
    n = 2 if ck.quick() else 8
    cases = gen_cases(ck.rng, n)
    if not ck.quick():
        cc = corpus_cases(vlib.REPO, ck.rng, 400)
        for i, c in enumerate(cc):
            c['id'] = len(cases) + i
        cases += cc
    nproc = 8 if ck.quick() else 14
    res = run_cases(cases, nproc, timeout=900 if ck.quick() else 3000)
    hist, fam_hist = {}, {}
    pairs = []     # (cause text, escaped code) of mapped duckdb errors in the stmt phase
    for c in cases:
        r = res[c['id']]
        sem, run = r['sem'], r['run']
        fam = c['family']
        if sem['outcome'] != 'ok':
            o = 'sem-' + sem['outcome']
            hist[o] = hist.get(o, 0) + 1
            fam_hist.setdefault(fam.split(':')[0], {}).setdefault(o, 0); fam_hist[fam.split(':')[0]][o] += 1
            continue       # the script does not pass semantic analysis: outside the property
        o = run['outcome']
        label = o
        replay_case = {k: c.get(k) for k in ('script', 'structures', 'data', 'fmt', 'structure_paths', 'csv', 'file') if c.get(k) is not None}
        if o == 'vtl':
            code = run['code']
            if code is None:
                label = 'vtl-uncoded:' + run['cls'].split('.')[-1]
                if 'VTLSyntaxError' not in run['cls'] and not run['cls'].endswith('InputValidationException'):
                    ck.violation(escape_key(run), dict(replay_case, escaped=run), 'run() raised %s without a code' % run['cls'])
            elif code.startswith('0-'):
                label = 'vtl-load'
            else:
                label = 'vtl'
                if code not in live:
                    ck.violation('escape-uncatalogued:%s:%s' % (run['site'], code), dict(replay_case, escaped=run), 'run() raised uncatalogued code %s' % code)
                if run['cause_msg'] and run['phase'] == 'stmt':
                    pairs.append((run['cause_msg'], code))
        elif o == 'raw':
            ck.violation(escape_key(run), dict(replay_case, escaped=run, family=fam),
                         'run() lets a raw %s escape (%s phase, %s): %s' % (run['cls'], run['phase'], fam, run['msg'].split('\n')[0][:120]))
            if run['phase'] == 'stmt' and 'duckdb' in run['cls']:
                pairs.append((run['msg'], 'none'))
        hist[label] = hist.get(label, 0) + 1
        fh = fam_hist.setdefault(fam.split(':')[0], {})
        fh[label] = fh.get(label, 0) + 1
        ck.count((fam, c['script'], json.dumps(c.get('data'), sort_keys=True, default=str), c.get('fmt'), label))
        if o != 'ok' and len(ck.cov['samples']) < 8:
            ck.sample({'family': fam, 'script': c['script'], 'fmt': c.get('fmt'), 'outcome': label, 'code': run.get('code'), 'msg': run.get('msg', '')[:100]})
    ck.note('dynamic_outcomes', hist)
    ck.note('dynamic_by_family', fam_hist)
    # run-time messages vs the Lean if-chain (stmt mapper = mapper 0 in Gen order when present)
    if gen is not None and pairs:
        sd = gen['sql']
        I = gen['cat']['intern']
        ks = [s['mapper'] - 2 for s in sd['db_sites'] if s['phase'] == sqlmod.PHASES['stmt'] and s['mapper'] >= 2]
        if ks:
            uniq = sorted({(t, c) for t, c in pairs if all(ord(ch) < 128 for ch in t)})[:400]
            try:
                ans = ck.driver('Errors', ['map %d %s' % (ks[0], ec.points(t)) for t, _ in uniq])
                for (t, code), a in zip(uniq, ans):
                    ck.count(('runtime-map', ec.msg_signature(t), code))
                    lean = 'none' if a == 'none' else {I.strs[int(i)] for i in a.split(' ')[1].split(',')}
                    if not ((lean == 'none' and code == 'none') or (lean != 'none' and code in lean)):
                        ck.unproved('runtime_message_vs_model', 'run-time DuckDB message %r escaped as %s but the Lean if-chain says %s' % (t[:150], code, a))
                        break
                ck.cov['traces_validated_against_impl'] += len(uniq)
            except vlib.DriverError as e:
                ck.unproved('driver', str(e)[:500])
    return len(ck.viol) > before


def replay(ck):
    rp = json.load(open(ck.replay_path))
    r = rp.get('replay', {})
    if 'script' in r:
        c = dict(r); c['id'] = 0
        res = run_cases([c], 1, 600)[0]
        print(json.dumps(res, indent=1)[:3000])
        bad = res['run'] and res['run']['outcome'] == 'raw'
        print('REPRODUCED' if bad else 'not reproduced'); sys.exit(1 if bad else 0)
    if 'python' in r:
        import eng  # noqa: F401
        try:
            exec(r['python'], {})
            print('REPRODUCED: the mapper returns the raw error unchanged'); sys.exit(1)
        except AssertionError:
            print('not reproduced'); sys.exit(0)
    print('nothing to replay'); sys.exit(2)


if __name__ == "__main__":
    vlib.run_check(PID, main)

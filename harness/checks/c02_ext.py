"""C02 extension — the clause operators beyond filter/calc/keep/drop/rename/sub: `unpivot`, `pivot`, the `aggr`
clause, `calc` with an explicit role, and keep/drop/rename/filter over datasets that carry attributes.
Lean: Props/C02Ext.lean over VtlModel.Sem.Pivot (+ Sem.Aggr); tie: correspondence model <-> real run()
through Drivers/ClauseExt.lean.  `run_ext(ck)` is called by checks/c02.py after the core streams."""
import collections
import csv
import json
import os
import sys
from fractions import Fraction

sys.path.insert(0, os.path.join(os.path.dirname(os.path.abspath(__file__)), '..'))
import vlib
from sem import gen as G
from sem import gen_clause_ext as GX
from sem import runner as R
from sem import check_common as CC
from sem.sx import dec_answer

DRIVER = 'ClauseExt'
PROPS = 'VtlModel.Props.C02Ext'


def prebuild(ck):
    """the audit of `ck.proof('C02', extra_modules=(PROPS,))` imports the extension's theorems: build them first."""
    ok, log = ck.lake_build(PROPS)
    if not ok:
        ck.note('ext_props_build', log[-600:])
    return ok


# ---------------------------------------------------------------------------- comparison
def compare_ext(case, model_ans, eng_out):
    """`runner.compare` plus the outcomes it leaves undecided for these operators:
    a null value computed for an identifier must be refused by the engine (the model answers `(err type)`).
    (Semantic analysis refuses `calc identifier X := e` whenever `e` is statically nullable — error 1-1-1-16, whatever
    the data; such scripts count as semantic rejections, like every other script the type checker refuses.)"""
    a = dec_answer(model_ans)
    if case.get('null_identifier_possible') and a[0] == 'err' and a[1] == 'type':
        if eng_out[0] == 'timeout':
            return 'skip:engine-timeout', None
        if eng_out[0] in ('vtl', 'raw'):
            return 'agree', 'null-identifier-refused'
        return 'DISAGREE:null-identifier-accepted', eng_out
    v, d = R.compare(case, model_ans, eng_out)
    if v == 'agree' and isinstance(d, int) and case.get('roles') and not case.get('data_dependent') and eng_out[0] == 'ok':
        # same datapoints: the ROLE of every non-identifier component must be the one the clauses state
        comps = eng_out[1].get('DS_r', (None, []))[1]
        e_att = sorted(c[0] for c in comps if c[1] == 'Attribute')
        e_mea = sorted(c[0] for c in comps if c[1] == 'Measure')
        if e_att != sorted(case['roles']['attributes']) or e_mea != sorted(case['roles']['measures']):
            return 'DISAGREE:roles', {'expected': case['roles'], 'engine_attributes': e_att, 'engine_measures': e_mea}
    return v, d


def classify_ext(case, verdict, detail, eng_out):
    """stable, specific keys: operator + shape of the script + what goes wrong."""
    ops = case.get('ops', [])
    last = ops[-1] if ops else '?'
    nested = (not case.get('flat')) and case.get('depth', 0) >= 2
    shape = 'nested' if nested else ('multi-statement' if case.get('depth', 0) >= 2 else 'single')
    if last == 'pivot' and eng_out[0] == 'raw' and eng_out[1].endswith('NotImplementedError'):
        return 'pivot:not-implemented:raw-NotImplementedError'
    facts = case.get('facts', {})
    if verdict == 'DISAGREE:columns-vs-components' and last == 'unpivot' and facts.get('operand_measures') is False:
        return 'unpivot:operand-without-measures:result-columns-differ-from-components'
    if verdict == 'DISAGREE:value' and 'unpivot' in ops and facts.get('unpivot_integer_before_number') and _rounded(detail):
        return 'unpivot:integer-measure-before-number-measure:number-value-rounded-to-integer'
    if 'unpivot' in ops and nested and verdict in ('DISAGREE:keys', 'DISAGREE:value') and _role_calc_unpivoted(case, detail):
        return 'nested:unpivot-after-calc-with-role:non-measure-unpivoted-as-measure'
    if 'aggrc' in ops and facts.get('aggr_over_attribute') and eng_out[0] == 'raw' and eng_out[1].endswith('IndexError'):
        return 'aggr-clause:aggregate-over-attribute:raw-%s' % eng_out[1].split('.')[-1]
    generic = CC.classify(case, verdict, detail, eng_out)
    if generic == 'float-sensitive' or generic.startswith('nested-expression:transpiler-emits-sql-duckdb-rejects:'):
        return generic          # the shared coarse classes of nested dataset expressions (DESIGN.md 9.6)
    # generic classes of the shared classifier, made specific to the operator family
    return 'clause-ext:%s:%s' % ('+'.join(sorted({o for o in ops if o in GX.EXT_OPS})) or last, generic)


def _rounded(detail):
    try:
        m = Fraction(detail['model'])
        e = detail['engine']
        return m.denominator != 1 and float(e) == int(float(e)) and abs(Fraction(repr(float(e))) - m) <= Fraction(1, 2)
    except Exception:
        return False


def _role_calc_unpivoted(case, detail):
    """a component that a calc of the SAME statement made an attribute / identifier shows up as a value of the unpivot identifier."""
    if not isinstance(detail, dict) or 'engine_only' not in detail:
        return False
    names = set(case.get('facts', {}).get('nested_role_calc_before_unpivot', []))
    return any(any("'%s'" % a in k for a in names) for k in detail['engine_only'])


# ---------------------------------------------------------------------------- Reference-Manual oracle for the model
def _cell(t, s):
    if s == '' or s is None:
        return None
    if t == 'Integer':
        return int(float(s))
    if t == 'Number':
        return Fraction(s)
    if t == 'Boolean':
        return s.strip().lower() == 'true'
    return s


def rm_oracle(ck):
    """the model against the Reference Manual's pivot / unpivot examples (stored inputs and outputs of /repo/tests)."""
    base = os.path.join(vlib.REPO, 'tests', 'ReferenceManual', 'data')
    reqs, wants, names = [], [], []
    for n, mk in ((172, lambda atts: '(pivot "Id_2" "Me_1" (ds DS_1))'), (173, lambda atts: '(unpivot (%s) "Id_2" "Me_1" (ds DS_1))' % atts)):
        try:
            st = json.load(open(os.path.join(base, 'DataStructure', 'input', '%d-DS_1.json' % n)))['datasets'][0]['DataStructure']
            so = json.load(open(os.path.join(base, 'DataStructure', 'output', '%d-DS_r.json' % n)))['datasets'][0]['DataStructure']
            rows_in = list(csv.DictReader(open(os.path.join(base, 'DataSet', 'input', '%d-DS_1.csv' % n))))
            rows_out = list(csv.DictReader(open(os.path.join(base, 'DataSet', 'output', '%d-DS_r.csv' % n))))
        except (OSError, KeyError, ValueError):
            continue
        ids = [(c['name'], c['type']) for c in st if c['role'] == 'Identifier']
        non = [(c['name'], c['type']) for c in st if c['role'] != 'Identifier']
        atts = ' '.join(G.name_sx(c['name']) for c in st if c['role'] == 'Attribute')
        env = {'DS_1': {'ids': ids, 'meas': non, 'rows': [tuple(_cell(t, r[nm]) for nm, t in ids + non) for r in rows_in]}}
        reqs.append('(eval %s %s)' % (G.env_sx(env), mk(atts)))
        oid = [c['name'] for c in so if c['role'] == 'Identifier']
        want = {tuple(_cell(c['type'], r[c['name']]) for c in so if c['name'] in oid):
                {c['name']: _cell(c['type'], r[c['name']]) for c in so if c['name'] not in oid} for r in rows_out}
        wants.append((oid, want))
        names.append('RM%d' % n)
    if not reqs:
        return
    for nm, ans, (oid, want) in zip(names, ck.driver(DRIVER, reqs), wants):
        a = dec_answer(ans)
        got = None
        if a[0] == 'ok':
            _, ids, meas, rows = a
            got = {tuple(dict(zip(ids + meas, r))[i] for i in oid): {m: dict(zip(ids + meas, r))[m] for m in meas} for r in rows} if sorted(ids) == sorted(oid) else None
        if got is None or got != want:
            ck.unproved('model-vs-reference-manual:' + nm, 'the model does not reproduce the Reference Manual example: %s vs %s' % (ans[:300], want))
        else:
            ck.count(('rm-oracle', nm), nontrivial=True)
            ck.note('ext_reference_manual_' + nm, 'model = stored output')


# ---------------------------------------------------------------------------- stream
def annotate(case):
    """facts about the script the comparison needs (derived from the generator's bookkeeping)."""
    case['null_identifier_possible'] = 'calcrole' in case['ops'] and '(calcrole ((' in case['sx']
    return case


def gen_cases(ck, n):
    g = GX.XGen(ck.rng)
    cases = []
    tries = 0
    while len(cases) < n and tries < 20 * n:
        tries += 1
        c = g.case_x()
        if c is not None:
            c['stream'] = 'clause-ext'
            cases.append(c)
    # every new operator as the LAST operator of a script, on purpose
    for last, k in (('unpivot', n // 8), ('calcrole', n // 8), ('aggrc', n // 8), ('keepdrop', n // 10), ('pivot', max(2, n // 40))):
        got = 0
        tries = 0
        while got < k and tries < 20 * k:
            tries += 1
            c = g.case_x(nops=ck.rng.choice([1, 2, 2, 3]), last=last)
            if c is not None and (last != 'keepdrop' or c['ops'][-1] in ('keep_att', 'drop_att')):
                c['stream'] = 'clause-ext:last=' + last
                cases.append(c)
                got += 1
    for c in GX.fixed_cases(ck.rng):
        c['stream'] = 'clause-ext:fixed'
        cases.append(c)
    return [annotate(c) for c in cases]


def run_cases(ck, cases):
    answers = ck.driver(DRIVER, [GX.request(c) for c in cases])
    outs = R.run_engine(cases)
    res = []
    for c, a, e in zip(cases, answers, outs):
        v, d = compare_ext(c, a, e)
        if c.get('expect') == 'error' and v == 'agree' and d != 'null-identifier-refused':
            v, d = 'DISAGREE:expected-error-missing', e
        res.append((c, v, d, e, a))
    return res


def replay_dict(c, v, d, e, a, n):
    return {'driver': DRIVER, 'script': c['vtl'], 'structures': G.structures(c['env']),
            'data': {k: [[str(x) if x is not None else None for x in r] for r in x['rows']] for k, x in c['env'].items()},
            'model_request': GX.request(c), 'model_answer': a, 'engine': [str(x)[:600] for x in e], 'roles': c.get('roles'),
            'case_facts': {k: c.get(k) for k in ('ops', 'flat', 'depth', 'special', 'expect', 'null_identifier_possible', 'facts')},
            'verdict': v, 'detail': str(d)[:600], 'occurrences': n}


def report_ext(ck, results, min_agree=10):
    hist = collections.Counter()
    ophist = collections.Counter()
    agree_by_op = collections.Counter()
    groups = collections.defaultdict(list)
    for c, v, d, e, a in results:
        hv = v if not v.startswith('skip:semantic-reject') else 'skip:semantic-reject'
        hist[hv] += 1
        if v == 'agree':
            nontrivial = d in ('divzero', 'null-identifier-refused') or (isinstance(d, int) and d > 0)
            ck.count((c['vtl'], G.env_sx(c['env'])), nontrivial=nontrivial)
            for o in c['ops']:
                ophist[o] += 1
            agree_by_op[c['ops'][-1]] += 1
            if nontrivial and c['ops'][-1] in GX.EXT_OPS:
                ck.sample({'script': c['vtl'], 'model': a[:160], 'stream': c['stream']}, cap=14)
        else:
            ck.count(None, nontrivial=False)
        if v.startswith('DISAGREE'):
            key = classify_ext(c, v, d, e)
            if key == 'float-sensitive':
                hist['skip:float-sensitive'] += 1
                continue
            groups[key].append((len(c['vtl']), c, v, d, e, a))
    ck.note('ext_outcomes', dict(hist))
    ck.note('ext_operator_histogram', dict(ophist))
    ck.note('ext_agree_by_last_operator', dict(agree_by_op))
    rej = collections.Counter(v for _, v, _, _, _ in results if v.startswith('skip:semantic-reject'))
    ck.note('ext_semantic_rejects', dict(rej))
    for key, lst in groups.items():
        lst.sort(key=lambda x: x[0])
        _, c, v, d, e, a = lst[0]
        ck.violation(key, replay_dict(c, v, d, e, a, len(lst)),
                     '%s: %s | model %s | engine %s' % (v, c['vtl'][:160], a[:100], str(e[1:3])[:140]))
    if hist['agree'] < min_agree:
        ck.unproved('correspondence:C02-ext', 'only %d of %d cases could be compared: %s' % (hist['agree'], len(results), dict(hist)))
    return hist


def run_ext(ck):
    q = ck.quick()
    rm_oracle(ck)
    cases = gen_cases(ck, 64 if q else 3000)
    res = run_cases(ck, cases)
    report_ext(ck, res)
    ck.trusted('correspondence harness of the extension (harness/sem/gen_clause_ext.py, checks/c02_ext.py: role bookkeeping, comparison rules)')
    ck.assumptions += ['unpivot / pivot / calc-with-role / aggr-clause semantics as restated in lean/VtlModel/Sem/Pivot.lean; the Reference Manual '
                       'examples RM172 (pivot) and RM173 (unpivot) are reproduced by the model',
                       'attributes are created inside the scripts (calc attribute / aggr attribute); input datasets carry identifiers and measures only',
                       'pivot: the measures of the result are the distinct values of the pivoted identifier in lexicographic order (the VTL text fixes no order)']
    return res


# ---------------------------------------------------------------------------- replay
def is_ext_replay(path):
    try:
        rp = json.load(open(path))
        return (rp.get('replay', rp) or {}).get('driver') == DRIVER
    except (OSError, ValueError):
        return False


def replay(ck):
    rp = json.load(open(ck.replay_path))
    r = rp.get('replay', rp)
    env = {}
    for d in r['structures']['datasets']:
        ids = [(c['name'], c['type']) for c in d['DataStructure'] if c['role'] == 'Identifier']
        meas = [(c['name'], c['type']) for c in d['DataStructure'] if c['role'] != 'Identifier']
        rows = []
        for row in r['data'].get(d['name'], []):
            rows.append(tuple(None if v is None else int(v) if t == 'Integer' else Fraction(v) if t == 'Number' else (v == 'True') if t == 'Boolean' else v
                              for (n, t), v in zip(ids + meas, row)))
        env[d['name']] = {'ids': ids, 'meas': meas, 'rows': rows}
    case = {'env': env, 'vtl': r['script'], 'sx': '', 'roles': r.get('roles') or {'measures': [], 'attributes': []}}
    case.update(r.get('case_facts') or {})
    case.setdefault('ops', [])
    ans = ck.driver(DRIVER, [r['model_request']])[0]
    out = R.run_engine([case], jobs=1)[0]
    v, d = compare_ext(case, ans, out)
    if case.get('expect') == 'error' and v == 'agree' and d != 'null-identifier-refused':
        v, d = 'DISAGREE:expected-error-missing', out
    print('script :', r['script'])
    print('model  :', ans[:400])
    print('engine :', str(out)[:600])
    print('verdict:', v, str(d)[:300])
    ck.count((r['script'],), nontrivial=True)
    ck.count((r['script'], 'replay'), nontrivial=True)
    ck.sample({'replayed': ck.replay_path, 'verdict': v})
    ck.cov['rule'] = 'replay of one stored case'
    if v.startswith('DISAGREE'):
        ck.violation(rp.get('key', 'replay'), r, 'replayed case still disagrees: ' + v)

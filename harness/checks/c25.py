"""C25 — generate_sdmx produces a TransformationScheme equivalent to the script.

Proof: lean/VtlModel/Props/C25.lean over lean/VtlModel/Text/Scheme.lean (ofScript = the loop of
ast_to_sdmx, toScript = pysdmx generate_vtl_script).  Tie (K), re-established on every run:

  a. real generate_sdmx vs Lean `ofScript` (ids, result names, persistence, ruleset type/scope, counts,
     block order of create_ast's children, text order of generate_vtl_script) on generated scripts
     (ground truth known by construction + an independent regex split of the text) and corpus scripts;
  b. every transformation / ruleset / operator text re-parses (real create_ast) to an AST equal, modulo
     positions, to the statement the model says it came from;
  c. _check_script(scheme) parses and run(scheme) == run(text) (sets of rows, numeric tolerance) on
     generated scripts with generated data and on corpus scripts that ship with data.

usage: c25.py --tier quick|thorough [--replay replays/C25_xxx.json]
"""
import collections
import json
import multiprocessing as mp
import os
import random
import re
import sys
import time

sys.path.insert(0, os.path.join(os.path.dirname(os.path.abspath(__file__)), '..'))
sys.path.insert(0, os.path.dirname(os.path.abspath(__file__)))
import vlib  # noqa: E402
import c25_util as U  # noqa: E402

# replayed on the real code in every run: minimal scripts for constructs that were seen to break the
# property.  They only EXPOSE behaviour; keys come from the generic classifier below, so a fixed defect
# simply stops producing a finding.
WITNESSES = [
    ('viral', 'define viral propagation vp1 (variable VAt_1) is when "C" and "N" then "X"; else "F" end viral propagation;\nDS_r := DS_1 + DS_2;'),
    ('float-literal', 'DS_r := DS_1 + 1.0;'),
    ('float-digits', 'DS_r := DS_1 * 0.123456789;'),
    ('float-exponent-crash', 'DS_r := DS_1 * 0.0000001;'),
    ('float-g-format', 'DS_r := DS_1 * 1234567.5;'),
    ('quoted-result', "'DS r' := DS_1 + 1;"),
    ('reserved-result', "'errorlevel' := DS_1 + 1;"),
    ('rename-reserved', "DS_r := DS_1[rename 'errorlevel' to level];"),
    ('group-time_agg', 'DS_r := DS_1[aggr Me_2 := sum(Me_1) group by Id_1 time_agg("A")];'),
    ('udo-scalar-param', 'define operator f (x dataset, y scalar) returns dataset is x + y end operator;\nDS_r := f(DS_1, 2);'),
    ('udo-dataset-constraint', 'define operator f (x dataset {identifier<integer> Id_1, measure<number> Me_1}) returns dataset is x end operator;\nDS_r := f(DS_1);'),
    ('join-body-aggr', 'DS_r := inner_join(DS_1 as d1, DS_2 as d2 aggr Me_3 := sum(d1#Me_1) group by Id_1);'),
    ('definitions-only', 'define operator f (x dataset) returns dataset is x end operator;'),
]
IDENT = re.compile(r'[A-Za-z][A-Za-z0-9_.]*\Z')


def parse_lean_answer(ans):
    if ans == '(bad-request)':
        return None
    d = {}
    for part in ans.split(';'):
        k, _, v = part.partition('=')
        d[k] = v
    d['items'] = [x.split(':') for x in d['items'].split(',')] if d['items'] else []
    d['rulesets'] = [x.split(':') for x in d['rulesets'].split(',')] if d['rulesets'] else []
    d['udos'] = [x.split(':') for x in d['udos'].split(',')] if d['udos'] else []
    d['script'] = [] if d['script'] == '-' else d['script'].split(' ')
    return d


def reserved_words():
    import eng  # noqa: F401
    from vtlengine.AST.Grammar._cpp_parser import LITERAL_NAMES
    return {x.replace("'", '').lower() for x in LITERAL_NAMES if x}


class Verdicts:
    """collects property-level findings (-> ck.violation) and model/code disagreements (-> ck.unproved)"""
    def __init__(self, ck):
        self.ck = ck
        self.viol = collections.OrderedDict()      # key -> (replay, what)
        self.disagree = []                         # (name, why, detail)
        self.artefacts = collections.Counter()
        self.norms = collections.Counter()
        self.keys_seen = collections.Counter()

    def violation(self, key, replay, what):
        self.keys_seen[key] += 1
        if key not in self.viol or len(replay.get('script', '')) < len(self.viol[key][0].get('script', '')):
            self.viol[key] = (replay, what)

    def flush(self):
        for key, (replay, what) in self.viol.items():
            self.ck.violation(key, replay, what)
        seen = set()
        for name, why, detail in self.disagree:
            if name in seen:
                continue
            seen.add(name)
            self.ck.unproved(name, why, detail)


def construct_of_parse_failure(diff, reserved):
    """name the construct behind `rendered text does not parse` from the text and the parser message"""
    text, msg = diff.get('text', ''), (diff.get('err') or ['', '', ''])[2]
    m = re.search(r"(?:mismatched input|extraneous input|no viable alternative at input|missing .* at) '([^']*)'", msg)
    tok = m.group(1) if m else '?'
    if diff['what'] == 'transformation':
        m2 = re.match(r'(.*?) (:=|<-) ', text, re.S)
        res = m2.group(1) if m2 else ''
        if res and (not IDENT.match(res) or res.lower() in reserved):
            return '__generate_transformation:result name that needs quotes is emitted unquoted'
    if re.search(r'\[\s*rename\b[^\]]*\b%s\b' % re.escape(tok), text) and tok.lower() in reserved:
        return 'ASTString.visit_RenameNode:reserved word not quoted'
    if tok == 'time_agg' and re.search(r'group (by|except) [^\]]*, time_agg\(', text):
        return 'ASTString._handle_grouping_having:time_agg in group by joined with a comma'
    return "ASTString(non-pretty):%s text does not re-parse near '%s'" % (diff['what'], tok)


def classify(rec, lean, case, V, reserved):
    """rec: worker record; lean: parsed driver answer for rec['desc']; case: dict(origin, text, truth?)."""
    ck = V.ck
    text = case['text']
    rp = {'script': text, 'origin': case['origin']}
    if 'parse_error' in rec or rec.get('timeout') == 'parse' or 'recursion' in rec:
        return 'unparsed'
    if 'timeout' in rec:
        V.artefacts['budget exceeded at stage %s' % rec['timeout']] += 1
        return 'timeout'
    desc = rec['desc']
    kinds = [d[0] for d in desc]
    if any(k.startswith('?') for k in kinds):
        V.disagree.append(('K:statement kinds', 'ast.children contains a statement class the model does not know: %r' % kinds, rp))
        return 'unknown-kind'
    # ---- generate_sdmx raised on a script that parses
    if 'generate_error' in rec:
        cls, _, msg, where = (rec['generate_error'] + [None])[:4]
        if cls == 'AttributeError' and where == 'ASTString.visit_Argument' and "'Scalar' object" in msg:
            key = 'ASTString.visit_Argument:operator parameter of type scalar raises AttributeError'
        elif cls == 'IndexError' and where == 'ASTString._handle_literal':
            key = "ASTString._handle_literal:raises IndexError on a Number literal whose str() has no '.' (exponent notation)"
        else:
            key = 'generate_sdmx:raises %s in %s on a script create_ast accepts' % (cls, where)
        V.violation(key, rp, 'generate_sdmx raises %s in %s: %s' % (cls, where, msg[:120]))
        return 'generate-error'
    # ---- (a) model vs code
    if lean is None:
        V.disagree.append(('K:driver', 'driver rejected the request', rp))
        return 'bad-request'
    n_a = sum(k in 'AP' for k in kinds)
    truth_assign = sorted((d[1], d[0] == 'P') for d in desc if d[0] in 'AP')
    got_assign = sorted((it[1], it[2]) for it in rec['items'])
    prop_ok = True
    if got_assign != truth_assign or len(rec['items']) != n_a:
        prop_ok = False
        V.violation('ast_to_sdmx:transformations are not the assignments (result name / persistence / count)', rp,
                    'scheme has %r, script assigns %r' % (got_assign[:6], truth_assign[:6]))
    lean_items = [(i[0], i[1], i[3] == '1') for i in lean['items']]
    real_items = [(it[0], U.hexs(it[1]), it[2]) for it in rec['items']]
    if lean_items != real_items and prop_ok:
        # the property's own predicate holds (multiset of (name, persistence)); what differs is id / order
        V.disagree.append(('K:ofScript.items', 'ids / order of the transformations differ from the model', dict(rp, lean=lean_items[:8], real=real_items[:8])))
    lean_rs = [(r[0], r[1], r[2], r[3]) for r in lean['rulesets']]
    real_rs = [(r[0], {'datapoint': 'dp', 'hierarchical': 'hr'}.get(r[1], r[1]), U.hexs(r[4].split(' ruleset ', 1)[-1]),
                {'variable': 'var', 'valuedomain': 'vd'}.get(r[2], r[2])) for r in rec['rulesets']]
    if lean_rs != real_rs:
        t = sorted((d[1], d[0], d[2]) for d in desc if d[0] in 'HD')
        g = sorted((r[4].split(' ruleset ', 1)[-1], {'datapoint': 'D', 'hierarchical': 'H'}.get(r[1]), r[2]) for r in rec['rulesets'])
        if t != g:
            V.violation('ast_to_sdmx:rulesets of the scheme are not the rulesets of the script (name / type / scope / count)', rp,
                        'scheme has %r, script defines %r' % (g[:6], t[:6]))
        else:
            V.disagree.append(('K:ofScript.rulesets', 'ids / order of the rulesets differ from the model', dict(rp, lean=lean_rs[:8], real=real_rs[:8])))
    lean_us = [(u[0], u[1]) for u in lean['udos']]
    real_us = [(u[0], U.hexs(u[2].split('UserDefinedOperator ', 1)[-1])) for u in rec['udos']]
    if lean_us != real_us:
        t = sorted(d[1] for d in desc if d[0] == 'U')
        g = sorted(u[2].split('UserDefinedOperator ', 1)[-1] for u in rec['udos'])
        if t != g:
            V.violation('ast_to_sdmx:operators of the scheme are not the operators of the script (name / count)', rp,
                        'scheme has %r, script defines %r' % (g[:6], t[:6]))
        else:
            V.disagree.append(('K:ofScript.udos', 'ids / order of the operators differ from the model', dict(rp, lean=lean_us[:8], real=real_us[:8])))
    if lean['hoisted'] != '1':
        V.disagree.append(('K:Hoisted(ast.children)', 'create_ast returned children outside the block order the model assumes', dict(rp, kinds=kinds)))
    meta = rec['scheme_meta']
    if meta[:4] != ['TS1', 'MD', '1.0', '2.1'] or meta[4] != (['RS1'] if rec['rulesets'] else []) or meta[5] != (['UDS1'] if rec['udos'] else []):
        V.disagree.append(('K:scheme metadata', 'scheme ids / agency / versions differ from what ast_to_sdmx is modelled to set', dict(rp, meta=meta)))
    # ---- viral definitions (the model says: dropped; observe what the code did)
    defs_text = '\n'.join([r[3] for r in rec['rulesets']] + [u[1] for u in rec['udos']] + [rec.get('regenerated') or ''])
    for d in desc:
        if d[0] == 'V' and not re.search(r'define\s+viral\s+propagation\s+%s\b' % re.escape(d[1]), defs_text):
            V.violation('ast_to_sdmx:ViralPropagationDef dropped', rp,
                        'viral propagation %s is in the script but in no item of the scheme nor in _check_script(scheme)' % d[1])
    # ---- (b) re-parse differences
    for df in rec['diffs']:
        if df['what'] == 'regenerated':
            continue     # same comparison through the regenerated script; reported once via the item
        if df['kind'] == 'reparse-error':
            key = construct_of_parse_failure(df, reserved)
            V.violation(key, dict(rp, rendered=df['text']), '%s #%d renders to text the parser rejects: %s' % (df['what'], df['k'] + 1, df['err'][2][:160]))
        elif df['kind'] == 'reparse-count':
            V.violation('ASTString(non-pretty):%s text re-parses to %d statements' % (df['what'], df['n']), dict(rp, rendered=df['text']), 'expected exactly one statement')
        else:
            cls = df.get('cls') or '?'
            if df['what'] == 'transformation' and (df['path'].startswith('$: ') or re.match(r'\$\.(Persistent)?Assignment:left\.', df['path'])):
                # the k-th item is not the k-th assignment at all (other result name / other assignment operator)
                key = 'ast_to_sdmx:transformation k is not the k-th assignment of ast.children (result name or persistence differ)'
            elif cls == 'Constant.type_' and 'FLOAT_CONSTANT' in df['path'] and 'INTEGER_CONSTANT' in df['path']:
                key = 'ASTString._handle_literal:Number literal with integral value is rendered as an Integer literal'
            elif re.search(r'\d(\.\d+)?e[+-]\d\d', df.get('text', '')):
                key = 'ASTString._handle_literal:Number literal is rendered in exponent notation (format g), which VTL does not read back'
            elif cls == 'Constant.value' and re.search(r'Constant:value: -?\d+\.\d+ vs -?\d+\.\d+', df['path']):
                key = 'ASTString._handle_literal:Number literal is rendered with 6 fractional digits only'
            elif cls in ('JoinOp.isLast', 'RegularAggregation.isLast'):
                key = 'ASTString.visit_RegularAggregation:aggr clause of a join body is rendered after the join'
            elif cls == 'Dataset.components':
                key = 'ASTString.visit_Argument:dataset parameter constraint is not rendered'
            else:
                key = 'ASTString(non-pretty):%s re-parses to a different AST at %s' % (df['what'], cls)
            V.violation(key, dict(rp, rendered=df['text']), '%s #%d: %s' % (df['what'], df['k'] + 1, df['path'][:200]))
    for n in rec.get('norms', []):
        V.norms[n] += 1
    # ---- (c) _check_script
    explained = any(df['kind'] == 'reparse-error' for df in rec['diffs'])
    if 'check_script_error' in rec:
        msg = rec['check_script_error'][2]
        if 'must contain at least one Transformation' in msg and n_a == 0:
            V.artefacts['definitions-only script: pysdmx model validation requires >= 1 Transformation'] += 1
        elif not explained:
            V.violation('_check_script:rejects the scheme generate_sdmx produced (%s)' % msg[:60], rp, msg[:200])
        return 'check-script-error'
    if 'regenerated_parse_error' in rec:
        if not explained:
            V.violation('_check_script:regenerated script does not parse', rp, rec['regenerated_parse_error'][2][:200])
        return 'regen-parse-error'
    if rec['stage'] != 'done':
        return rec['stage']
    # text order of generate_vtl_script == toScript (ofScript children)
    body = {}
    ai = [i for i, d in enumerate(desc) if d[0] in 'AP']
    ri = [i for i, d in enumerate(desc) if d[0] in 'HD']
    ui = [i for i, d in enumerate(desc) if d[0] == 'U']
    for k, i in enumerate(ai):
        if k < len(rec['items']):
            it = rec['items'][k]
            body['e%d' % i] = '%s %s %s;' % (it[1], '<-' if it[2] else ':=', it[3])
    for k, i in enumerate(ri):
        if k < len(rec['rulesets']): body['e%d' % i] = rec['rulesets'][k][3]
    for k, i in enumerate(ui):
        if k < len(rec['udos']): body['e%d' % i] = rec['udos'][k][1]
    expect = ''.join(body.get(tok.rsplit(':', 1)[-1], '<?>') + '\n' for tok in lean['script'])
    if expect != rec['regenerated']:
        V.disagree.append(('K:toScript', 'generate_vtl_script text is not the model\'s toScript order', dict(rp, expect=expect[:400], got=rec['regenerated'][:400])))
    missing = [m for m in rec['regen_missing'] if m[0] != 'V']
    if missing or rec['regen_extra']:
        V.violation('generate_sdmx:statements lost or invented by the round trip', rp, 'missing %r extra %r' % (missing[:5], rec['regen_extra'][:5]))
    return 'done'


def main(ck):
    t0 = time.time()
    pr = ck.proof('C25')
    phases = {'proof': round(time.time() - t0, 1)}
    reserved = reserved_words()
    import eng
    repo = eng.REPO
    quick = ck.quick()
    jobs_n = int(os.environ.get('C25_JOBS') or min(14, max(2, (os.cpu_count() or 4) - 2)))
    V = Verdicts(ck)
    rng = ck.rng

    # ------------------------------------------------------------------ cases
    cases = []
    if ck.replay_path:
        rp = json.load(open(ck.replay_path))
        r = rp.get('replay') or rp.get('detail') or {}
        if not isinstance(r, dict):
            r = {}
        cases.append({'origin': 'replay', 'text': r.get('script', ''), 'gen': None})
    else:
        for name, text in WITNESSES:
            cases.append({'origin': 'witness:' + name, 'text': text, 'gen': None})
        n_gen, n_viral = (140, 30) if quick else (1500, 250)
        if os.environ.get('C25_WITNESSES_ONLY'):      # development aid
            n_gen = n_viral = 0
        for i in range(n_gen + n_viral):
            g = U.gen_script(rng, reserved, viral=i >= n_gen)
            cases.append({'origin': 'generated' + (':viral' if i >= n_gen else ''), 'text': g['text'], 'gen': g})
        files = U.corpus_files(repo)
        pick = files if not quick else rng.sample(files, min(300, len(files)))
        if os.environ.get('C25_WITNESSES_ONLY'):
            pick = []
        for f in sorted(pick):
            try:
                cases.append({'origin': 'corpus:' + os.path.relpath(f, repo), 'text': open(f, encoding='utf-8-sig', errors='replace').read(),
                              'gen': None, 'path': f})
            except OSError:
                pass
    budget = 45 if quick else 90
    jobs = [{'id': i, 'text': c['text'], 'budget': budget} for i, c in enumerate(cases)]
    # import everything the workers need ONCE in the parent (no DuckDB connection is opened here), then fork
    U.analyze({'id': -1, 'text': 'define operator f (x dataset) returns dataset is x end operator;\nA := f(B);', 'budget': 300})
    from vtlengine import run as _warm  # noqa: F401
    pool = mp.get_context('fork').Pool(jobs_n)

    def pmap(fn, js, chunksize, per_job):
        return pool.map_async(fn, js, chunksize=chunksize).get(timeout=600 + per_job * (len(js) // jobs_n + 2))
    recs = pmap(U.analyze, jobs, 4, budget)
    late = [i for i, r in enumerate(recs) if 'timeout' in r]
    if late:    # a loaded machine can stall a worker; give every timed-out script one more, longer, try
        again = pmap(U.analyze, [dict(jobs[i], budget=budget * 4) for i in late], 1, budget * 4)
        for i, r in zip(late, again):
            recs[i] = r

    phases['analyze'] = round(time.time() - t0, 1)
    # ------------------------------------------------------------------ Lean side
    reqs, req_of = [], {}
    for i, rec in enumerate(recs):
        if 'desc' in rec and all(not d[0].startswith('?') for d in rec['desc']):
            toks = [U.stmt_token(j, d) for j, d in enumerate(rec['desc'])]
            req_of[i] = len(reqs)
            reqs.append('ofscript ' + (' '.join(toks) if toks else '-'))
    hoist_of = {}
    for i, c in enumerate(cases):
        if c['gen']:
            toks = [U.stmt_token(j, d) for j, d in enumerate(c['gen']['truth'])]
            hoist_of[i] = len(reqs)
            reqs.append('hoist ' + ' '.join(toks))
    reqs.append('ofscript v:7670:e0 a:0:44535f72:e1')      # the Lean `viralWitness`, by shape
    answers = ck.driver('TextScheme', reqs)
    if answers[-1] != 'items=T1:44535f72:e1:0;rulesets=;udos=;script=a:0:44535f72:e1;hoisted=1;noviral=0':
        V.disagree.append(('K:driver self-test', 'driver answer for the viral witness changed: %s' % answers[-1], None))

    phases['driver'] = round(time.time() - t0, 1)
    # ------------------------------------------------------------------ classify
    hist_kind, hist_stage, hist_origin = collections.Counter(), collections.Counter(), collections.Counter()
    n_stmt = 0
    for i, (c, rec) in enumerate(zip(cases, recs)):
        lean = parse_lean_answer(answers[req_of[i]]) if i in req_of else None
        st = classify(rec, lean, c, V, reserved)
        org = c['origin'].split(':')[0] + (':viral' if c['origin'].endswith(':viral') else '')
        hist_stage['%s/%s' % (org, st)] += 1
        if st == 'unparsed':
            if c['gen'] is not None:
                V.disagree.append(('K:generator', 'a generated script does not parse: %s' % (rec.get('parse_error') or rec.get('timeout')), {'script': c['text']}))
            continue
        hist_origin[org] += 1
        for d in rec.get('desc', []):
            hist_kind[d[0]] += 1
        n_stmt += len(rec.get('desc', []))
        ck.count(('analyze', U.sha(c['text'])), nontrivial=len(rec.get('desc', [])) > 0)
        # ground truth by construction + independent text split (generated scripts only)
        if c['gen'] is not None and 'desc' in rec:
            truth = c['gen']['truth']
            oracle = U.text_oracle(c['text'])
            if oracle != [(k, n) for k, n, _ in truth]:
                V.disagree.append(('K:text oracle', 'regex split of a generated script disagrees with the generator', {'script': c['text'], 'oracle': oracle}))
            hoisted = answers[hoist_of[i]].split(' ') if answers[hoist_of[i]] != '-' else []
            hk = [(t.split(':')[0], t.split(':')[2] if t[0] in 'ar' else t.split(':')[1]) for t in hoisted]
            dk = [({'A': 'a', 'P': 'a', 'H': 'r', 'D': 'r', 'U': 'u', 'V': 'v'}[d[0]], U.hexs(d[1])) for d in rec['desc']]
            n_defs = sum(1 for x in hk if x[0] != 'a')
            if hk[:n_defs] != dk[:n_defs] or sorted(hk[n_defs:]) != sorted(dk[n_defs:]):
                V.disagree.append(('K:hoist', 'create_ast children are not the block hoisting of the source statements', {'script': c['text'], 'model': hk, 'real': dk}))
            if 'items' in rec:
                t_as = sorted((n, k == 'P') for k, n, _ in truth if k in 'AP')
                g_as = sorted((it[1], it[2]) for it in rec['items'])
                if t_as != g_as:
                    V.violation('ast_to_sdmx:transformations are not the assignments (result name / persistence / count)',
                                {'script': c['text'], 'origin': c['origin']}, 'ground truth %r, scheme %r' % (t_as[:6], g_as[:6]))
                t_rs = sorted((n, k, sc) for k, n, sc in truth if k in 'HD')
                g_rs = sorted((r[4].split(' ruleset ', 1)[-1], {'datapoint': 'D', 'hierarchical': 'H'}.get(r[1]), r[2]) for r in rec['rulesets'])
                if t_rs != g_rs:
                    V.violation('ast_to_sdmx:rulesets of the scheme are not the rulesets of the script (name / type / scope / count)',
                                {'script': c['text'], 'origin': c['origin']}, 'ground truth %r, scheme %r' % (t_rs[:6], g_rs[:6]))
                t_us = sorted(n for k, n, _ in truth if k == 'U')
                g_us = sorted(u[2].split('UserDefinedOperator ', 1)[-1] for u in rec['udos'])
                if t_us != g_us:
                    V.violation('ast_to_sdmx:operators of the scheme are not the operators of the script (name / count)',
                                {'script': c['text'], 'origin': c['origin']}, 'ground truth %r, scheme %r' % (t_us, g_us))
        if rec.get('stage') == 'done' and len(rec.get('desc', [])) >= 3:
            ck.sample({'origin': c['origin'], 'statements': [d[0] + ':' + str(d[1]) for d in rec['desc']][:8],
                       'items': [it[:3] for it in rec['items']][:6]}, cap=6)

    # ------------------------------------------------------------------ (c) run(text) vs run(scheme)
    run_jobs = []
    gen_ok = [i for i, c in enumerate(cases) if c['gen'] is not None and recs[i].get('stage') == 'done']
    wit = [i for i, c in enumerate(cases) if c['origin'].startswith('witness:')]
    n_run_gen, n_run_corpus = (40, 50) if quick else (300, 500)
    for i in rng.sample(gen_ok, min(n_run_gen, len(gen_ok))):
        g = cases[i]['gen']
        run_jobs.append({'id': i, 'text': cases[i]['text'], 'structures': g['structures'], 'datapoints': g['datapoints'], 'budget': 90})
    wg = U.gen_script(random.Random(ck.seed + 5), reserved, viral=True)
    gg = U.gen_script(random.Random(ck.seed + 6), reserved, viral=False)
    for i in wit:
        if cases[i]['origin'] in ('witness:definitions-only',):
            continue
        g = wg if cases[i]['origin'] == 'witness:viral' else gg
        dp = dict(g['datapoints'])
        if cases[i]['origin'] == 'witness:viral':
            dp = {'DS_1': (['Id_1', 'Me_1', 'VAt_1'], [[1, 10.0, 'C'], [2, 20.0, 'N'], [3, 30.0, 'F']]),
                  'DS_2': (['Id_1', 'Me_1', 'VAt_1'], [[1, 5.0, 'N'], [2, 15.0, 'F'], [3, 25.0, 'F']])}
        elif cases[i]['origin'] in ('witness:float-literal', 'witness:join-body-aggr'):
            dp = {'DS_1': (['Id_1', 'Id_2', 'Me_1', 'Me_2'], [[1, 'A', 1.0, 2.0], [2, 'B', 3.5, None]]),
                  'DS_2': (['Id_1', 'Id_2', 'Me_1', 'Me_2'], [[1, 'A', 4.0, 2.0], [2, 'B', 1.5, 7.0]])}
        run_jobs.append({'id': i, 'text': cases[i]['text'], 'structures': g['structures'], 'datapoints': dp, 'budget': 90})
    with_data = []
    for i, c in enumerate(cases):
        if c['origin'].startswith('corpus:') and recs[i].get('stage') in ('done', 'check_script', 'reparse_all') and 'random(' not in c['text']:
            inp = U.corpus_inputs(c['path'])
            if inp:
                with_data.append((i, inp))
    for i, inp in rng.sample(with_data, min(n_run_corpus, len(with_data))):
        j = {'id': i, 'text': cases[i]['text'], 'budget': 120}
        j.update(inp)
        run_jobs.append(j)
    if ck.replay_path and cases:
        r = json.load(open(ck.replay_path))
        r = r.get('replay') or r.get('detail') or {}
        if not isinstance(r, dict):
            r = {}
        if r.get('structures'):
            run_jobs = [{'id': 0, 'text': cases[0]['text'], 'structures': r['structures'], 'datapoints': r['datapoints'], 'budget': 120}]
        elif r.get('inputs'):
            run_jobs = [dict({'id': 0, 'text': cases[0]['text'], 'budget': 120}, **r['inputs'])]
        else:
            run_jobs = []
    for n, j in enumerate(run_jobs):
        j['persistent_check'] = (n % 3 == 0)      # return_only_persistent=True on both sides for a third of them
    rres = pmap(U.run_pair, run_jobs, 1, 120)
    late = [n for n, r in enumerate(rres) if r.get('timeout')]
    if late:
        again = pmap(U.run_pair, [dict(run_jobs[n], budget=run_jobs[n]['budget'] * 4) for n in late], 1, 480)
        for n, r in zip(late, again):
            rres[n] = r
    pool.terminate()
    pool.join()
    phases['run'] = round(time.time() - t0, 1)
    hist_run = collections.Counter()
    same_err = collections.Counter()
    if os.environ.get('C25_DEBUG'):
        json.dump([[cases[j['id']]['origin'], cases[j['id']]['text'], r] for j, r in zip(run_jobs, rres)], open(os.environ['C25_DEBUG'], 'w'), indent=1, default=str)
    for job, rr in zip(run_jobs, rres):
        c = cases[job['id']]
        org = c['origin'].split(':')[0]
        rp = {'script': c['text'], 'origin': c['origin']}
        if 'structures' in job:
            rp['structures'], rp['datapoints'] = job['structures'], job['datapoints']
        else:
            rp['inputs'] = {k: job[k] for k in ('json_files', 'vd_files', 'sql_files')}
        if rr.get('timeout') or rr.get('recursion'):
            hist_run[org + '/budget'] += 1
            continue
        if 'generate_error' in rr:
            hist_run[org + '/generate-error'] += 1      # already classified in (a)
            continue
        both_ok = rr['text_outcome'] == 'ok' and rr['scheme_outcome'] == 'ok'
        ck.count(('run', U.sha(c['text'])), nontrivial=both_ok and rr.get('n_results', 0) > 0)
        if rr.get('diff') is None:
            hist_run['%s/%s' % (org, 'equal' if both_ok else 'same-error')] += 1
            if not both_ok:
                same_err['%s %s' % tuple((rr.get('err_text') or ['?', '?'])[:2])] += 1
            if both_ok and 'persistent_names_text' in rr and rr['persistent_names_text'] != rr['persistent_names_scheme']:
                V.violation('ast_to_sdmx:persistence flag changes which results run(return_only_persistent=True) returns', rp,
                            '%r vs %r' % (rr.get('persistent_names_text'), rr.get('persistent_names_scheme')))
            continue
        hist_run[org + '/differ'] += 1
        # attribute the difference to a construct already classified for this script, else report it as such
        rec = recs[job['id']]
        desc = rec.get('desc', [])
        dkeys = [df for df in rec.get('diffs', []) if df['what'] != 'regenerated']
        if any(d[0] == 'V' for d in desc) and not re.search(r'define\s+viral\s+propagation', rec.get('regenerated') or ''):
            V.violation('ast_to_sdmx:ViralPropagationDef dropped', rp, 'run(scheme) differs from run(script): %s' % rr['diff'][:200])
        elif rr.get('err_scheme') and 'must contain at least one Transformation' in str(rr['err_scheme']):
            V.artefacts['definitions-only script: pysdmx model validation requires >= 1 Transformation'] += 1
        elif dkeys:
            pass    # the re-parse difference of this script is already reported under its construct key
        else:
            V.violation('run(scheme) differs from run(script) although every item re-parses to the original AST', rp, rr['diff'][:300])

    # ------------------------------------------------------------------ verdict
    if not pr['ok']:
        if not V.viol:
            ck.unproved('Props/C25', 'lake build / audit of VtlModel.Props.C25 failed: %s %s %s' % (pr['failed'], pr['forbidden'], pr['bad_axioms']), pr['log'][-1500:])
        else:
            V.disagree.append(('Props/C25', 'lake build / audit failed: %s' % pr['failed'], pr['log'][-1500:]))
    V.flush()

    # ------------------------------------------------------------------ evidence
    ck.note('statement_kind_histogram', dict(hist_kind))
    ck.note('statements_evaluated', n_stmt)
    ck.note('scripts_by_origin', dict(hist_origin))
    ck.note('analysis_outcomes', dict(hist_stage))
    ck.note('run_equivalence_outcomes', dict(hist_run))
    ck.note('run_same_error_on_both_sides', dict(same_err))
    ck.note('constructs_breaking_the_property', dict(V.keys_seen))
    ck.note('excluded_or_artefact', dict(V.artefacts))
    ck.note('normalisations_used_in_ast_comparison', dict(V.norms))
    ck.note('corpus_scripts_total', len(U.corpus_files(repo)))
    ck.cov['traces_validated_against_impl'] = sum(hist_origin.values())
    ck.trusted('stand-in parser harness/vtlstub (textual entry points create_ast / generate_sdmx run on it)',
               'pysdmx 1.19 model classes and generate_vtl_script/model_validations (observed, modelled by toScript)',
               'harness/checks/c25_util.py: structural AST comparison (positions ignored; explicit-default modes and hierarchical rule order normalised), row-set comparison with tolerance 1e-9',
               'DuckDB / pandas for the run() comparison')
    ck.assumptions.append('Statement bodies are opaque strings in the Lean model: that ASTString text re-parses to the same AST and that run(scheme)=run(script) is tie-only (K), established on the sampled scripts, not proved.')
    ck.assumptions.append('The topological order create_ast gives the assignments is C12\'s subject; C25 takes ast.children as given and checks only its block order (Hoisted).')
    ck.assumptions.append('A script without any assignment cannot be run as a scheme (pysdmx model validation requires one Transformation); such scripts are excluded from run equivalence.')
    phases['total'] = round(time.time() - t0, 1)
    ck.note('wall_phases_cumulative_s', phases)


vlib.run_check('C25', main)

"""Real-engine side of the Session group (C16, C17): case generation, fault injection at hook events,
observation of leftovers, forced thread interleavings.  Used by c16.py / c17.py (in worker processes)."""
from __future__ import annotations

import gc
import json
import os
import shutil
import sys
import threading
import time

HERE = os.path.dirname(os.path.abspath(__file__))
sys.path.insert(0, os.path.join(HERE, '..'))

BODY_KINDS = ('load', 'stmt', 'drop', 'fetch', 'results')
FMTS = ['vtl', 'sdmx_gregorian', 'sdmx_reporting', 'natural']

DS = lambda name: {"name": name, "DataStructure": [
    {"name": "Id_1", "type": "Integer", "role": "Identifier", "nullable": False},
    {"name": "Me_1", "type": "Number", "role": "Measure", "nullable": True}]}
STRUCTS = {"datasets": [DS("DS_1"), DS("DS_2")]}
ROWS = {"DS_1": [(1, 1.123456789), (2, 2.5), (3, None), (4, 10.0)], "DS_2": [(1, 3.0), (2, 0.25), (4, 7.0), (5, 1.0)]}


class Fault(Exception):
    """raised from the sink: the injected failure"""


# ------------------------------------------------------------------ case generation (pure, seeded)
def gen_script(rng, n=None):
    n = n or rng.randint(1, 5)
    names, stmts = [], []
    for i in range(1, n + 1):
        last = i == n
        persistent = last or rng.random() < 0.55
        res = ('DS_r%d' if persistent else 'DS_t%d') % i
        srcs = ['DS_1', 'DS_2'] + names
        a = rng.choice(srcs)
        k = rng.choice(['add', 'mul', 'filter', 'bin', 'calc', 'div'])
        if k == 'add': e = '%s + %d' % (a, rng.randint(1, 9))
        elif k == 'mul': e = '%s * %d' % (a, rng.randint(2, 5))
        elif k == 'div': e = '%s / 3' % a
        elif k == 'filter': e = '%s[filter Me_1 > %d]' % (a, rng.randint(0, 3))
        elif k == 'calc': e = '%s[calc Me_2 := Me_1 * %d][keep Me_2][rename Me_2 to Me_1]' % (a, rng.randint(2, 4))
        else: e = '%s + %s' % (a, rng.choice(srcs))
        stmts.append('%s %s %s;' % (res, '<-' if persistent else ':=', e))
        names.append(res)
    return '\n'.join(stmts)


def gen_case(rng, cid):
    return {'id': cid, 'script': gen_script(rng), 'csv': rng.random() < 0.5, 'out': rng.random() < 0.4,
            'inmem': rng.random() < 0.5, 'rop': rng.random() < 0.7, 'fmt': rng.randrange(4)}


# ------------------------------------------------------------------ engine boot (inside a worker)
_ENG = {}


def boot(tmp_root):
    """import the engine once per process; private VTL_TEMP_DIRECTORY per process"""
    if _ENG:
        return _ENG
    td = os.path.join(tmp_root, 'vtltmp_%d' % os.getpid())
    os.makedirs(td, exist_ok=True)
    os.environ['VTL_TEMP_DIRECTORY'] = td
    import eng
    import duckdb
    import pandas as pd
    import vtlengine._verif as V
    import vtlengine.duckdb_transpiler.Config.config as C
    from vtlengine.DataTypes.TimeHandling import TimePeriodConfig
    import vtlengine.Exceptions as E
    import vtlengine
    created = []
    real_connect = duckdb.connect

    def connect(*a, **kw):
        c = real_connect(*a, **kw)
        created.append(c)
        return c
    duckdb.connect = connect
    _ENG.update(eng=eng, duckdb=duckdb, pd=pd, V=V, C=C, TPC=TimePeriodConfig, E=E, vtlengine=vtlengine, td=td,
                created=created, root=tmp_root, real_connect=real_connect)
    return _ENG


def reset_globals():
    g = _ENG
    g['C'].DECIMAL_WIDTH, g['C'].DECIMAL_SCALE = 28, 10
    g['TPC']._representation = 'vtl'
    g['E'].dataset_output = None
    for v in ('OUTPUT_NUMBER_SIGNIFICANT_DIGITS', 'VTL_DUCKDB_DECIMAL_WIDTH', 'VTL_MEMORY_LIMIT', 'VTL_THREADS',
              'VTL_MAX_TEMP_DIRECTORY_SIZE', 'VTL_USE_IN_MEMORY_DB'):
        os.environ.pop(v, None)


def inputs_for(case, workdir):
    g = _ENG
    pd = g['pd']
    dps = {}
    for name, rows in ROWS.items():
        df = pd.DataFrame({'Id_1': [r[0] for r in rows], 'Me_1': [r[1] for r in rows]})
        if case.get('bad_csv') == name:
            p = os.path.join(workdir, name + '.csv')
            open(p, 'w').write('Id_1,Me_1\n1,abc\n')
            dps[name] = p
        elif case['csv']:
            p = os.path.join(workdir, name + '.csv')
            df.to_csv(p, index=False)
            dps[name] = p
        else:
            dps[name] = df
    return dps


def canon_results(res):
    eng = _ENG['eng']
    out = {}
    for k, v in res.items():
        if hasattr(v, 'components'):
            comps, rows, _ = eng.canon_dataset(v)
            out[k] = ['ds', [list(c) for c in comps], [list(r) for r in rows] if rows is not None else None]
        else:
            out[k] = ['sc', getattr(v, 'value', None)]
    return out


def results_equal(a, b, tol=1e-12):
    if a is None or b is None: return a is b
    if set(a) != set(b): return False
    for k in a:
        x, y = a[k], b[k]
        if x[0] != y[0]: return False
        if x[0] == 'sc':
            if not _veq(x[1], y[1], tol): return False
            continue
        if x[1] != y[1]: return False
        if (x[2] is None) != (y[2] is None): return False
        if x[2] is not None:
            if len(x[2]) != len(y[2]): return False
            for r1, r2 in zip(x[2], y[2]):
                if len(r1) != len(r2) or not all(_veq(p, q, tol) for p, q in zip(r1, r2)): return False
    return True


def _veq(p, q, tol):
    if isinstance(p, float) or isinstance(q, float):
        if p is None or q is None: return p is q
        try: return p == q or abs(p - q) <= tol * max(1.0, abs(p), abs(q))
        except TypeError: return False
    return p == q


def ev_name(kind, info):
    return 'write' if kind == 'fetch' and info is not None else kind


def listing(td):
    dirs, files = [], []
    for root, d, f in os.walk(td):
        for x in d: dirs.append(os.path.relpath(os.path.join(root, x), td))
        for x in f: files.append(os.path.relpath(os.path.join(root, x), td))
    return dirs, files


def fds_into(path):
    n = 0
    for fd in os.listdir('/proc/self/fd'):
        try:
            t = os.readlink('/proc/self/fd/' + fd)
        except OSError:
            continue
        if t.startswith(path): n += 1
    return n


def conn_closed(c):
    try:
        c.execute('select 1')
        return False
    except Exception as e:  # noqa: BLE001
        return 'closed' in str(e).lower() or type(e).__name__ == 'ConnectionException'


def run_once(case, workdir, fault_at=None, env=None, guard_s=600):
    """One real run() of `case` with an optional injected fault at event index `fault_at` and optional extra
    environment variables.  Returns the observation dict (events, outcome, leftovers, globals)."""
    g = _ENG
    V, C, TPC, eng = g['V'], g['C'], g['TPC'], g['eng']
    from vtlengine import run
    td = g['td']
    for x in os.listdir(td):
        shutil.rmtree(os.path.join(td, x), ignore_errors=True)
    del g['created'][:]
    os.environ['VTL_USE_IN_MEMORY_DB'] = '1' if case['inmem'] else '0'
    for k, v in (env or {}).items(): os.environ[k] = v
    events, seen, names = [], [], {}
    t0 = time.time()
    hazard = [False]

    def sink(kind, name, info):
        if kind == 'access': return
        if time.time() - t0 > guard_s: raise TimeoutError('wall-clock guard')
        idx = len(events)
        events.append(ev_name(kind, info))
        if kind in ('load', 'stmt', 'drop', 'fetch'): names.setdefault(name, len(names) + 1)
        if kind == 'connected': seen.extend([C.DECIMAL_WIDTH, C.DECIMAL_SCALE])
        if kind == 'rmtree' and any(not conn_closed(c) for c in g['created']): hazard[0] = True
        if fault_at is not None and idx == fault_at: raise Fault(idx)
        if kind == 'fetch': seen.append(FMTS.index(TPC._representation) if TPC._representation in FMTS else -1)
        ops.append((kind, name, info))
    ops = []
    outdir = None
    if case['out']:
        outdir = os.path.join(workdir, 'out_%d' % (fault_at if fault_at is not None else -1))
    dps = inputs_for(case, workdir)
    V.sink = sink
    try:
        out = eng.outcome(run, case['script'], STRUCTS, dps, return_only_persistent=case['rop'],
                          output_folder=outdir, time_period_output_format=FMTS[case['fmt']])
    finally:
        V.sink = None
        for k in (env or {}): os.environ.pop(k, None)
    res = canon_results(out[1]) if out[0] == 'ok' else None
    dirs, files = listing(td)
    unclosed = sum(1 for c in g['created'] if not conn_closed(c))
    fds_held = fds_into(td)
    ncreated = len(g['created'])
    del g['created'][:]
    gc.collect()
    live = sum(1 for o in gc.get_objects() if type(o).__name__ == 'DuckDBPyConnection')
    fds_after = fds_into(td)
    left = []
    if any(d.startswith('duckdb_tmp_') and '/' not in d for d in dirs): left.append('dir')
    if unclosed: left.append('conn')
    if any(f.endswith('.duckdb') or f.endswith('.wal') for f in files): left.append('file')
    return {'events': events, 'outcome': ('ok',) if out[0] == 'ok' else tuple(out[:3]) + ((out[3][:160],) if len(out) > 3 else ()),
            'msg': out[3][:300] if len(out) > 3 else (out[2][:300] if out[0] == 'raw' else ''),
            'result': res, 'left': left, 'dirs': dirs[:4], 'files': files[:4], 'created': ncreated, 'unclosed': unclosed,
            'fds_held': fds_held, 'fds_after_gc': fds_after, 'live_after_gc': live, 'seen': seen, 'hazard': hazard[0],
            'dec': [C.DECIMAL_WIDTH, C.DECIMAL_SCALE], 'names': names,
            'ops': [(ev_name(k, i), n) for (k, n, i) in ops if k in BODY_KINDS]}


def ops_tokens(events_ops, names):
    """body events of a fault-free run -> driver tokens (L<i> S<i> D<i> F<i> W<i> R)"""
    t = []
    for kind, name in events_ops:
        if kind == 'results': t.append('R')
        else: t.append({'load': 'L', 'stmt': 'S', 'drop': 'D', 'fetch': 'F', 'write': 'W'}[kind] + str(names.get(name, 0)))
    return t


# ------------------------------------------------------------------ C16 worker tasks
def task_fault_campaign(arg):
    """baseline + a fault at EVERY event index of one generated case"""
    case, tmp_root = arg
    boot(tmp_root)
    reset_globals()
    workdir = os.path.join(tmp_root, 'case_%s_%d' % (case['id'], os.getpid()))
    os.makedirs(workdir, exist_ok=True)
    try:
        base = run_once(case, workdir)
        runs = []
        if base['outcome'][0] == 'ok':
            for k in range(len(base['events'])):
                reset_globals()
                runs.append(run_once(case, workdir, fault_at=k))
        for r in [base] + runs: r.pop('result', None)
        return {'case': case, 'base': base, 'runs': runs}
    finally:
        shutil.rmtree(workdir, ignore_errors=True)
        reset_globals()


NATURAL = [('OUTPUT_NUMBER_SIGNIFICANT_DIGITS', '3'), ('OUTPUT_NUMBER_SIGNIFICANT_DIGITS', '16'),
           ('VTL_DUCKDB_DECIMAL_WIDTH', '3'), ('VTL_DUCKDB_DECIMAL_WIDTH', 'x'),
           ('VTL_MEMORY_LIMIT', 'abc'), ('VTL_THREADS', 'x'), ('VTL_MAX_TEMP_DIRECTORY_SIZE', 'zz')]


def task_natural(arg):
    """failures that need no injection: a rejected environment variable, a malformed CSV, a semantic error"""
    case, tmp_root = arg
    boot(tmp_root)
    workdir = os.path.join(tmp_root, 'nat_%s_%d' % (case['id'], os.getpid()))
    os.makedirs(workdir, exist_ok=True)
    out = []
    try:
        for var, val in NATURAL:
            reset_globals()
            r = run_once(case, workdir, env={var: val})
            r.pop('result', None)
            reset_env_only()
            after = run_once(case, workdir)          # same process, variable unset again, globals NOT reset
            after.pop('result', None)
            out.append({'kind': 'env', 'var': var, 'val': val, 'run': r, 'after': after})
        reset_globals()
        c2 = dict(case, csv=True, bad_csv='DS_1')
        r = run_once(c2, workdir)
        r.pop('result', None)
        out.append({'kind': 'bad_csv', 'run': r})
        return {'case': case, 'nat': out}
    finally:
        shutil.rmtree(workdir, ignore_errors=True)
        reset_globals()


def reset_env_only():
    for v in ('OUTPUT_NUMBER_SIGNIFICANT_DIGITS', 'VTL_DUCKDB_DECIMAL_WIDTH', 'VTL_MEMORY_LIMIT', 'VTL_THREADS',
              'VTL_MAX_TEMP_DIRECTORY_SIZE'):
        os.environ.pop(v, None)


def apply_failing(kind, case, workdir, nevents):
    """one failing run of a history; returns its observation"""
    if kind[0] == 'fault':
        return run_once(case, workdir, fault_at=min(kind[1], nevents - 1))
    if kind[0] == 'env':
        return run_once(case, workdir, env={kind[1]: kind[2]})
    if kind[0] == 'env+fault':
        return run_once(case, workdir, env={kind[1]: kind[2]}, fault_at=min(kind[3], nevents - 1))
    if kind[0] == 'bad_csv':
        return run_once(dict(case, csv=True, bad_csv='DS_1'), workdir)
    if kind[0] == 'semantic':
        return run_once(dict(case, script='DS_r1 <- DS_1 + DS_nope;'), workdir)
    raise ValueError(kind)


def task_history(arg):
    """good run alone, then <=3 failing runs, then the good run again: same results?"""
    good, fails, tmp_root = arg
    boot(tmp_root)
    reset_globals()
    workdir = os.path.join(tmp_root, 'hist_%s_%d' % (good['id'], os.getpid()))
    os.makedirs(workdir, exist_ok=True)
    try:
        solo = run_once(good, workdir)
        n = len(solo['events'])
        steps = []
        for fcase, kind in fails:
            o = apply_failing(kind, fcase, workdir, n if fcase is good else 10 ** 6)
            o.pop('result', None)
            steps.append({'kind': kind, 'obs': o})
        after = run_once(good, workdir)
        same = (solo['outcome'][0] == after['outcome'][0]) and results_equal(solo['result'], after['result']) \
            and solo['events'] == after['events']
        culprit = None
        if not same:
            for fcase, kind in fails:
                reset_globals()
                s2 = run_once(good, workdir)
                apply_failing(kind, fcase, workdir, n if fcase is good else 10 ** 6)
                a2 = run_once(good, workdir)
                if not ((s2['outcome'][0] == a2['outcome'][0]) and results_equal(s2['result'], a2['result'])):
                    culprit = kind
                    break
        rs, ra = solo.pop('result'), after.pop('result')
        diff = None
        if not same:
            diff = {'solo': json.loads(json.dumps(rs, default=str))if rs else None, 'after': json.loads(json.dumps(ra, default=str)) if ra else None}
        return {'good': good, 'fails': [(c['id'], k) for c, k in fails], 'solo': solo, 'after': after, 'steps': steps,
                'same': same, 'culprit': culprit, 'diff': diff}
    finally:
        shutil.rmtree(workdir, ignore_errors=True)
        reset_globals()


def task_setdec_grid(arg):
    """the real set_decimal_config on a grid of (globals, environment)"""
    grid, tmp_root = arg
    boot(tmp_root)
    C = _ENG['C']
    out = []
    for (dw, ds, we, se) in grid:
        reset_globals()
        C.DECIMAL_WIDTH, C.DECIMAL_SCALE = dw, ds
        if we != '-': os.environ['VTL_DUCKDB_DECIMAL_WIDTH'] = 'x' if we == 'j' else we
        if se != '-': os.environ['OUTPUT_NUMBER_SIGNIFICANT_DIGITS'] = 'x' if se == 'j' else se
        try:
            C.set_decimal_config()
            raised = 0
        except Exception:  # noqa: BLE001
            raised = 1
        out.append((raised, C.DECIMAL_WIDTH, C.DECIMAL_SCALE))
    reset_globals()
    return out

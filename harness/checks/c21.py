"""C21 — Time_Period values round-trip through every documented input spelling and the four output formats;
the Python and the SQL implementation agree.

Lean 4 proof (Props/C21.lean over Time/Spelling) + correspondence, three-way:
  Lean `parse/render/canon/spellings`  vs  Python `check_time_period` / `TimePeriodHandler.*_representation`
  vs  SQL `vtl_period_normalize` / `vtl_period_to_*` (one vectorised query per macro), for every valid period of
  1900-2100 (quick: boundary years + sample) x every documented spelling, a year sample in 0000-9999, the examples and
  the output table of docs/data_types.rst, and end-to-end through run() (rendered output fed back as input).
"""
import os
import re
import sys

sys.path.insert(0, os.path.join(os.path.dirname(os.path.abspath(__file__)), '..'))
sys.path.insert(0, os.path.dirname(os.path.abspath(__file__)))
import vlib
import time_common as tc

ROWS = {'Annual': 'A', 'Semester': 'S', 'Quarter': 'Q', 'Monthly': 'M', 'Weekly': 'W', 'Daily': 'D'}
FMT_COL = {'vtl': 0, 'sdmx_reporting': 1, 'sdmx_gregorian': 2, 'natural': 3}
SQL_MACRO = {'vtl': 'vtl_period_to_vtl', 'sdmx_reporting': 'vtl_period_to_sdmx_reporting',
             'sdmx_gregorian': 'vtl_period_to_sdmx_gregorian', 'natural': 'vtl_period_to_natural'}
PY_METH = {'vtl': 'vtl_representation', 'sdmx_reporting': 'sdmx_reporting_representation',
           'sdmx_gregorian': 'sdmx_gregorian_representation', 'natural': 'natural_representation'}
K_PAD = 'TimePeriodHandler.__str__:year below 1000 is not zero-padded (Python) while SQL keeps four digits'
K_STRP = 'period_to_date:year below 1000: strptime on the unpadded year fails, so daily periods cannot be rendered as dates (Python)'
K_GREG = 'apply_time_period_representation:sdmx_gregorian on S/Q/W escapes as a raw duckdb error, not a VTL error'


def docs_tables():
    """Transcribe the two Time_Period list-tables of docs/data_types.rst (examples column / output formats)."""
    src = open(os.path.join(vlib.REPO, 'docs', 'data_types.rst')).read()
    a, b, c = src.find('**Accepted input formats:**'), src.find('**Output formats**'), src.find('Time_Period is a **subtype of Time**')
    if min(a, b, c) < 0 or not a < b < c:
        raise vlib.ShapeError('docs/data_types.rst: Time_Period tables not found')

    def rows(block):
        out, cur = [], None
        for line in block.split('\n'):
            if re.match(r'\s+\* - ', line):
                cur = [line.split('* - ', 1)[1]]; out.append(cur)
            elif re.match(r'\s+- ', line) and cur is not None:
                cur.append(line.split('- ', 1)[1])
            elif line.strip() and cur is not None and line.startswith('        '):
                cur[-1] += ' ' + line.strip()
        return out
    inputs = {}
    for r in rows(src[a:b]):
        if r[0].strip() in ROWS and len(r) == 3:
            inputs[ROWS[r[0].strip()]] = re.findall(r'``([^`]+)``', r[2])
    outputs = {}
    for r in rows(src[b:c]):
        m = re.match(r'``"(\w+)"``', r[0].strip())
        if m and len(r) == 7:
            outputs[m.group(1)] = [re.sub(r'`', '', x).strip() for x in r[1:]]
    if sorted(inputs) != sorted(ROWS.values()) or sorted(outputs) != sorted(FMT_COL):
        raise vlib.ShapeError('docs/data_types.rst: unexpected Time_Period tables: %r %r' % (sorted(inputs), sorted(outputs)))
    return inputs, outputs


def py_norm(s):
    from vtlengine.DataTypes._time_checking import check_time_period
    try:
        return check_time_period(s)
    except Exception as e:  # noqa: BLE001
        return 'ERR:' + type(e).__name__


def sql_map(con, macro, strings, cast_ok=True):
    """One vectorised query; on an error, fall back to per-row evaluation (only the first rows) to find the culprit."""
    import pandas as pd
    con.register('_s', pd.DataFrame({'s': strings}))
    try:
        return [r[0] for r in con.execute('SELECT %s(s) FROM _s' % macro).fetchall()]
    except Exception:  # noqa: BLE001
        out = []
        for s in strings[:3000]:
            try: out.append(con.execute('SELECT %s(?)' % macro, [s]).fetchone()[0])
            except Exception as e:  # noqa: BLE001
                out.append('ERR:' + str(e)[:60])
        return out + ['ERR:not evaluated'] * (len(strings) - len(out))


def unpad(c):
    return str(int(c[:4])) + c[4:]


def three_way(ck, con, per, label):
    """Lean vs Python vs SQL on every spelling / rendering of the given periods."""
    from vtlengine.DataTypes.TimeHandling import TimePeriodHandler
    req = ['L %s %d %d' % p for p in per] + ['R %s %d %d' % p for p in per]
    ans = tc.driver(ck, req)
    spell = [a.split(' ') for a in ans[:len(per)]]
    rend = [a.split(' ') for a in ans[len(per):]]
    # 1. every spelling and every rendering normalises to the canonical form — in Lean, Python and SQL
    strings, owner = [], []
    for p, sp, rd in zip(per, spell, rend):
        for s in dict.fromkeys(sp + [x for x in rd[:4] if x != '!']):
            strings.append(s); owner.append((p, rd[4]))
    lean = tc.driver(ck, ['X ' + s for s in strings])
    sqln = sql_map(con, 'vtl_period_normalize', strings)
    seen = set()

    def report(key, replay, what):
        if key not in seen:
            seen.add(key); ck.violation(key, replay, what)
    for s, (p, c), l, q in zip(strings, owner, lean, sqln):
        m = re.search(r'norm=(\S+)', l)
        if not m or m.group(1) != c:
            state['model_bad'].append(('parse', s, l, c)); continue
        pn = py_norm(s)
        if pn != c:
            if p[1] < 1000 and pn == unpad(c): report(K_PAD, {'input': s, 'python': pn, 'sql': q, 'expected': c}, 'check_time_period(%r) = %r' % (s, pn))
            else: report('check_time_period:%s:documented spelling not normalised to the canonical form' % p[0],
                         {'function': 'check_time_period', 'input': s, 'got': pn, 'expected': c, 'period': c}, 'check_time_period(%r) = %r, expected %r' % (s, pn, c))
        if q != c:
            report('vtl_period_normalize:%s:documented spelling not normalised to the canonical form' % p[0],
                   {'macro': 'vtl_period_normalize', 'input': s, 'got': q, 'expected': c, 'period': c}, 'vtl_period_normalize(%r) = %r, expected %r' % (s, q, c))
        if pn != q and pn != c and q != c and not pn.startswith('ERR'):
            report('python-vs-sql:%s:normalisation differs' % p[0], {'input': s, 'python': pn, 'sql': q}, 'Python %r vs SQL %r on %r' % (pn, q, s))
    ck.count((label, 'normalise', len(strings)), n=3 * len(strings))
    # 2. the four output formats
    canons = [rd[4] for rd in rend]
    for fmt, col in FMT_COL.items():
        idx = [k for k, p in enumerate(per) if fmt != 'sdmx_gregorian' or p[0] in 'AMD']
        got = sql_map(con, SQL_MACRO[fmt], [canons[k] for k in idx])
        for k, g in zip(idx, got):
            p, exp = per[k], rend[k][col]
            if g != exp:
                report('%s:%s:rendering differs from the documented format' % (SQL_MACRO[fmt], p[0]),
                       {'macro': SQL_MACRO[fmt], 'input': canons[k], 'got': g, 'expected': exp}, '%s(%r) = %r, expected %r' % (SQL_MACRO[fmt], canons[k], g, exp))
            try:
                py = getattr(TimePeriodHandler(canons[k]), PY_METH[fmt])()
            except Exception as e:  # noqa: BLE001
                py = 'ERR:' + type(e).__name__
            if py != exp:
                if p[1] < 1000 and py == unpad(exp): report(K_PAD, {'input': canons[k], 'format': fmt, 'python': py, 'sql': g, 'expected': exp}, 'TimePeriodHandler(%r).%s() = %r' % (canons[k], PY_METH[fmt], py))
                elif p[1] < 1000 and p[0] == 'D' and py == 'ERR:ValueError' and fmt in ('sdmx_gregorian', 'natural'):
                    report(K_STRP, {'input': canons[k], 'format': fmt, 'python': py, 'sql': g, 'expected': exp}, 'TimePeriodHandler(%r).%s() raises ValueError' % (canons[k], PY_METH[fmt]))
                else: report('TimePeriodHandler.%s:%s:rendering differs from the documented format' % (PY_METH[fmt], p[0]),
                             {'method': PY_METH[fmt], 'input': canons[k], 'got': py, 'expected': exp}, 'TimePeriodHandler(%r).%s() = %r, expected %r' % (canons[k], PY_METH[fmt], py, exp))
        ck.count((label, fmt, len(idx)), n=2 * len(idx))
    # 3. canonical form is a fixed point of both normalisers, and the canonical string is what the model says
    for p, c in zip(per, canons):
        if c != tc.canon(*p): state['model_bad'].append(('canon', p, c, tc.canon(*p)))


def gregorian_unsupported(ck, con):
    """S, Q, W under sdmx_gregorian: both implementations must raise the VTL error 2-1-19-21 (never a value)."""
    from vtlengine.DataTypes.TimeHandling import TimePeriodHandler
    ans = tc.driver(ck, ['R %s 2020 1' % i for i in tc.INDS])
    for i, a in zip(tc.INDS, ans):
        lean_err = a.split(' ')[2] == '!'
        c = tc.canon(i, 2020, 1)
        try:
            r = con.execute("SELECT vtl_period_to_sdmx_gregorian('%s')" % c).fetchone()[0]; sql_err = False
        except Exception as e:  # noqa: BLE001
            sql_err = '2-1-19-21' in str(e); r = str(e)[:80]
        try:
            TimePeriodHandler(c).sdmx_gregorian_representation(); py_err = False
        except Exception as e:  # noqa: BLE001
            py_err = '2-1-19-21' in str(getattr(e, 'args', ''))
        ck.count(('gregorian', i))
        if lean_err != (i in 'SQW'): state['model_bad'].append(('gregorian', i, lean_err, i in 'SQW'))
        if sql_err != (i in 'SQW'):
            ck.violation('vtl_period_to_sdmx_gregorian:%s:error branch differs from the documentation' % i, {'input': c, 'got': r, 'error_expected': i in 'SQW'}, 'gregorian %s' % c)
        if py_err != (i in 'SQW'):
            ck.violation('TimePeriodHandler.sdmx_gregorian_representation:%s:error branch differs from the documentation' % i, {'input': c, 'error_expected': i in 'SQW'}, 'gregorian %s' % c)


def docs_check(ck, con):
    """The examples and the output table of the documentation against Lean, Python and SQL."""
    inputs, outputs = docs_tables()
    ex = [(i, e) for i, es in inputs.items() for e in es]
    lean = tc.driver(ck, ['X ' + e for _, e in ex])
    sqln = sql_map(con, 'vtl_period_normalize', [e for _, e in ex])
    for (i, e), l, q in zip(ex, lean, sqln):
        ck.count(('docs-example', e))
        m = re.search(r'parse=(\w) (\d+) (\d+) norm=(\S+)', l)
        pn = py_norm(e)
        if m and m.group(1) == i:
            c = m.group(4)
            if pn != c or q != c:
                ck.violation('docs:data_types.rst:example %s is not read as %s' % (e, c), {'example': e, 'python': pn, 'sql': q, 'expected': c}, 'documented example %r' % e)
        else:
            # the model (= the Formats column) does not read this example: what do the implementations do?
            if pn.startswith('ERR') or tc.parse_canon(q or '') is None:
                ck.violation('docs:data_types.rst:%s example %s is documented but not an accepted spelling' % ({v: k for k, v in ROWS.items()}[i], e),
                             {'example': e, 'python': pn, 'sql': q, 'formats_column': 'no format of the row produces it'},
                             'documented example %r: Python %s, SQL %r' % (e, pn, q))
            else:
                ck.unproved('docs:input-spelling:%s' % e, 'documented example %r is accepted by the code (%s) but not by the model Spelling.parse' % (e, pn))
    # output table: every cell is what `render` produces, in that format, for the period the cell denotes
    cells = [(fmt, col, cell) for fmt, cs in outputs.items() for col, cell in enumerate(cs)]
    readable = [c for c in cells if c[2] != 'Not supported']
    lean = tc.driver(ck, ['X ' + c[2] for c in readable])
    pers = []
    for (fmt, col, cell), l in zip(readable, lean):
        m = re.search(r'parse=(\w) (\d+) (\d+)', l)
        if not m or m.group(1) != 'ASQMWD'[col]:
            state['model_bad'].append(('docs-output', (fmt, cell), l, 'a %s period' % 'ASQMWD'[col]))
        pers.append(m.groups() if m else ('A', '2020', '1'))
    rr = tc.driver(ck, ['R %s %s %s' % p for p in pers])
    for (fmt, col, cell), r in zip(readable, rr):
        ck.count(('docs-output', fmt, col))
        if r.split(' ')[FMT_COL[fmt]] != cell:
            state['model_bad'].append(('docs-output', (fmt, cell), r.split(' ')[FMT_COL[fmt]], cell))
    rr = tc.driver(ck, ['R %s 2020 1' % i for i in tc.INDS])
    for fmt, col, cell in cells:
        if (cell == 'Not supported') != (rr[col].split(' ')[FMT_COL[fmt]] == '!'):
            state['model_bad'].append(('docs-output', (fmt, 'ASQMWD'[col]), rr[col].split(' ')[FMT_COL[fmt]], cell))


def e2e(ck, n_cases):
    import time_e2e
    ds = time_e2e.run_e2e(tc.DriverProxy(ck), ck.rng, n_cases, years=tc.BOUNDARY_YEARS, ops=['format_roundtrip'])
    for d in ds:
        if d['predicate'] == 'raw-error' and d['got'] and (d['got'][0] == 'Timeout' or 'wall-clock guard' in str(d['got'])): continue
        fmt = d['params'].get('fmt')
        if d['predicate'] == 'raw-error' and fmt == 'sdmx_gregorian' and d['ind'] in 'SQW' and d.get('model_predicts') and '2-1-19-21' in str(d['got']):
            key = K_GREG
        else:
            key = 'run:output format %s:%s:%s' % (fmt, d['ind'], d['predicate'])
        ck.violation(key, {'through': 'vtlengine.run', 'case': d['replay'], 'input': d['input'], 'got': d['got'], 'expected': d['expected']},
                     'time_period_output_format=%s on %s: %s — input %s, got %s' % (fmt, d['ind'], d['predicate'], d['input'], str(d['got'])[:160]))
    ck.cov['traces_validated_against_impl'] += n_cases


def spellings_through_run(ck, per):
    """Every documented spelling as input datapoints of a real run(); the output must be the period's rendering."""
    import eng, pandas as pd
    from vtlengine import run
    ans = tc.driver(ck, ['L %s %d %d' % p for p in per] + ['R %s %d %d' % p for p in per])
    rows = [(s, r.split(' ')[1]) for a, r in zip(ans[:len(per)], ans[len(per):]) for s in dict.fromkeys(a.split(' '))]
    ds = eng.structure('DS_1', [eng.comp('Id_1', 'Integer', 'Identifier'), eng.comp('Me_1', 'Time_Period', 'Measure')])
    df = pd.DataFrame({'Id_1': list(range(len(rows))), 'Me_1': [s for s, _ in rows]})
    o = eng.outcome(run, script='DS_r <- DS_1;', data_structures=eng.structures(ds), datapoints={'DS_1': df}, time_period_output_format='sdmx_reporting')
    ck.count(('spellings-through-run', len(rows)), n=len(rows))
    if o[0] != 'ok':
        ck.violation('run:documented spellings as input are rejected', {'error': o[1:], 'n': len(rows)}, 'run() on %d documented spellings: %s' % (len(rows), str(o[1:])[:200])); return
    out = dict(zip(o[1]['DS_r'].data['Id_1'], o[1]['DS_r'].data['Me_1']))
    for k, (s, exp) in enumerate(rows):
        if out.get(k) != exp:
            ck.violation('run:documented spelling read as a different period', {'input': s, 'got': out.get(k), 'expected': exp}, 'input %r comes out as %r, expected %r' % (s, out.get(k), exp)); break


state = {'model_bad': []}


def replay(ck):
    import json
    r = json.load(open(ck.replay_path)).get('replay') or {}
    print('replaying', json.dumps(r, default=str)[:400])
    if 'case' in r:
        import time_e2e
        ds = time_e2e.run_e2e(tc.DriverProxy(ck), ck.rng, 0, cases=[r['case']])
        for d in ds: print('  still disagrees:', d['op'], d['predicate'], d['input'], str(d['got'])[:200])
        sys.exit(1 if ds else 0)
    s = r.get('input') or r.get('example')
    if not isinstance(s, str):
        print('  (nothing replayable in this file)'); sys.exit(2)
    con = tc.connect()
    lean = tc.driver(ck, ['X ' + s])[0]
    macro = r.get('macro') or 'vtl_period_normalize'
    got_sql = sql_map(con, macro, [s])[0]
    print('  model: %s\n  check_time_period: %s\n  %s: %s\n  expected: %s' % (lean, py_norm(s), macro, got_sql, r.get('expected')))
    exp = r.get('expected')
    sys.exit(0 if exp is not None and got_sql == exp and (macro != 'vtl_period_normalize' or py_norm(s) == exp) else 1)


def main(ck):
    if ck.replay_path:
        return replay(ck)
    tc.gen_macros(ck)            # Props/C21 ties the canonical widths to the SQL LPAD table
    pr = ck.proof('C21')
    quick = ck.quick()
    con = tc.connect()
    docs_err = None
    try:
        docs_check(ck, con)
    except vlib.ShapeError as e:
        docs_err = str(e)
    years = sorted(set(tc.BOUNDARY_YEARS) | set(ck.rng.sample(range(1900, 2101), 3))) if quick else list(range(1900, 2101))
    per = tc.all_periods(years)
    three_way(ck, con, per, 'main')
    ys = sorted({0, 1, 99, 100, 999, 1000, 1582, 9999} | set(ck.rng.sample(range(0, 10000), 6 if quick else 60)))
    three_way(ck, con, [p for p in tc.all_periods([y for y in ys if y >= 1]) if p[0] != 'D' or p[2] % 7 == 1 or p[2] >= 365], 'year-sample')
    gregorian_unsupported(ck, con)
    spellings_through_run(ck, ck.rng.sample(per, min(len(per), 400 if quick else 4000)))
    e2e(ck, 40 if quick else 600)
    ck.note('years', [years[0], years[-1], len(years)]); ck.note('periods', len(per)); ck.note('year_sample', ys)
    concrete = [v for v in ck.viol if not v[3]]
    for b in state['model_bad'][:4]:
        ck.unproved('model-validation:%s' % b[0], 'Lean Spelling disagrees with the documentation / its own canon on %r: %r vs %r' % (b[1], b[2], b[3]))
    if docs_err and not concrete:
        ck.unproved('translator:docs_tables', docs_err)
    if not pr['ok'] and not concrete:
        for t in (pr['failed'] or pr['forbidden'] or pr['bad_axioms'] or ['build']):
            ck.unproved('theorem:%s' % t, 'Props/C21 no longer builds: %s' % pr['log'][-400:])
    ck.trusted('docs/data_types.rst is read by a small table reader (examples + output table) and compared with the model through the driver',
               'correspondence harness (macros installed by initialize_time_types; one vectorised query per macro)',
               'year 0000 is exercised in Lean only (Python date has no year 0)')
    ck.assumptions.append('lower-case indicator letters and surrounding blanks are outside the documented spellings and not generated')
    ck.assumptions.append('week 53 of a 52-week year / day 366 of a non-leap year are not periods: accepted-or-rejected is C19/C20')


if __name__ == '__main__':
    vlib.run_check('C21', main)

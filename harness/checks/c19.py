"""C19 — run() rejects every input that violates its declared structure, accepts everything else and returns
each value as the value it denotes.

Proof: Props/C19.lean over VtlModel.Input.Spec (InputSpec) + Gen/InputPatterns (loader patterns, translator).
Tie (K): generated tables -> real run() with an identity script in every input form vs the Lean InputSpec
verdict / denoted values (driver lean/Drivers/Input.lean).  Tie (T): the loaders' regex constants are
transcribed into Lean data on every run; the Lean matcher is compared with Python's `re` on generated strings.
"""
import datetime
import json
import os
import re
import sys

sys.path.insert(0, os.path.join(os.path.dirname(os.path.abspath(__file__)), '..'))
sys.path.insert(0, os.path.dirname(os.path.abspath(__file__)))
import vlib
import input_common as ic
import input_gen as ig

SITE = {'csv': 'duckdb_transpiler/io/_io.py:load_datapoints_duckdb + io/_validation.py:build_select_columns',
        'df_str': 'duckdb_transpiler/io/_io.py:register_dataframes/_build_dataframe_select_columns',
        'df_native': 'duckdb_transpiler/io/_io.py:register_dataframes/_build_dataframe_select_columns',
        'pq_str': 'duckdb_transpiler/io/_io.py:_load_parquet/_build_dataframe_select_columns',
        'pq_native': 'duckdb_transpiler/io/_io.py:_load_parquet/_build_dataframe_select_columns'}


def deviation(case, form, spec, outcome):
    """-> list of (dev, detail) for one engine outcome against the spec verdict (empty = conforms)"""
    ek = ic.engine_kind(outcome)
    if ek == 'timeout':
        return []   # wall-clock guard hit: no verdict on this presentation (counted in evidence)
    if spec[0] == 'reject':
        if ek == 'reject':
            return []
        if ek == 'accept':
            return [('accepts-invalid', {'spec': spec[1], 'engine_rows': outcome[2][:3]})]
        return [('rejects-with-non-input-error:' + ek, {'spec': spec[1], 'engine': list(outcome[1:])})]
    if ek != 'accept':
        return [('rejects-valid:' + ek if ek != 'reject' else 'rejects-valid', {'engine': list(outcome[1:])})]
    return [('__compare__', None)]


def make_cases(ck, samples):
    """one-cell cases for every pool entry and role; returns list of cases with type / vclass / role"""
    cases = []
    for _ in range(samples):
        P = ig.pools(ck.rng)
        for typ in ig.TYPES:
            for vclass, text in P[typ]:
                for role in ('me', 'id'):
                    if role == 'id' and ck.quick() and vclass not in ('plain', 'empty', 'padded') and ck.rng.random() < 0.7:
                        continue
                    c = ig.one_cell(typ, text, role)
                    c.update(type=typ, vclass=vclass, role=role, text=text)
                    cases.append(c)
    flt = os.environ.get('VERIF_INPUT_FILTER')
    if flt:   # development / mutant runs only: restrict to some types
        cases = [c for c in cases if c['type'] in flt.split(',')]
    # drop exact repeats
    seen, out = set(), []
    for c in cases:
        k = (c['type'], c['role'], c['text'])
        if k not in seen:
            seen.add(k); out.append(c)
    return out


def forms_for(case, rng, quick):
    fs = list(ic.FORMS)
    if quick and case.get('type') != 'Date' and rng.random() < 0.7:
        fs.remove('pq_str')    # the Parquet loader shares the DataFrame loader's SELECT builder; sampled in the quick tier
    if case.get('type') == 'String' and case.get('text') == '':
        fs.remove('csv')   # a CSV file cannot tell the empty string from NULL (presentation limit, see evidence)
    return fs


def oracle_validation(ck):
    """InputSpec against independent oracles (Python datetime / int / float), through the driver."""
    rng = ck.rng
    reqs, exp = [], []
    years = list(range(1995, 2031)) if ck.quick() else list(range(1800, 2400))
    years += [rng.randint(1800, 9999) for _ in range(40)]
    for y in years:
        wk = datetime.date(y, 12, 28).isocalendar()[1]
        leap = (y % 4 == 0 and (y % 100 != 0 or y % 400 == 0))
        for w in (52, 53, 54):
            reqs.append('cell P ' + ic.enc_str('%04dW%d' % (y, w))); exp.append(w <= wk)
        for d in (365, 366, 367):
            reqs.append('cell P ' + ic.enc_str('%04dD%d' % (y, d))); exp.append(d <= (366 if leap else 365))
        for m in (2, 4, 12):
            for d in (28, 29, 30, 31):
                try:
                    datetime.date(y, m, d); ok = True
                except ValueError:
                    ok = False
                reqs.append('cell D ' + ic.enc_str('%04d-%02d-%02d' % (y, m, d))); exp.append(ok and 1800 <= y <= 9999)
                reqs.append('cell P ' + ic.enc_str('%04d-%02d-%02d' % (y, m, d))); exp.append(ok)
    for _ in range(300 if ck.quick() else 3000):
        s = rng.choice(['%d', '%d.0', ' %d', '+%d', '%de2', '%d.5', '0x%d', '%d_000']) % rng.randint(0, 10 ** rng.randint(1, 19))
        try:
            f = s.replace('_', '') if re.fullmatch(r'\s*[+-]?\d+(_\d+)*(\.\d*)?([eE][+-]?\d+)?\s*', s) else None
            from fractions import Fraction
            v = Fraction(f.strip()) if f is not None else None
            ok = v is not None and v.denominator == 1 and -2 ** 63 <= v <= 2 ** 63 - 1
        except Exception:  # noqa: BLE001
            ok = False
        reqs.append('cell I ' + ic.enc_str(s)); exp.append(ok)
    ans = ck.driver('Input', reqs)
    bad = [(r, a, e) for r, a, e in zip(reqs, ans, exp) if a.startswith('ok') != e]
    ck.count(('oracle', len(reqs)), n=len(reqs))
    ck.note('model_vs_datetime_oracle', {'requests': len(reqs), 'disagreements': len(bad)})
    if bad:
        ck.unproved('InputSpec-vs-python-datetime', 'the Lean InputSpec disagrees with Python datetime/Fraction on %d inputs, e.g. %s'
                    % (len(bad), [(ic.dec_str(r.split(' ')[2]), a) for r, a, e in bad[:3]]))


def pattern_tie(ck, pats):
    """translator validation: Lean matcher on the transcribed pattern == Python re on the source pattern"""
    sys.path.insert(0, os.path.join(os.path.dirname(os.path.abspath(__file__)), '..', 'translate'))
    import input_patterns as ip
    rng = ck.rng
    P = ig.pools(rng)
    strings = set()
    for _ in range(2 if ck.quick() else 10):
        P = ig.pools(rng)
        for typ in ('Date', 'Time_Period', 'Time', 'Duration'):
            for _, t in P[typ]:
                strings.add(t); strings.add(t.strip().upper())
                if t:
                    i = rng.randrange(len(t))
                    strings.add(t[:i] + rng.choice('0123456789-TWMQ:/ ') + t[i + 1:])
    strings = sorted(strings)
    reqs, exp = [], []
    for key, pat in pats.items():
        rx = re.compile(pat)
        for s in strings:
            reqs.append('re %s %s' % (ip.lean_name(key), ic.enc_str(s)))
            exp.append(rx.fullmatch(s) is not None if key.split('.')[1] in ('year_pattern', 'month_pattern') else
                       (rx.search(s) is not None and '\n' not in s))
    ans = ck.driver('Input', reqs)
    bad = [(r, a, e) for r, a, e in zip(reqs, ans, exp) if (a == '1') != e]
    ck.count(('pattern-tie', len(reqs)), n=len(reqs))
    ck.note('pattern_translator_tie', {'patterns': len(pats), 'strings': len(strings), 'disagreements': len(bad)})
    if bad:
        ck.unproved('translator:input_patterns', 'Lean matcher on the transcribed pattern differs from Python re on %d strings, e.g. %s'
                    % (len(bad), [(r.split(' ')[1], ic.dec_str(r.split(' ')[2]), a, e) for r, a, e in bad[:3]]))


COUNTER_WITNESSES = [('Time_Period', '2020M13'), ('Time_Period', '2020-13'), ('Time_Period', '2021-W53'), ('Time_Period', '2021D366'),
                     ('Time', '2020-12-31/2020-01-01'), ('Time', '2020-02-30/2020-03-01'), ('Duration', 'a'), ('Date', '2020-1-5')]


def main(ck):
    pats = ic.regen_patterns(ck)
    pr = ck.proof('C19')
    ck.trusted('translator harness/translate/input_patterns.py (regex constants -> Lean data; cross-checked against Python re on every run)',
               'correspondence harness harness/checks/input_common.py (five input presentations, canonicaliser, tolerance 1e-9 rel / 1e-12 abs on Number)',
               'DuckDB, pandas, pyarrow (the runtime under the loaders) are exercised, not modelled')
    ck.assumptions += ['InputSpec is the documented format of docs/data_types.rst; adoptions where the documentation is silent are listed under adopted_behaviours',
                       'a CSV file cannot distinguish the empty string from NULL in a String column: that cell is not presented in CSV form']
    ck.note('adopted_behaviours', [
        'Integer/Number spellings follow Python float() (the DataFrame row of the docs: "cast via str -> float"): surrounding white space, sign, "_" between digits, exponent',
        'Number range |v| < 1e18: DECIMAL(28,10), the documented defaults of VTL_DUCKDB_DECIMAL_WIDTH / OUTPUT_NUMBER_SIGNIFICANT_DIGITS (transcribed; theorem number_range_is_configured)',
        'empty string in a non-String column is NULL (files/parser: "Treat empty strings as null for non-String columns")',
        'extra columns are ignored, missing nullable columns are filled with NULL',
        'Time intervals may carry THH:MM:SS on both ends (ISO 8601 interval); YYYY-Wx (one digit) accepted like YYYY-Mx',
        'Daily examples "2020D-1" of the docs table are read as the typo they are (Formats column: YYYY-D[xx]x)'])

    if ck.replay_path:
        rp = json.load(open(ck.replay_path))
        case = rp['replay']['case']
        spec = ic.spec_verdicts(ck, [case])[0]
        out = ic.run_case(dict(case, validate=False))
        print(json.dumps({'spec': spec, 'engine': {f: ic.engine_kind(o) for f, o in out['run'].items()}, 'detail': out['run']}, indent=1, default=str))
        handle(ck, [case], [spec], [out])
        return

    oracle_validation(ck)
    pattern_tie(ck, pats)

    # ---------------- value cases
    samples = int(os.environ.get('VERIF_INPUT_SAMPLES') or (1 if ck.quick() else 3))
    cells = make_cases(ck, samples)
    specs = ic.spec_verdicts(ck, cells)
    run_cases, group_members = [], {}
    buckets = {}
    for c, s in zip(cells, specs):
        c['spec'] = s
        c['forms'] = forms_for(c, ck.rng, ck.quick())
        c['validate'] = False
        if s[0] == 'accept' and c['type'] not in ('Date',) and not (c['type'] == 'String' and c['text'] == '') and not os.environ.get('VERIF_INPUT_NOGROUP'):
            buckets.setdefault((c['type'], c['role']), []).append(c)
        else:
            run_cases.append(c)
    for (typ, role), members in buckets.items():
        ck.rng.shuffle(members)
        # identifiers: distinct denoted values only
        seen, uniq, rest = set(), [], []
        for m in members:
            k = m['spec'][1][0][m['focus']]
            if role == 'id' and k in seen:
                rest.append(m)
            else:
                seen.add(k); uniq.append(m)
        run_cases += rest
        for i in range(0, len(uniq), 6):
            grp = uniq[i:i + 6]
            g = ig.multi_row(typ, [m['text'] for m in grp], role)
            g.update(type=typ, vclass='group', role=role, forms=['csv', 'df_str', 'pq_str'], validate=False, members=grp)
            run_cases.append(g)
            for m in grp:   # native presentations are per value
                n = dict(m, forms=['df_native', 'pq_native'])
                run_cases.append(n)
    # ---------------- structural cases
    nstruct = 2 if ck.quick() else 6
    if os.environ.get('VERIF_INPUT_FILTER') and 'table' not in os.environ['VERIF_INPUT_FILTER'].split(','):
        nstruct = 0
    for kind in ig.STRUCT_KINDS:
        for _ in range(nstruct):
            c = ig.structural_case(ck.rng, kind)
            c.update(type='table', vclass=kind, role='-', validate=False)
            run_cases.append(c)
    if nstruct:
        for c in ig.respelled_duplicate_cases():
            c.update(type='table', vclass=c['kind'], role='-', validate=False)
            run_cases.append(c)
    # ---------------- witnesses of implAccept_counter
    for typ, text in COUNTER_WITNESSES:
        c = ig.one_cell(typ, text, 'me')
        c.update(type=typ, vclass='witness:' + text, role='me', text=text, validate=False, forms=['csv', 'df_str', 'pq_str'])
        run_cases.append(c)

    specs = ic.spec_verdicts(ck, run_cases)
    ic.dbg('%d tables' % len(run_cases))
    outs = ic.pool_map('run_case', [dict(ic.strip_case(c), focus=c.get('focus'), forms=c.get('forms'), validate=False) for c in run_cases])
    redo = handle(ck, run_cases, specs, outs, collect_groups=True)
    if redo:
        specs2 = ic.spec_verdicts(ck, redo)
        outs2 = ic.pool_map('run_case', [dict(ic.strip_case(c), focus=c.get('focus'), forms=c.get('forms'), validate=False) for c in redo])
        handle(ck, redo, specs2, outs2)

    hist = {}
    for c, s in zip(run_cases, specs):
        hist[s[0] if s[0] == 'accept' else s[1].split(':')[0]] = hist.get(s[0] if s[0] == 'accept' else s[1].split(':')[0], 0) + 1
    ck.note('spec_verdict_histogram', hist)
    ck.note('cases', {'tables': len(run_cases), 'types': ig.TYPES, 'forms': ic.FORMS})

    if not pr['ok']:
        if not ck.viol:
            ck.unproved('Props/C19', 'lake build / audit of Props/C19.lean failed: %s %s %s' % (pr['failed'], pr['forbidden'], pr['bad_axioms']), pr['log'][-1500:])
        else:
            print('# proof obligations broken: %s' % (pr['failed'] or pr['bad_axioms'] or pr['forbidden']))
    ic.cleanup()


def handle(ck, cases, specs, outs, collect_groups=False):
    """compare; report; return the member cases of deviating groups (to be re-run one by one)"""
    pending = []   # (case, form, dev, detail)
    compare_jobs = []
    for c, s, o in zip(cases, specs, outs):
        for form, outcome in o['run'].items():
            ck.count((c['type'], c['vclass'], c.get('role'), form, c.get('text')))
            for dev, detail in deviation(c, form, s, outcome):
                if dev == '__compare__':
                    probs = ic.compare_result(c, s[1], outcome)
                    compare_jobs.append((c, form, probs))
                else:
                    pending.append((c, form, dev, detail))
    ic.resolve_asks(ck, [p for _, _, p in compare_jobs])
    for c, form, probs in compare_jobs:
        for kind, d in probs:
            pending.append((c, form, 'wrong-' + kind if kind in ('value', 'form') else kind, d))
    redo = []
    for c, form, dev, detail in pending:
        if collect_groups and c.get('members'):
            for m in c['members']:
                if m not in redo:
                    redo.append(dict(m, forms=c['forms']))
            continue
        key = '%s:%s:%s:%s' % (form, c['type'], c['vclass'], dev)
        what = describe(c, form, dev, detail)
        ck.violation(key, {'case': ic.strip_case(c), 'form': form, 'type': c['type'], 'value_class': c['vclass'], 'role': c.get('role'),
                           'deviation': dev, 'detail': detail, 'site': SITE.get(form)}, what)
    for c, s, o in list(zip(cases, specs, outs))[:3]:
        ck.sample({'table': ic.strip_case(c), 'spec': s[0], 'engine': {f: ic.engine_kind(x) for f, x in o['run'].items()}})
    return redo


def describe(c, form, dev, detail):
    v = c.get('text')
    subj = ('%s value %r (%s, as %s)' % (c['type'], v, c['vclass'], {'me': 'measure', 'id': 'identifier'}.get(c.get('role'), c.get('role')))
            if v is not None else 'table with %s' % c['vclass'])
    if dev == 'accepts-invalid':
        return 'run() [%s input] accepts %s which InputSpec rejects (%s)' % (form, subj, (detail or {}).get('spec'))
    if dev.startswith('rejects-with-non-input-error'):
        return 'run() [%s input] fails on %s with %s instead of a data-load / input-validation error' % (form, subj, dev.split(':', 1)[1])
    if dev.startswith('rejects-valid'):
        return 'run() [%s input] rejects %s which the documented formats accept (%s)' % (form, subj, (detail or {}).get('engine'))
    if dev in ('wrong-value', 'wrong-form'):
        return 'run() [%s input] returns %r for %s; denoted value in documented output form is %r' % (form, detail.get('engine'), subj, detail.get('spec'))
    return 'run() [%s input] %s on %s: %s' % (form, dev, subj, detail)


if __name__ == '__main__':
    vlib.run_check('C19', main)

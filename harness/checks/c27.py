"""C27 — SDMX structures map to VTL structures as documented.

Proof: lean/VtlModel/Props/C27.lean over Gen/Sdmx.lean (regenerated here from /repo + the installed pysdmx).
Tie:   translator (tables + shape of to_vtl_json) and correspondence: the Lean model `toVtlJson` and the real
       `to_vtl_json` / `semantic_analysis` / `run` / `run_sdmx` on the same pysdmx structures.
"""
import json
import os
import signal
import sys
import tempfile

sys.path.insert(0, os.path.join(os.path.dirname(os.path.abspath(__file__)), '..'))
sys.path.insert(0, os.path.join(os.path.dirname(os.path.abspath(__file__)), '..', 'translate'))
import vlib
import sdmx_tables


class Timeout(Exception):
    pass


def guarded(fn, secs=60):
    def h(sig, frm): raise Timeout()
    old = signal.signal(signal.SIGALRM, h)
    signal.alarm(secs)
    try:
        return fn()
    finally:
        signal.alarm(0); signal.signal(signal.SIGALRM, old)


SAMPLE = {'String': ['a', 'b'], 'Integer': [1, 2], 'Number': [1.5, 2.5], 'Boolean': [True, False],
          'Date': ['2020-01-01', '2021-06-30'], 'Time_Period': ['2020Q1', '2021Q2'],
          'Time': ['2020-01-01/2020-12-31', '2021-01-01/2021-12-31'], 'Duration': ['A', 'M']}


def build(eng_mods, comps, form, sid='DS_1', reqs=None):
    """comps: list of (id, DataType member, Role member) -> pysdmx object of the requested form;
    reqs: the SDMX `required` flag per component (default: dimensions only)"""
    Component, Components, Schema, DSD, Dataflow, Concept = eng_mods
    cs = []
    for n_, (cid, dt, role) in enumerate(comps):
        kw = {}
        if role.name == 'ATTRIBUTE': kw['attachment_level'] = 'O'
        cs.append(Component(id=cid, required=((role.name == 'DIMENSION') if reqs is None else bool(reqs[n_])), role=role, concept=Concept(id=cid), local_dtype=dt, **kw))
    if form == 'schema':
        return Schema(context='datastructure', agency='VERIF', id=sid, components=Components(cs), version='1.0')
    d = DSD(id=sid, agency='VERIF', components=Components(cs))
    if form == 'dsd':
        return d
    return Dataflow(id=sid, agency='VERIF', structure=d)


def mapped_q(dtypes, mapping):
    return [d for d in dtypes if str(d.value) in mapping]


def main(ck):
    import time
    T = [time.time()]; phases = {}
    def lap(n):
        phases[n] = round(time.time() - T[0], 1); T[0] = time.time(); ck.note('phase_seconds', phases)
    # ------------------------------------------------------------------ 1. translator
    try:
        text, digest, tabs = sdmx_tables.translate(vlib.REPO)
    except vlib.ShapeError as e:
        tabs = None
        ck.unproved('translator:sdmx_tables', 'source no longer has the shape the translator knows: %s' % e)
        text = None
    if text is not None:
        ck.gen('Sdmx', text)
        ck.note('translator_digest', digest)
    # ------------------------------------------------------------------ 2. proof
    pr = ck.proof('C27') if text is not None else {'ok': False, 'failed': ['<no Gen/Sdmx.lean>'], 'build_ok': False, 'log': ''}
    lap('translate+proof')
    ck.trusted('translator harness/translate/sdmx_tables.py (transcribes two dict literals, two enums, the loop of to_vtl_json, two rst tables)',
               'pysdmx (Components.dimensions/measures/attributes = components of that role in declaration order; Component.dtype) — modelled, not verified',
               'Lean driver Drivers/Tables.lean + this harness (canonicalisation: component tuples compared exactly)')
    ck.assumptions.append('docs shorthand "all reporting period variants (Year, …)" is read as Reporting<Variant>')

    # ------------------------------------------------------------------ 3. real engine
    import eng  # noqa
    from pysdmx.model import DataType, Concept
    from pysdmx.model.dataflow import Component, Components, Schema, DataStructureDefinition, Dataflow, Role
    from pysdmx.io.pd import PandasDataset
    import pandas as pd
    from vtlengine import run, run_sdmx, semantic_analysis
    from vtlengine.files.sdmx_handler import to_vtl_json
    from vtlengine.Utils import VTL_DTYPES_MAPPING, VTL_ROLE_MAPPING
    from vtlengine.DataTypes import SCALAR_TYPES
    mods = (Component, Components, Schema, DataStructureDefinition, Dataflow, Concept)

    # 3a. generated tables vs the live objects (guards the translator)
    if tabs is not None:
        live_d = {str(k): v for k, v in VTL_DTYPES_MAPPING.items()}
        live_r = {k.name: v for k, v in VTL_ROLE_MAPPING.items()}
        if live_d != tabs['code_dtype'] or live_r != tabs['code_role']:
            ck.unproved('translator:sdmx_tables', 'transcribed mapping differs from the imported module objects',
                        {'live_dtype': live_d, 'gen_dtype': tabs['code_dtype'], 'live_role': live_r, 'gen_role': tabs['code_role']})
        ck.count(('tables', len(live_d), len(live_r)))

    dtypes, roles = list(DataType), list(Role)
    rng = ck.rng
    cases = []      # (comps, form)
    forms = ['schema', 'dsd', 'dataflow']
    for dt in dtypes:
        for r in roles:
            for f in forms:
                cases.append(([('C_1', dt, r)], f, None))
    # the SDMX `required` flag (assignment status / mandatory measure) varies independently of the role: nullability
    # must follow the role alone
    for dt in (dtypes if not ck.quick() else mapped_q(dtypes, VTL_DTYPES_MAPPING)):
        for r in roles:
            for req in (True, False):
                if req != (r.name == 'DIMENSION'):
                    cases.append(([('C_1', dt, r)], rng.choice(forms), [req]))
    n_rand = 200 if ck.quick() else 2500
    mapped = [d for d in dtypes if str(d.value) in VTL_DTYPES_MAPPING]
    for i in range(n_rand):
        k = rng.randint(1, 5)
        pool = dtypes if rng.random() < 0.25 else mapped       # most random structures are convertible
        comps = []
        for j in range(k):
            r = rng.choice(roles) if j else (Role.DIMENSION if rng.random() < 0.8 else rng.choice(roles))
            comps.append(('%s_%d' % ({'DIMENSION': 'D', 'MEASURE': 'M', 'ATTRIBUTE': 'A'}[r.name], j + 1), rng.choice(pool), r))
        rng.shuffle(comps)
        cases.append((comps, rng.choice(forms), None if rng.random() < 0.5 else [rng.random() < 0.5 for _ in comps]))

    # Lean side
    lines = ['sdmx ' + ' '.join('%s:%s:%s' % (c, d.value, r.name) for c, d, r in comps) for comps, _, _ in cases]
    doclines = ['sdmxdoc ' + ' '.join('%s:%s:%s' % (c, d.value, r.name) for c, d, r in comps) for comps, _, _ in cases]
    witness = ['sdmx C:GeospatialInformation:DIMENSION', 'sdmx C:XHTML:DIMENSION']
    try:
        ans = ck.driver('Tables', lines + doclines + witness)
    except (vlib.DriverError, FileNotFoundError) as e:
        ans = None
        ck.unproved('driver:Tables', 'Lean model does not build / run: %s' % str(e)[-600:])
    lap('imports+driver')
    model = ans[:len(lines)] if ans else [None] * len(lines)
    docm = ans[len(lines):2 * len(lines)] if ans else [None] * len(lines)

    def canon(js):
        return ';'.join('%s|%s|%s|%s' % (c['name'], c['role'], c['type'], 'true' if c['nullable'] else 'false')
                        for c in js['datasets'][0]['DataStructure'])

    stats = {'ok': 0, 'keyerror': 0, 'iv': 0, 'semantic': 0, 'run': 0, 'run_sdmx': 0, 'forms': {}}
    disagree = []
    n_run = 0
    run_budget = 60 if ck.quick() else 500
    for i, (comps, form, reqs) in enumerate(cases):
        obj = build(mods, comps, form, reqs=reqs)
        out = guarded(lambda: eng.outcome(to_vtl_json, obj))
        stats['forms'][form] = stats['forms'].get(form, 0) + 1
        key = (tuple((d.value, r.name) for _, d, r in comps), form, tuple(reqs) if reqs else None)
        ck.count(key)
        spec = ' '.join('%s:%s:%s' % (c, d.value, r.name) + ('' if reqs is None else ':req' if reqs[n_] else ':opt') for n_, (c, d, r) in enumerate(comps))
        if out[0] == 'ok':
            stats['ok'] += 1
            got = 'ok ' + canon(out[1])
            real = canon(out[1])
            # --- the property itself, on the real output
            comps_out = out[1]['datasets'][0]['DataStructure']
            if sorted(c['name'] for c in comps_out) != sorted(c for c, _, _ in comps):
                ck.violation('to_vtl_json:component-count-or-names', {'components': spec, 'form': form, 'output': out[1]},
                             'output does not have exactly one component per SDMX component')
            for c in comps_out:
                if c['nullable'] != (c['role'] != 'Identifier'):
                    ck.violation('to_vtl_json:nullable-not-iff-non-identifier:%s' % c['role'], {'components': spec, 'form': form, 'output': out[1]},
                                 'component %s: role %s nullable %s' % (c['name'], c['role'], c['nullable']))
            if docm[i] is not None and real != docm[i]:
                bad = [a for a, b in zip(real.split(';'), docm[i].split(';')) if a != b]
                ck.violation('to_vtl_json:differs-from-docs:%s' % (bad[0].split('|', 1)[1] if bad else '?'),
                             {'components': spec, 'form': form, 'real': real, 'documented': docm[i]},
                             'to_vtl_json output differs from docs/data_structures.rst tables')
        elif out[0] == 'vtl' and out[1] == 'InputValidationException':
            stats['iv'] += 1
            got = 'err inputValidation'
        elif out[0] == 'raw' and out[1] == 'builtins.KeyError':
            stats['keyerror'] += 1
            k = out[2].strip("'").replace('DataType.', '').replace('Role.', '')
            bad = [d for _, d, _ in comps if d.name == k or str(d.value) == k]
            name = str(bad[0].value) if bad else k
            got = 'err keyError ' + name
            ck.violation('to_vtl_json:unmapped-dtype:%s:raw-KeyError' % name,
                         {'components': spec, 'form': form, 'outcome': list(out)},
                         'pysdmx DataType %s is not in VTL_DTYPES_MAPPING: to_vtl_json raises a raw KeyError instead of an input-validation error' % name)
        else:
            got = 'other %r' % (out,)
            ck.violation('to_vtl_json:unexpected-exception:%s' % out[1], {'components': spec, 'form': form, 'outcome': list(out)},
                         'unexpected outcome of to_vtl_json')
        if model[i] is not None:
            m = model[i]
            if m.startswith('err inputValidation'): m = 'err inputValidation'
            if m.rstrip() != got.rstrip():
                disagree.append({'components': spec, 'form': form, 'model': model[i], 'real': got})
        ck.sample({'components': spec, 'form': form, 'real': got[:160]})
        # --- semantic_analysis / run / run_sdmx see the same structure
        if out[0] == 'ok':
            exp = [(c['name'], c['role'], c['type'], c['nullable']) for c in out[1]['datasets'][0]['DataStructure']]
            name = obj.id
            r = guarded(lambda: eng.outcome(semantic_analysis, 'DS_r <- %s;' % name, obj))
            stats['semantic'] += 1
            if r[0] != 'ok':
                ck.violation('semantic_analysis:rejects-converted-structure:%s' % r[1], {'components': spec, 'form': form, 'outcome': list(r)[:4]},
                             'semantic_analysis fails on a structure to_vtl_json converts')
            else:
                ds = r[1]['DS_r']
                got_s = [(c.name, c.role.value, c.data_type, bool(c.nullable)) for c in ds.components.values()]
                exp_s = [(n, ro, SCALAR_TYPES[t], nl) for n, ro, t, nl in exp]
                if got_s != exp_s:
                    ck.violation('semantic_analysis:structure-differs-from-to_vtl_json', {'components': spec, 'form': form,
                                 'got': [(a, b, c.__name__, d) for a, b, c, d in got_s], 'expected': exp},
                                 'structure used by semantic_analysis differs from to_vtl_json output')
            has_id = any(ro == 'Identifier' for _, ro, _, _ in exp)
            if n_run < run_budget and (len(comps) > 1 or i % 7 == 0):
                n_run += 1
                nrows = 2 if has_id else 1
                df = pd.DataFrame({n: [(SAMPLE[t][k] if (ro == 'Identifier' or k == 0) else None) for k in range(nrows)] for n, ro, t, _ in exp})
                pds = None
                if form == 'schema':
                    try:
                        pds = PandasDataset(structure=obj, data=df.copy())
                    except Exception:  # noqa  pysdmx itself refuses the sample frame for this SDMX type (its own dtype casting): use run()
                        stats['pysdmx_refused_frame'] = stats.get('pysdmx_refused_frame', 0) + 1
                if pds is not None:
                    r2 = guarded(lambda: eng.outcome(run_sdmx, 'DS_r <- %s;' % name, [pds]))
                    stats['run_sdmx'] += 1; via = 'run_sdmx'
                else:
                    r2 = guarded(lambda: eng.outcome(run, 'DS_r <- %s;' % name, obj, {name: df.copy()}))
                    stats['run'] += 1; via = 'run'
                if r2[0] != 'ok':
                    ck.violation('%s:fails-on-converted-structure:%s' % (via, r2[1]), {'components': spec, 'form': form, 'outcome': list(r2)[:4],
                                 'data': df.to_dict('list')}, '%s fails on a structure to_vtl_json converts' % via)
                else:
                    ds = r2[1]['DS_r']
                    got_s = [(c.name, c.role.value, c.data_type, bool(c.nullable)) for c in ds.components.values()]
                    exp_s = [(n, ro, SCALAR_TYPES[t], nl) for n, ro, t, nl in exp]
                    if got_s != exp_s or ds.data is None or len(ds.data) != nrows:
                        ck.violation('%s:structure-or-rows-differ' % via, {'components': spec, 'form': form,
                                     'got': [(a, b, c.__name__, d) for a, b, c, d in got_s], 'expected': exp,
                                     'rows': None if ds.data is None else len(ds.data)}, '%s result differs from the converted structure' % via)
    lap('engine')
    ck.note('distribution', stats)
    ck.cov['traces_validated_against_impl'] = len(cases)

    # Dataflow without a resolved DSD -> documented InputValidationException
    for df_obj, what in ((Dataflow(id='DF_X', agency='VERIF', structure=None), 'no-structure'),
                         (Dataflow(id='DF_X', agency='VERIF', structure='DataStructure=VERIF:X(1.0)'), 'reference')):
        o = eng.outcome(to_vtl_json, df_obj)
        ck.count(('dataflow', what))
        if not (o[0] == 'vtl' and o[1] == 'InputValidationException'):
            ck.violation('to_vtl_json:dataflow-%s:not-input-validation' % what, {'dataflow': what, 'outcome': list(o)[:4]},
                         'Dataflow without a resolved DSD is not rejected with an InputValidationException')

    # ------------------------------------------------------------------ 4. verdicts
    if ans:
        w = ans[2 * len(lines):]
        ck.note('full_or_counter', {'dtype_total': 'counter (KeyError witness)' if any(x.startswith('err keyError') for x in w) else 'full statement'})
    if disagree:
        # a disagreement that is not already explained by a property violation found above
        ck.unproved('correspondence:toVtlJson', '%d of %d cases: Lean model and to_vtl_json disagree; first: %s' % (len(disagree), len(cases), json.dumps(disagree[0])),
                    disagree[:5]) if not ck.viol else None
        ck.note('disagreements', disagree[:5])
    if not pr['ok']:
        if not ck.viol:
            for t in (pr.get('failed') or ['<build>']):
                ck.unproved(t, 'Props/C27.lean no longer checks (%s); %d real structures searched, no violation of the property found'
                            % ('; '.join(pr.get('forbidden', []) + pr.get('bad_axioms', [])) or 'lake build failed', len(cases)),
                            pr.get('log', '')[-1500:])


def replay(path):
    """re-run one recorded case on the real code"""
    rep = json.load(open(path))
    import eng
    from pysdmx.model import DataType, Concept
    from pysdmx.model.dataflow import Component, Components, Schema, DataStructureDefinition, Dataflow, Role
    from vtlengine.files.sdmx_handler import to_vtl_json
    mods = (Component, Components, Schema, DataStructureDefinition, Dataflow, Concept)
    r = rep.get('replay', {})
    if 'components' not in r:
        print(json.dumps(rep, indent=1)); return 0
    comps, reqs = [], []
    for tok in r['components'].split():
        c, d, ro = tok.split(':')[:3]
        comps.append((c, DataType(d), Role[ro]))
        reqs.append({'req': True, 'opt': False}.get((tok.split(':') + [''])[3], ro == 'DIMENSION'))
    o = eng.outcome(to_vtl_json, build(mods, comps, r.get('form', 'schema'), reqs=reqs))
    print('replay %s -> %r' % (r['components'], o))
    if o[0] == 'ok':
        bad = [c for c in o[1]['datasets'][0]['DataStructure'] if c['nullable'] != (c['role'] != 'Identifier')]
        if bad:
            print('nullable is not "iff not an identifier":', bad)
        return 1 if bad else 0
    return 0 if (o[0] == 'vtl' and o[1] == 'InputValidationException') else 1


if __name__ == '__main__':
    if '--replay' in sys.argv:
        sys.exit(replay(sys.argv[sys.argv.index('--replay') + 1]))
    vlib.run_check('C27', main)

"""Worker for c32.py: runs cases through the real semantic_analysis() and run() and reports what escapes.

usage: errors_worker.py <in.json> <out.json>     (in: list of cases; out: list of results, same order)
case:  {id, script, structures, data:{ds:{col:[...]}} | csv:{ds:path}, fmt, paths:bool}
"""
import json
import os
import signal
import sys
import traceback

sys.path.insert(0, os.path.join(os.path.dirname(os.path.abspath(__file__)), '..'))
import eng  # noqa: E402
import pandas as pd  # noqa: E402
from vtlengine import run, semantic_analysis  # noqa: E402
from vtlengine.Exceptions import VTLEngineException  # noqa: E402

PHASE_FUNCS = [('apply_time_period_representation', 'repr'), ('save_datapoints_duckdb', 'write'), ('fetch_result', 'fetch'),
               ('_build_dataset_fetch_select', 'fetch'), ('load_scheduled_datasets', 'load'), ('execute_queries', 'stmt'),
               ('transpile', 'transpile'), ('InterpreterAnalyzer', 'semantic')]


class TO(Exception):
    pass


def _alarm(sig, frm):
    raise TO()


def describe(e):
    tb = traceback.extract_tb(e.__traceback__)
    funcs = [f.name for f in tb]
    files = [os.path.basename(os.path.dirname(f.filename)) + '/' + os.path.basename(f.filename) for f in tb]
    phase = 'other'
    for fn, ph in PHASE_FUNCS:
        if fn in funcs:
            phase = ph; break
    else:
        if any('Interpreter' in f for f in files): phase = 'semantic'
        elif any('Transpiler' in f for f in files): phase = 'transpile'
    site = ''
    for f in reversed(tb):
        if 'vtlengine' in f.filename:
            site = '%s:%s' % (os.path.relpath(f.filename, os.path.join(eng.REPO, 'src', 'vtlengine')), f.name); break
    cause = e.__cause__
    d = {'phase': phase, 'site': site, 'cls': type(e).__module__ + '.' + type(e).__name__, 'msg': str(e)[:600],
         'is_vtl': isinstance(e, VTLEngineException), 'code': None, 'cause_cls': None, 'cause_msg': None}
    if d['is_vtl']:
        a = getattr(e, 'args', ())
        d['code'] = a[1] if len(a) > 1 and isinstance(a[1], str) else None
        d['msg'] = str(a[0])[:600] if a else ''
    if cause is not None:
        d['cause_cls'] = type(cause).__module__ + '.' + type(cause).__name__
        d['cause_msg'] = str(cause)[:600]
    return d


def guarded(fn, *a, **kw):
    signal.signal(signal.SIGALRM, _alarm)
    signal.alarm(int(os.environ.get('VERIF_CASE_TIMEOUT', '90')))
    try:
        fn(*a, **kw)
        return {'outcome': 'ok'}
    except TO:
        return {'outcome': 'timeout'}
    except BaseException as e:  # noqa: BLE001
        if isinstance(e, (KeyboardInterrupt, SystemExit)):
            raise
        d = describe(e)
        d['outcome'] = 'vtl' if d['is_vtl'] else 'raw'
        return d
    finally:
        signal.alarm(0)


def one(case):
    st = case['structures']
    if case.get('structure_paths'):
        from pathlib import Path
        st = [Path(p) for p in case['structure_paths']]
    sem = guarded(semantic_analysis, case['script'], st)
    res = {'id': case['id'], 'sem': sem, 'run': None}
    if sem['outcome'] != 'ok':
        return res
    if case.get('csv') is not None:
        from pathlib import Path
        dp = {k: (Path(v) if v else None) for k, v in case['csv'].items()}
    else:
        dp = {k: pd.DataFrame(v) for k, v in case.get('data', {}).items()}
    kw = {}
    if case.get('fmt'):
        kw['time_period_output_format'] = case['fmt']
    if case.get('scalars'):
        kw['scalar_values'] = case['scalars']
    res['run'] = guarded(run, case['script'], st, dp, return_only_persistent=False, **kw)
    return res


def main():
    cases = json.load(open(sys.argv[1]))
    out = []
    for c in cases:
        try:
            out.append(one(c))
        except BaseException as e:  # noqa: BLE001
            out.append({'id': c['id'], 'sem': {'outcome': 'harness-error', 'msg': repr(e)[:300]}, 'run': None})
    json.dump(out, open(sys.argv[2], 'w'))


if __name__ == '__main__':
    main()

"""C28 — viral attributes propagate according to the declared rule.
Lean: Props/C28.lean over the model VtlModel.Sem.Viral; tie: correspondence
  (a) the SQL fragments of ViralPropagation/sql.py executed directly in DuckDB vs the Lean functions pair / group / wide / reduceRefs,
  (b) generated scripts through the real run() vs the Lean evaluator, plus ROW SHUFFLES of the inputs (engine vs engine),
  (c) semantic_analysis() rejects exactly the scripts in which a viral attribute lacks a rule (1-3-3-6) vs Lean `analyseAll`,
  (d) replays of the proved counter-example (order-dependent fold) and of fixed regression probes on the real engine."""
import collections
import decimal
import itertools
import multiprocessing as mp
import os
import signal
import sys
from fractions import Fraction

sys.path.insert(0, os.path.join(os.path.dirname(os.path.abspath(__file__)), '..'))
import vlib
from sem import gen_viral as GV
from sem import runner as R
from sem.sx import dec_answer, dec_value, parse

AGG_OPS = {'aggr', 'aggrc', 'analytic'}      # operators that fold the viral values of a group / partition


# ------------------------------------------------------------------------------------------------ engine workers
class _TO(KeyboardInterrupt):
    pass


def _alarm(*a):
    raise _TO()


def _init():
    import eng  # noqa: F401


def _canon(eng, out):
    if out[0] == 'ok':
        res = {}
        for name, ds in out[1].items():
            if hasattr(ds, 'components'):
                comps, rows, cols = eng.canon_dataset(ds)
                if cols is not None and sorted(cols) != sorted(c[0] for c in comps):
                    res[name] = ('ds-mismatch', comps, cols)
                else:
                    res[name] = ('ds', comps, [tuple(r) for r in (rows or [])])
        return ('ok', res)
    if out[0] == 'raw' and ('interrupted' in str(out[-1]).lower() or '_TO' in str(out[-1]) or '_alarm' in str(out[-1])):
        return ('timeout',)      # the wall-clock guard fired inside DuckDB / pandas
    return out[:3] + (str(out[-1])[:300],)


def _run_script(args):
    vtl, structs, env, perm_seed, budget, semantic = args
    import eng
    from vtlengine import run, semantic_analysis
    signal.signal(signal.SIGALRM, _alarm)
    signal.alarm(budget)
    try:
        if semantic:
            out = eng.outcome(semantic_analysis, vtl, structs)
            if out[0] == 'ok':
                return ('ok', {n: [c.name for c in ds.components.values() if getattr(c.role, 'value', str(c.role)) == 'Viral Attribute']
                               for n, ds in out[1].items() if hasattr(ds, 'components')})
            return out[:3] + (str(out[-1])[:300],)
        return _canon(eng, eng.outcome(run, vtl, structs, GV.dataframes(env, perm_seed)))
    except _TO:
        return ('timeout',)
    finally:
        signal.alarm(0)


def run_pool(jobs, procs=None):
    procs = procs or min(14, max(1, (os.cpu_count() or 2) - 2))
    with mp.Pool(procs, initializer=_init) as pool:
        return pool.map(_run_script, jobs, chunksize=2)


# ------------------------------------------------------------------------------------------------ (a) fragments
def _py(v):
    if isinstance(v, decimal.Decimal):
        return Fraction(v)
    return v


def _lit(v, t):
    if v is None:
        return 'CAST(NULL AS %s)' % t
    if isinstance(v, str):
        return "CAST('%s' AS %s)" % (v.replace("'", "''"), t)
    if isinstance(v, Fraction):
        return 'CAST(%s AS %s)' % (GV.vtl_const(v), t)
    return 'CAST(%d AS %s)' % (v, t)


def fragments(ck, n):
    import eng  # noqa: F401
    import duckdb
    from vtlengine.ViralPropagation import sql as VS
    from vtlengine.duckdb_transpiler.Transpiler.operators import get_duckdb_type
    cases = GV.fragment_cases(ck.rng, n)
    reqs, owners = [], []
    for i, fc in enumerate(cases):
        rq = GV.fragment_requests(fc)
        reqs += rq
        owners += [i] * len(rq)
    answers = ck.driver('Viral', reqs)
    con = duckdb.connect()
    con.execute('SET threads=1')
    hist = collections.Counter()
    pos = 0
    for fc in cases:
        rule, t = fc['rule'].registry(), get_duckdb_type(fc['vtype'])
        kind = fc['rule'].kind if fc['rule'].kind == 'enum' else 'agg-' + fc['rule'].fn
        got = []     # (fragment, input, engine value | ('error', msg))

        def q(sql):
            try:
                return [tuple(_py(x) for x in row) for row in con.execute(sql).fetchall()]
            except Exception as e:  # noqa: BLE001
                return ('error', type(e).__name__ + ': ' + str(e)[:200])
        # pair: one table, one row per pair
        rows = ' UNION ALL '.join('SELECT %d AS o, %s AS a, %s AS b' % (i, _lit(a, t), _lit(b, t)) for i, (a, b) in enumerate(fc['pairs']))
        res = q('SELECT %s AS v FROM (%s) ORDER BY o' % (VS.vp_pair_sql(rule, 'a', 'b'), rows))
        for i, p in enumerate(fc['pairs']):
            got.append(('pair', p, res if isinstance(res, tuple) and res and res[0] == 'error' else res[i][0]))
        # group: every list is one table (insertion order = list order, single thread)
        for g in fc['groups']:
            con.execute('CREATE OR REPLACE TABLE g (o INTEGER, v %s)' % t)
            for i, v in enumerate(g):
                con.execute('INSERT INTO g VALUES (%d, %s)' % (i, _lit(v, t)))
            res = q('SELECT %s FROM g' % VS.vp_group_sql(rule, 'v'))
            got.append(('group', g, res if isinstance(res, tuple) and res and res[0] == 'error' else res[0][0]))
        for g in fc['groups']:
            con.execute('CREATE OR REPLACE TABLE g (o INTEGER, v %s)' % t)
            for i, v in enumerate(g):
                con.execute('INSERT INTO g VALUES (%d, %s)' % (i, _lit(v, t)))
            res = q('SELECT w FROM (SELECT o, %s AS w FROM g) ORDER BY o' % VS.vp_dataset_wide_sql(rule, 'v'))
            got.append(('wide', g, res if isinstance(res, tuple) and res and res[0] == 'error' else [x[0] for x in res]))
        for g in fc['refs']:
            cols = ', '.join('%s AS c%d' % (_lit(v, t), i) for i, v in enumerate(g))
            res = q('SELECT %s FROM (SELECT %s)' % (VS.vp_reduce_refs(rule, ['c%d' % i for i in range(len(g))]), cols))
            got.append(('reduce', g, res if isinstance(res, tuple) and res and res[0] == 'error' else res[0][0]))
        for frag, inp, ev in got:
            ans = answers[pos]; req = reqs[pos]; pos += 1
            x = parse(ans)
            head = x[0][1]
            if head == 'err':
                hist['skip:model-' + x[1][1]] += 1
                ck.count(None, nontrivial=False)
                continue
            if head == 'bad-request':
                ck.unproved('protocol:Viral', 'model rejected a fragment request: ' + req[:200]); continue
            mv = [dec_value(v) for v in x[1]] if head == 'okl' else dec_value(x[1])
            if isinstance(ev, tuple) and ev and ev[0] == 'error':
                ok = False
            elif frag == 'wide':
                ok = len(mv) == len(ev) and all(R.val_eq(a, b) for a, b in zip(mv, ev))
            else:
                ok = R.val_eq(mv, ev)
            if ok:
                hist['agree:' + frag] += 1
                ck.count((frag, req), nontrivial=(len(inp) > 0))
                if frag in ('group', 'pair') and inp and mv is not None:
                    ck.sample({'fragment': frag, 'rule': fc['rule'].to_json(), 'input': [str(v) if isinstance(v, Fraction) else v for v in inp], 'value': str(mv)}, cap=4)
                continue
            if frag == 'group' and fc['rule'].kind == 'enum' and not isinstance(ev, tuple) and len(inp) <= 6 and \
                    any(fc['rule'].fold(list(p)) == ev for p in itertools.permutations(inp)):
                ck.violation('fragment:vp_group_sql:list-built-in-another-order', {'rule': fc['rule'].to_json(), 'values': inp, 'engine': ev, 'model': mv},
                             'list_reduce(list(col)) folded the values in another order than inserted: %r -> %r (in order: %r)' % (inp, ev, mv))
                continue
            hist['DISAGREE:' + frag] += 1
            ck.violation('fragment:%s:%s' % (frag, kind),
                         {'fragment': frag, 'rule': fc['rule'].to_json(), 'vtype': fc['vtype'],
                          'input': [str(v) if isinstance(v, Fraction) else v for v in (inp if frag != 'pair' else list(inp))],
                          'model_request': req, 'model_answer': ans, 'engine': str(ev)},
                         'ViralPropagation/sql.py %s on %r: DuckDB gives %r, the model %s' % (frag, inp, ev, ans))
    ck.note('fragment_outcomes', dict(hist))
    return hist


# ------------------------------------------------------------------------------------------------ (b) scripts
def _veq(u, v):
    if u is None or v is None:
        return u is None and v is None
    if isinstance(u, bool) or isinstance(v, bool):
        return u == v
    if isinstance(u, (int, float)) and isinstance(v, (int, float)):
        return u == v or abs(u - v) <= 1e-9 * max(1.0, abs(u), abs(v))
    return u == v


def same_outcome(a, b, viral_only=False):
    if a[0] != b[0]:
        return False, 'outcome kinds differ: %s vs %s' % (a[:3], b[:3])
    if a[0] != 'ok':
        return a[1:3] == b[1:3], 'errors differ'
    x, y = a[1].get('DS_r'), b[1].get('DS_r')
    if x is None or y is None or x[0] != 'ds' or y[0] != 'ds':
        return (x is None) == (y is None) and (x is None or x[0] == y[0]), 'result kinds differ'
    if x[1] != y[1]:
        return False, 'components differ'
    names = [c[0] for c in x[1]]
    ids = [c[0] for c in x[1] if c[1] == 'Identifier']

    def keyed(rows):
        return {tuple(dict(zip(names, r))[i] for i in ids): dict(zip(names, r)) for r in rows}
    kx, ky = keyed(x[2]), keyed(y[2])
    if set(kx) != set(ky):
        return False, 'datapoints differ'
    roles = {c[0]: c[1] for c in x[1]}
    for k in kx:
        for n in names:
            if viral_only and roles[n] not in ('Identifier', 'Viral Attribute'):
                continue        # the measures of an analytic invocation / a join are another property's subject (C06 / C04)
            if not _veq(kx[k][n], ky[k][n]):
                return False, 'datapoint %r component %s: %r vs %r' % (k, n, kx[k][n], ky[k][n])
    return True, ''


def compare_viral(case, model_ans, eng_out):
    """like runner.compare, for statements whose measures are another property's subject (analytic invocations, joins):
    identifiers and viral attributes only."""
    a = dec_answer(model_ans)
    if a[0] == 'bad':
        return 'skip:model-bad-request', model_ans
    if eng_out[0] == 'timeout':
        return 'skip:engine-timeout', None
    if eng_out[0] == 'vtl' and eng_out[1] in ('SemanticError', 'InputValidationException'):
        return 'skip:semantic-reject:' + str(eng_out[2]), eng_out[3]
    if a[0] == 'err':
        return 'skip:model-' + a[1], eng_out
    if eng_out[0] != 'ok':
        return 'DISAGREE:engine-error', eng_out
    if 'DS_r' not in eng_out[1]:
        return 'DISAGREE:missing-result', list(eng_out[1])
    kind, comps, rows = eng_out[1]['DS_r']
    if kind == 'ds-mismatch':
        return 'DISAGREE:columns-vs-components', {'components': [c[0] for c in comps], 'data_columns': rows}
    _, ids, viral, mrows = a
    e_ids = [c[0] for c in comps if c[1] == 'Identifier']
    e_viral = [c[0] for c in comps if c[1] == 'Viral Attribute']
    if sorted(e_ids) != sorted(ids):
        return 'DISAGREE:identifiers', (ids, e_ids)
    if sorted(e_viral) != sorted(viral):
        return 'DISAGREE:viral-attributes', (viral, e_viral)
    names = [c[0] for c in comps]

    def keyed(nms, rws):
        return {tuple(dict(zip(nms, r))[i] for i in sorted(ids)): dict(zip(nms, r)) for r in rws}
    mk, ek = keyed(ids + viral, mrows), keyed(names, rows)
    if len(ek) != len(rows):
        return 'DISAGREE:engine-duplicate-keys', rows
    if set(mk) != set(ek):
        return 'DISAGREE:keys', {'model_only': sorted(map(str, set(mk) - set(ek))), 'engine_only': sorted(map(str, set(ek) - set(mk)))}
    for k in mk:
        for v in viral:
            if not R.val_eq(mk[k][v], ek[k][v]):
                return 'DISAGREE:value', {'key': k, 'measure': v, 'model': str(mk[k][v]), 'engine': ek[k][v]}
    return 'agree', len(mk)


def rule_kind(case):
    ks = sorted({('enumerated' if rule.kind == 'enum' else 'aggregate-' + rule.fn) for _, (_, rule) in case['spec'].items()})
    return '+'.join(ks)


def scripts(ck, n, label, **genkw):
    g = GV.ViralGen(ck.rng, **genkw)
    cases = [g.case() for _ in range(n)]
    seeds = (None, 1) if ck.quick() else (None, 1, 2)      # input row orders: as generated + shuffles
    answers = ck.driver('Viral', [GV.request(c) for c in cases])
    jobs = []
    for c in cases:
        st = GV.structures(c['env'])
        for seed in seeds:
            jobs.append((c['vtl'], st, c['env'], seed, 240, False))
    outs = run_pool(jobs)
    hist = collections.Counter()
    ophist = collections.Counter()
    for i, (c, a) in enumerate(zip(cases, answers)):
        base, shs = outs[len(seeds) * i], outs[len(seeds) * i + 1: len(seeds) * (i + 1)]
        c['stream'] = label
        enum_attrs = {v for v, (_, rule) in c['spec'].items() if rule.kind == 'enum'}
        sens_attrs = {v for v in enum_attrs if not c['spec'][v][1].order_free()}
        has_agg = bool(AGG_OPS & set(c['ops']))
        # --- engine vs engine under row shuffles ("whatever the order of the input datapoints")
        for sh in shs:
            if base[0] == 'timeout' or sh[0] == 'timeout':
                continue
            same, why = same_outcome(base, sh, c.get('viral_only', False))
            if not same:
                if has_agg and sens_attrs:
                    key = 'row-order-dependence:%s:enumerated-rule' % ('analytic' if 'analytic' in c['ops'] and not ({'aggr', 'aggrc'} & set(c['ops'])) else 'aggregation')
                else:
                    key = 'row-order-dependence:%s:%s' % (c['ops'][-1], rule_kind(c))
                rep = GV.case_to_json(c); rep.update({'base': str(base)[:1500], 'shuffled': str(sh)[:1500], 'why': why})
                ck.violation(key, rep, 'same datapoints in another row order give another result: %s | %s' % (c['vtl'][-160:], why))
                hist['ORDER-DEPENDENT'] += 1
                break
        # --- model vs engine
        v, d = compare_viral(c, a, base) if c.get('viral_only') else R.compare(c, a, base)
        if v.startswith('DISAGREE'):
            kind = v.split(':', 1)[1]
            if kind == 'value' and d['measure'] in sens_attrs and has_agg:
                hist['skip:order-sensitive-fold'] += 1     # decided by the shuffle comparison above
                ck.count(None, nontrivial=False)
                continue
            if kind == 'keys' and has_agg and 'none' in str([s for _, _, s in c['stmts']]) and a.endswith('())'):
                hist['skip:empty-ungrouped-aggregate'] += 1
                ck.count(None, nontrivial=False)
                continue
            vrule = c['spec'].get(d['measure'], (None, None))[1] if kind == 'value' else None
            no_unary = [v for v, (_, rule) in c['spec'].items() if rule.kind == 'enum' and rule.default is None and not any(len(vs) == 1 for vs, _ in rule.clauses)]
            null_only = [v for v, (_, rule) in c['spec'].items() if rule.kind == 'enum' and rule.default is None and all(res is None for _, res in rule.clauses)]
            if kind == 'value' and vrule is not None and vrule.fn == 'avg' and c['spec'][d['measure']][0] == 'Integer' and \
                    isinstance(d['engine'], (int, float)) and abs(Fraction(d['model']) - Fraction(d['engine'])) < 1:
                key = 'integer-viral-attribute:avg-rule:average-rounded-to-integer'
            elif kind == 'engine-error' and base[0] == 'raw' and 'ConversionException' in base[1] and 'Could not convert string' in str(base[-1]) and no_unary:
                key = 'enum-rule:no-one-value-clause-no-default:untyped-NULL-column:ConversionException'
            elif kind == 'engine-error' and base[0] == 'raw' and 'ConversionException' in base[1] and 'Could not convert string' in str(base[-1]) and null_only:
                key = 'enum-rule:only-null-results-no-default:untyped-NULL-column:ConversionException'
            elif kind == 'value' and d['measure'] in c['viral']:
                key = 'script:%s:%s:wrong-viral-value' % (c['ops'][-1], rule_kind(c))
            elif kind == 'engine-error' and base[0] == 'raw':
                key = 'script:%s:%s:%s' % (c['ops'][-1], base[1].split('.')[-1], ' '.join(str(base[-1]).split()[:4]))
            elif kind == 'engine-error':
                key = 'script:%s:%s:%s' % (c['ops'][-1], base[1], base[2])
            else:
                key = 'script:%s:%s' % (c['ops'][-1], kind)
            hist[v] += 1
            rep = GV.case_to_json(c); rep.update({'model_answer': a, 'engine': str(base)[:2000], 'verdict': v, 'detail': str(d)[:600]})
            ck.violation(key, rep, '%s: %s | model %s | engine %s' % (v, c['vtl'][-160:], a[:120], str(d)[:160]))
            continue
        hv = v if not v.startswith('skip:semantic-reject') else 'skip:semantic-reject'
        hist[hv] += 1
        if v == 'agree':
            nontrivial = isinstance(d, int) and d > 0 and bool(c['viral'])
            ck.count((c['vtl'], GV.env_sx(c['env'])), nontrivial=nontrivial)
            for o in c['ops']:
                ophist[o + '/' + rule_kind(c)] += 1
            if nontrivial:
                ck.sample({'script': c['vtl'], 'model': a[:200], 'stream': label})
            # declared Integer, value not integral (aggregate avg over an Integer viral attribute)
            comps, rows = base[1]['DS_r'][1], base[1]['DS_r'][2]
            for j, cp in enumerate(comps):
                if cp[1] == 'Viral Attribute' and cp[2] == 'Integer' and any(isinstance(r[j], float) and r[j] != int(r[j]) for r in rows):
                    rep = GV.case_to_json(c); rep['engine'] = str(base)[:1500]
                    ck.violation('integer-viral-attribute:non-integer-value:avg-rule', rep,
                                 'component %s is declared Integer but holds a non-integer value' % cp[0])
        else:
            ck.count(None, nontrivial=False)
            if v.startswith('skip:semantic-reject') or v == 'skip:model-bad-request':
                # a generated script must be valid: anything else is a harness problem worth seeing
                hist['REJECTED:' + str(d)[:80]] += 1
    ck.note('script_outcomes_' + label, dict(hist))
    ck.note('operator_histogram_' + label, dict(ophist))
    return hist


# ------------------------------------------------------------------------------------------------ (c) semantics
def semantics(ck, n):
    cases = [GV.semantic_case(ck.rng) for _ in range(n)]
    reqs, owner = [], []
    for i, c in enumerate(cases):
        reqs.append(c['request']); owner.append((i, None))
        for sh in c['shapes']:      # which attributes each single statement lacks a rule for
            reqs.append('(analyse (%s) (%s))' % (' '.join(GV.name_sx(v) for v in c['ruled']), sh)); owner.append((i, sh))
    all_answers = ck.driver('Viral', reqs)
    answers, missing_of = {}, collections.defaultdict(set)
    for (i, sh), a in zip(owner, all_answers):
        if sh is None:
            answers[i] = a
        else:
            x = parse(a)
            if x[0][1] == 'norule':
                missing_of[i] |= set(t[1] for t in x[2:])
    st = GV.structures(GV.SEM_STRUCT)
    outs = run_pool([(c['vtl'], st, None, None, 120, True) for c in cases])
    hist = collections.Counter()
    for i, (c, o) in enumerate(zip(cases, outs)):
        a = answers[i]
        x = parse(a)
        head = x[0][1]
        if head == 'bad-request':
            ck.unproved('protocol:Viral', 'model rejected an analyse request: ' + c['request']); continue
        if o[0] == 'timeout':
            hist['skip:timeout'] += 1; continue
        model_rejects = head == 'norule'
        eng_rejects = o[0] == 'vtl' and o[2] == '1-3-3-6'
        rep = {'script': c['vtl'], 'structures': st, 'model_request': c['request'], 'model_answer': a, 'engine': str(o)[:600]}
        if o[0] != 'ok' and not eng_rejects:
            hist['other-error'] += 1
            ck.violation('semantic:unexpected-error:%s' % (o[2] if o[0] == 'vtl' else o[1]), rep, 'semantic_analysis fails otherwise: %s | %s' % (c['vtl'][-120:], str(o)[:160]))
            continue
        if model_rejects != eng_rejects:
            hist['DISAGREE'] += 1
            key = 'semantic:viral-attribute-without-rule-accepted' if model_rejects else 'semantic:ruled-attribute-rejected'
            ck.violation(key, rep, 'model %s, semantic_analysis %s: %s' % (a, o[:3], c['vtl'][-160:]))
            continue
        if eng_rejects:
            # the reported attribute is one of the un-ruled ones of some statement
            named = [m for m in missing_of[i] if ('attribute %s ' % m) in o[3]]
            if not named:
                hist['DISAGREE:name'] += 1
                ck.violation('semantic:1-3-3-6-names-another-attribute', rep, 'reported %s, un-ruled %s' % (o[3][:120], sorted(missing_of[i])))
                continue
        hist['agree:' + ('rejected' if eng_rejects else 'accepted')] += 1
        ck.count(('sem', c['vtl']), nontrivial=True)
    ck.note('semantic_outcomes', dict(hist))
    return hist


# ------------------------------------------------------------------------------------------------ (d) replays
def replays(ck):
    """The proved counter-example (Props/C28 enum_group_counter) and fixed probes, on the real engine."""
    rule = GV.NONASSOC
    st = {'ids': [('Id_1', 'Integer')], 'meas': [('Me_1', 'Number')], 'viral': [('VAt_1', 'String')]}
    jobs, perms = [], list(itertools.permutations([('A', 1), ('B', 2), ('C', 3)]))
    vtl = rule.vtl('R', 'VAt_1') + ' DS_r <- sum(DS_1);'
    vtl_an = rule.vtl('R', 'VAt_1') + ' DS_r <- sum(DS_1 over (partition by Id_2));'
    for p in perms:
        env = {'DS_1': dict(st, rows=[(i, Fraction(1), v) for v, i in p])}
        jobs.append((vtl, GV.structures(env), env, None, 240, False))
    st2 = {'ids': [('Id_1', 'Integer'), ('Id_2', 'String')], 'meas': [('Me_1', 'Number')], 'viral': [('VAt_1', 'String')]}
    for p in perms:
        env = {'DS_1': dict(st2, rows=[(i, 'g', Fraction(1), v) for v, i in p])}
        jobs.append((vtl_an, GV.structures(env), env, None, 240, False))
    # enumerated rule written with Integer constants
    env_i = {'DS_1': {'ids': [('Id_1', 'Integer')], 'meas': [('Me_1', 'Number')], 'viral': [('VAt_1', 'Integer')], 'rows': [(1, Fraction(1), 1), (2, Fraction(2), 5)]}}
    vtl_i = 'define viral propagation R (variable VAt_1) is when 1 then 2; else 0 end viral propagation; DS_r <- DS_1 + DS_1;'
    jobs.append((vtl_i, GV.structures(env_i), env_i, None, 240, False))
    # membership
    env_m = {'DS_1': dict(st, rows=[(1, Fraction(1), 'A'), (2, Fraction(2), 'B')])}
    vtl_m = GV.PRIO.vtl('R', 'VAt_1') + ' DS_r <- DS_1#Me_1;'
    jobs.append((vtl_m, GV.structures(env_m), env_m, None, 240, False))
    rule_n = GV.Rule('enum', [(('A', None), 'B')], None)
    env_n = {'DS_1': dict(st, rows=[(1, Fraction(1), 'A'), (2, Fraction(2), 'B')])}
    vtl_n = rule_n.vtl('R', 'VAt_1') + ' T_1 := DS_1 + 3; DS_r <- T_1 + T_1;'
    jobs.append((vtl_n, GV.structures(env_n), env_n, None, 240, False))
    outs = run_pool(jobs, procs=8)
    for name, key, chunk, script in (('aggregation', 'row-order-dependence:aggregation:enumerated-rule', outs[:6], vtl),
                                     ('analytic', 'row-order-dependence:analytic:enumerated-rule', outs[6:12], vtl_an)):
        vals = []
        for o in chunk:
            if o[0] == 'ok' and o[1].get('DS_r', ('',))[0] == 'ds':
                comps, rows = o[1]['DS_r'][1], o[1]['DS_r'][2]
                j = [c[0] for c in comps].index('VAt_1')
                vals.append(tuple(sorted(str(r[j]) for r in rows)))
            else:
                vals.append(('?', str(o)[:80]))
        ck.count(('replay', name), nontrivial=True, n=6)
        ck.note('counterexample_replay_' + name, {'/'.join(v for v, _ in p): list(x) for p, x in zip(perms, vals)})
        if len(set(vals)) > 1:
            ck.violation(key, {'script': script, 'rule': rule.to_json(), 'results_by_row_order': {'/'.join(v for v, _ in p): list(x) for p, x in zip(perms, vals)}},
                         'enumerated rule folded by list_reduce(list(col)) without ORDER BY: the %s result for the same three datapoints '
                         'depends on their row order: %s' % (name, sorted(set(vals))))
    o = outs[12]
    ck.count(('replay', 'int-constants'), nontrivial=True)
    if o[0] == 'raw':
        ck.violation('enum-rule:non-string-constant:raw-%s' % o[1].split('.')[-1], {'script': vtl_i, 'structures': GV.structures(env_i), 'engine': str(o)},
                     'an enumerated rule whose clause values are Integer constants crashes run() with %s' % (o[1:],))
    o = outs[14]
    ck.count(('replay', 'untyped-null'), nontrivial=True)
    if o[0] == 'raw' and 'ConversionException' in o[1]:
        ck.violation('enum-rule:no-one-value-clause-no-default:untyped-NULL-column:ConversionException',
                     {'script': vtl_n, 'structures': GV.structures(env_n), 'engine': str(o)},
                     'a row-preserving operator under an enumerated rule without one-value clause and default writes an untyped NULL column; the next '
                     'statement that combines it fails with a raw ConversionException')
    o = outs[13]
    ck.count(('replay', 'membership'), nontrivial=True)
    if o[0] == 'ok' and o[1].get('DS_r', ('',))[0] == 'ds-mismatch':
        ck.violation('membership:viral-column-missing-from-data', {'script': vtl_m, 'structures': GV.structures(env_m), 'components': str(o[1]['DS_r'][1]), 'columns': o[1]['DS_r'][2]},
                     'DS#comp: the result structure lists the viral attribute, the data has no such column')


def replay(ck, path):
    """Re-run one stored case on the real code and the model: script cases (model vs engine + a row shuffle), semantic cases;
    anything else (fragments, fixed probes) re-runs the fixed probes."""
    import json
    rep = json.load(open(path)).get('replay') or {}
    if 'data' in rep and 'model_request' in rep and 'structures' in rep:
        env = {}
        for dsj in rep['structures']['datasets']:
            comps = dsj['DataStructure']
            typ = [c['type'] for c in comps]

            def cell(v, t):
                if v is None:
                    return None
                if t == 'Number':
                    return Fraction(str(v))
                return v
            env[dsj['name']] = {'ids': [(c['name'], c['type']) for c in comps if c['role'] == 'Identifier'],
                                'meas': [(c['name'], c['type']) for c in comps if c['role'] == 'Measure'],
                                'viral': [(c['name'], c['type']) for c in comps if c['role'] == 'Viral Attribute'],
                                'rows': [tuple(cell(v, t) for v, t in zip(row, typ)) for row in rep['data'].get(dsj['name'], [])]}
        a = ck.driver('Viral', [rep['model_request']])[0]
        outs = run_pool([(rep['script'], rep['structures'], env, seed, 240, False) for seed in (None, 1, 2)], procs=3)
        v, d = R.compare({}, a, outs[0])
        print('model  :', a[:400]); print('engine :', str(outs[0])[:600]); print('verdict:', v, str(d)[:300])
        ck.count(('replay', rep['script']), nontrivial=True)
        for sh in outs[1:]:
            same, why = same_outcome(outs[0], sh)
            if not same:
                ck.violation('replay:row-order-dependence', rep, 'shuffled input rows give another result: ' + why)
        if v.startswith('DISAGREE'):
            ck.violation('replay:' + v, rep, '%s | %s' % (v, str(d)[:300]))
        return
    if 'model_request' in rep and 'script' in rep:
        a = ck.driver('Viral', [rep['model_request']])[0]
        o = run_pool([(rep['script'], rep['structures'], None, None, 120, True)], procs=1)[0]
        print('model  :', a); print('engine :', str(o)[:400])
        ck.count(('replay', rep['script']), nontrivial=True)
        if (parse(a)[0][1] == 'norule') != (o[0] == 'vtl' and o[2] == '1-3-3-6'):
            ck.violation('replay:semantic', rep, 'model %s vs semantic_analysis %s' % (a, o[:3]))
        return
    replays(ck)


def main(ck):
    if ck.replay_path:
        return replay(ck, ck.replay_path)
    pr = ck.proof('C28')
    q = ck.quick()
    nf = int(os.environ.get('VERIF_N_FRAG', 25 if q else 300))
    ns = int(os.environ.get('VERIF_N', 50 if q else 500))
    import time
    t = [time.time()]
    fragments(ck, nf); t.append(time.time())
    replays(ck); t.append(time.time())
    h1 = scripts(ck, ns, 'any-rule'); t.append(time.time())
    h2 = scripts(ck, ns // 2, 'order-free-rules', order_free_only=True); t.append(time.time())
    h3 = semantics(ck, 40 if q else 300); t.append(time.time())
    ck.note('phase_seconds', dict(zip(['fragments', 'replays', 'scripts', 'scripts-order-free', 'semantics'], [round(b - a, 1) for a, b in zip(t, t[1:])])))
    agree = h1['agree'] + h2['agree']
    if agree < ns // 3:
        ck.unproved('correspondence:C28', 'only %d of %d scripts could be compared: %s %s' % (agree, ns + ns // 2, dict(h1), dict(h2)))
    if not pr['ok'] and not ck.viol:
        ck.unproved('Props.C28:' + ','.join(pr['failed'] or pr['forbidden'] or pr['bad_axioms']), 'Lean build/audit failed: ' + pr['log'][-400:])
    ck.cov['rule'] = ('case = fragment (rule, input values) or script (rules, script, input data) or semantic script; non-trivial = model and '
                      'engine agree on a non-empty input / a non-empty result that carries a viral attribute; distinct by full input')
    ck.trusted('correspondence harness (generator harness/sem/gen_viral.py, canonicaliser harness/sem/runner.py: rows as sets keyed by identifiers, '
               'numbers exact-or-1e-9 relative)', 'stand-in parser harness/vtlstub for the script text',
               'modelled not verified: DuckDB evaluation of the generated SQL (CASE / IN / LEAST / GREATEST / list / list_reduce / MIN MAX SUM AVG); '
               'the order in which list() collects a group is NOT fixed by SQL — the model folds in list order and the check compares shuffled inputs')
    ck.assumptions += ['the engine\'s propagation model as restated in lean/VtlModel/Sem/Viral.lean (rule kinds as in the registry; pair / group / '
                       'dataset-wide execution as in ViralPropagation/sql.py); the upstream tests under tests/ViralAttributes are the arbiter',
                       'viral attributes of type String (enumerated, min, max) and Integer / Number (min, max, sum, avg); enumerated rules over '
                       'non-string attributes are outside the model',
                       'analytic invocations and inner joins are compared on identifiers and viral attributes only (their measures are C06 / C04); hierarchies, validations, left/full/cross joins and value-domain rules are not in the generated scripts']


vlib.run_check('C28', main)

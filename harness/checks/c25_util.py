"""C25 helpers: structural AST comparison, statement description, the per-script analysis that runs
in worker processes (real generate_sdmx / create_ast / _check_script / run), corpus discovery.

Everything here runs the REAL vtlengine from eng.REPO under the stand-in parser.  Nothing in this
module decides what is a defect; it reports observations, harness/checks/c25.py classifies them.
"""
from __future__ import annotations

import dataclasses
import glob
import hashlib
import json
import os
import re
import signal
import sys

HARNESS = os.path.dirname(os.path.dirname(os.path.abspath(__file__)))
if HARNESS not in sys.path:
    sys.path.insert(0, HARNESS)

POS = ('line_start', 'column_start', 'line_stop', 'column_stop')


class Budget(BaseException):
    pass


def _alarm(*a):
    raise Budget()


class guard:
    """wall-clock guard around every call into the real engine"""
    def __init__(self, seconds):
        self.s = max(1, int(seconds))
    def __enter__(self):
        signal.signal(signal.SIGALRM, _alarm)
        signal.alarm(self.s)
    def __exit__(self, *a):
        signal.alarm(0)
        return False


def worker_init():
    import eng  # noqa: F401  (installs the stand-in parser, imports vtlengine from eng.REPO)


# ------------------------------------------------------------------ structural AST equality
NORMS = []   # normalisations that were needed since the last reset (worker-local)


def dump(x):
    """position-free canonical form (used only to order the rules of a hierarchical ruleset)"""
    from vtlengine import AST as A
    if isinstance(x, A.AST):
        return (type(x).__name__,) + tuple((f.name, dump(getattr(x, f.name))) for f in dataclasses.fields(x) if f.name not in POS)
    if isinstance(x, (list, tuple)):
        return tuple(dump(v) for v in x)
    return repr(x)


def _mode_default(node, field):
    op = getattr(node, 'op', None)
    if field == 'validation_mode':
        return 'non_null'
    if field == 'input_mode':
        return 'rule' if op == 'hierarchy' else 'dataset'
    if type(node).__name__ == 'DPValidation':
        return 'invalid'
    return 'computed' if op == 'hierarchy' else 'invalid'


def ast_equal(a, b, path='$'):
    """None when a and b are structurally equal ignoring positions, else the path of the first
    difference.  Recursive over vtlengine.AST dataclass fields (ALL of them, `children` included —
    the repo's own AST.__eq__ skips `children`).  Two normalisations, each justified by the code:
      * HROperation.validation_mode / input_mode / output and DPValidation.output: `None` is the
        documented default (Interpreter._get_hr_mode_values / visit_DPValidation and the transpiler read
        `x.value if x else <default>`), ASTString omits a mode equal to the default;
      * HRuleset.rules is compared as a multiset: create_ast re-orders the rules on EVERY parse
        (HRDAGAnalyzer.sort_hr_rules, a topological sort that is not idempotent on its own output)."""
    from vtlengine import AST as A
    if isinstance(a, A.AST) or isinstance(b, A.AST):
        if type(a) is not type(b):
            return '%s: %s vs %s' % (path, type(a).__name__, type(b).__name__)
        cn = type(a).__name__
        for f in dataclasses.fields(a):
            if f.name in POS:
                continue
            x, y = getattr(a, f.name), getattr(b, f.name)
            if (cn == 'HROperation' and f.name in ('validation_mode', 'input_mode', 'output')) or \
                    (cn == 'DPValidation' and f.name == 'output'):
                xv = x.value if x is not None else _mode_default(a, f.name)
                yv = y.value if y is not None else _mode_default(b, f.name)
                if xv != yv:
                    return '%s.%s:%s: %r vs %r' % (path, cn, f.name, xv, yv)
                if (x is None) != (y is None):
                    NORMS.append('%s.%s default' % (cn, f.name))
                continue
            if cn == 'HRuleset' and f.name == 'rules' and isinstance(x, list) and isinstance(y, list):
                xs, ys = sorted(x, key=lambda r: repr(dump(r))), sorted(y, key=lambda r: repr(dump(r)))
                if [dump(r) for r in x] != [dump(r) for r in y] and [dump(r) for r in xs] == [dump(r) for r in ys]:
                    NORMS.append('HRuleset.rules order')
                x, y = xs, ys
            d = ast_equal(x, y, '%s.%s:%s' % (path, cn, f.name))
            if d:
                return d
        return None
    if isinstance(a, (list, tuple)) and isinstance(b, (list, tuple)):
        if len(a) != len(b):
            return '%s: len %d vs %d' % (path, len(a), len(b))
        for i, (x, y) in enumerate(zip(a, b)):
            d = ast_equal(x, y, '%s[%d]' % (path, i))
            if d:
                return d
        return None
    if isinstance(a, dict) and isinstance(b, dict):
        if list(a.keys()) != list(b.keys()):
            return '%s: keys %r vs %r' % (path, list(a)[:6], list(b)[:6])
        for k in a:
            d = ast_equal(a[k], b[k], '%s{%s}' % (path, k))
            if d:
                return d
        return None
    if dataclasses.is_dataclass(a) and not isinstance(a, type) and type(a) is type(b):
        for f in dataclasses.fields(a):
            if f.name == 'data':
                continue
            d = ast_equal(getattr(a, f.name), getattr(b, f.name), '%s.%s:%s' % (path, type(a).__name__, f.name))
            if d:
                return d
        return None
    if isinstance(a, float) and isinstance(b, float):
        return None if (a == b or (a != a and b != b)) else '%s: %r vs %r' % (path, a, b)
    if type(a) is not type(b):
        return '%s: %r (%s) vs %r (%s)' % (path, a, type(a).__name__, b, type(b).__name__)
    try:
        ok = a == b
        ok = bool(ok)
    except Exception:
        ok = repr(a) == repr(b)
    return None if ok else '%s: %r vs %r' % (path, str(a)[:60], str(b)[:60])


def first_diff_class(a, b):
    """class name of the innermost AST node on the path of the first difference (for keys)"""
    d = ast_equal(a, b)
    if not d:
        return None
    m = re.findall(r'\.([A-Za-z]+):([A-Za-z_]+)', d.split(': ')[0])
    if m:
        return '%s.%s' % m[-1]
    return d.split(':')[0]


def kind_of(child):
    from vtlengine import AST as A
    if isinstance(child, A.PersistentAssignment):
        return 'P'
    if isinstance(child, A.Assignment):
        return 'A'
    if isinstance(child, A.HRuleset):
        return 'H'
    if isinstance(child, A.DPRuleset):
        return 'D'
    if isinstance(child, A.Operator):
        return 'U'
    if isinstance(child, A.ViralPropagationDef):
        return 'V'
    return '?' + type(child).__name__


def name_of(child):
    k = kind_of(child)
    if k in 'AP':
        return getattr(child.left, 'value', None)
    if k == 'U':
        return child.op
    return getattr(child, 'name', None)


def describe(children):
    """[(kind, name, scope)] of ast.children, independent of generate_sdmx (reads the AST only)"""
    out = []
    for c in children:
        k = kind_of(c)
        sc = None
        if k in 'HD':
            sc = getattr(c, 'signature_type', None)
        out.append((k, name_of(c), sc))
    return out


def hexs(s):
    return (s if isinstance(s, str) else repr(s)).encode('utf-8').hex() or '00ff'


def stmt_token(i, desc):
    """request token for the Lean driver: the body is the statement number `e<i>` (opaque to the model)"""
    k, n, sc = desc
    if k in 'AP':
        return 'a:%s:%s:e%d' % ('1' if k == 'P' else '0', hexs(n), i)
    if k in 'HD':
        return 'r:%s:%s:%s:e%d' % ('hr' if k == 'H' else 'dp', hexs(n), 'var' if sc == 'variable' else 'vd', i)
    if k == 'U':
        return 'u:%s:e%d' % (hexs(n), i)
    if k == 'V':
        return 'v:%s:e%d' % (hexs(n), i)
    return None


def errsig(e):
    from vtlengine.Exceptions import VTLEngineException
    code = None
    if isinstance(e, VTLEngineException):
        code = getattr(e, 'code', None)
        if code is None and len(getattr(e, 'args', ())) > 1 and isinstance(e.args[1], str):
            code = e.args[1]
    where = None
    tb = e.__traceback__
    while tb is not None:       # innermost frame inside the vtlengine package
        fn = tb.tb_frame.f_code.co_filename
        if '/vtlengine/' in fn and '/vtlstub' not in fn:
            where = '%s.%s' % (os.path.basename(fn)[:-3], tb.tb_frame.f_code.co_name)
        tb = tb.tb_next
    return [type(e).__name__, code, str(e)[:200], where]


# ------------------------------------------------------------------ the per-script analysis (worker)
def analyze(job):
    """job = dict(id, text, budget).  Runs create_ast, generate_sdmx, the re-parse comparisons and
    _check_script on the real code; returns a JSON-able record (no AST objects cross processes)."""
    from vtlengine import generate_sdmx
    from vtlengine.API import create_ast
    from vtlengine.API._InternalApi import _check_script
    text = job['text']
    rec = {'id': job['id'], 'stage': 'parse', 'diffs': []}
    del NORMS[:]
    try:
        with guard(job.get('budget', 20)):
            try:
                ast = create_ast(text)
            except Exception as e:  # noqa: BLE001
                rec['parse_error'] = errsig(e)
                return rec
            children = list(ast.children)
            rec['desc'] = describe(children)
            rec['stage'] = 'generate'
            try:
                sch = generate_sdmx(text, agency_id='MD', id='X')
            except Exception as e:  # noqa: BLE001
                rec['generate_error'] = errsig(e)
                return rec
            items = list(sch.items)
            rss = [r for rs in sch.ruleset_schemes for r in getattr(rs, 'items', [])]
            uds = [u for us in sch.user_defined_operator_schemes for u in getattr(us, 'items', [])]
            rec['items'] = [[t.id, t.result, bool(t.is_persistent), t.expression] for t in items]
            rec['rulesets'] = [[r.id, r.ruleset_type, r.ruleset_scope, r.ruleset_definition, r.name] for r in rss]
            rec['udos'] = [[u.id, u.operator_definition, u.name] for u in uds]
            rec['scheme_meta'] = [sch.id, str(sch.agency), sch.version, sch.vtl_version,
                                  [getattr(x, 'id', None) for x in sch.ruleset_schemes],
                                  [getattr(x, 'id', None) for x in sch.user_defined_operator_schemes]]
            rec['stage'] = 'reparse'
            # (b) every item re-parses to the statement the AST says it came from.  The pairing is by
            # position within the kind (what the Lean model predicts; c25.py checks the prediction).
            a_children = [c for c in children if kind_of(c) in 'AP']
            r_children = [c for c in children if kind_of(c) in 'HD']
            u_children = [c for c in children if kind_of(c) == 'U']
            for what, its, chs, textof in (
                    ('transformation', items, a_children, lambda t: t.full_expression),
                    ('ruleset', rss, r_children, lambda r: r.ruleset_definition),
                    ('udo', uds, u_children, lambda u: u.operator_definition)):
                for k, it in enumerate(its):
                    if k >= len(chs):
                        break
                    src = textof(it)
                    try:
                        re_ast = create_ast(src)
                    except Exception as e:  # noqa: BLE001
                        rec['diffs'].append({'what': what, 'k': k, 'kind': 'reparse-error', 'text': src[:400],
                                             'err': errsig(e), 'node': type(chs[k]).__name__})
                        continue
                    if len(re_ast.children) != 1:
                        rec['diffs'].append({'what': what, 'k': k, 'kind': 'reparse-count', 'text': src[:400],
                                             'n': len(re_ast.children)})
                        continue
                    d = ast_equal(chs[k], re_ast.children[0])
                    if d:
                        rec['diffs'].append({'what': what, 'k': k, 'kind': 'ast-differs', 'text': src[:400], 'path': d[:300],
                                             'cls': first_diff_class(chs[k], re_ast.children[0])})
            rec['stage'] = 'check_script'
            try:
                regenerated = _check_script(sch)
                rec['regenerated'] = regenerated
            except Exception as e:  # noqa: BLE001
                rec['check_script_error'] = errsig(e)
                return rec
            rec['stage'] = 'reparse_all'
            try:
                ast2 = create_ast(regenerated)
            except Exception as e:  # noqa: BLE001
                rec['regenerated_parse_error'] = errsig(e)
                return rec
            d1 = {(kind_of(c), name_of(c)): c for c in children}
            d2 = {(kind_of(c), name_of(c)): c for c in ast2.children}
            rec['regen_missing'] = sorted([list(map(str, k)) for k in d1 if k not in d2])
            rec['regen_extra'] = sorted([list(map(str, k)) for k in d2 if k not in d1])
            rec['regen_count'] = [len(children), len(ast2.children)]
            for k in d1:
                if k in d2:
                    d = ast_equal(d1[k], d2[k])
                    if d:
                        rec['diffs'].append({'what': 'regenerated', 'k': list(map(str, k)), 'kind': 'ast-differs', 'path': d[:300],
                                             'cls': first_diff_class(d1[k], d2[k])})
            rec['stage'] = 'done'
            rec['norms'] = sorted(set(NORMS))
    except Budget:
        rec['timeout'] = rec['stage']
    except RecursionError:
        rec['recursion'] = rec['stage']
    return rec


# ------------------------------------------------------------------ run(script) vs run(scheme) (worker)
def canon_results(res):
    import eng
    from vtlengine.Model import Dataset, Scalar
    out = {}
    for name, obj in res.items():
        if isinstance(obj, Dataset):
            comps, rows, _cols = eng.canon_dataset(obj)
            out[name] = ['ds', [list(c) for c in comps], [list(r) for r in rows] if rows is not None else None]
        elif isinstance(obj, Scalar):
            out[name] = ['sc', getattr(obj.data_type, '__name__', str(obj.data_type)), eng.canon_value(obj.value)]
        else:
            out[name] = ['other', repr(obj)[:100]]
    return out


def results_equal(a, b):
    """None when equal (sets of rows, numeric tolerance), else a short description"""
    import eng
    if sorted(a) != sorted(b):
        return 'result names %r vs %r' % (sorted(a)[:8], sorted(b)[:8])
    for n in a:
        x, y = a[n], b[n]
        if x[0] != y[0]:
            return '%s: %s vs %s' % (n, x[0], y[0])
        if x[0] == 'ds':
            if x[1] != y[1]:
                return '%s: components %r vs %r' % (n, x[1], y[1])
            if (x[2] is None) != (y[2] is None):
                return '%s: data presence' % n
            if x[2] is not None:
                if len(x[2]) != len(y[2]):
                    return '%s: %d rows vs %d rows' % (n, len(x[2]), len(y[2]))
                for r1, r2 in zip(x[2], y[2]):
                    if len(r1) != len(r2) or not all(eng.num_eq(u, v) for u, v in zip(r1, r2)):
                        return '%s: row %r vs %r' % (n, r1, r2)
        elif x[0] == 'sc':
            if x[1] != y[1] or not eng.num_eq(x[2], y[2]):
                return '%s: scalar %r vs %r' % (n, x[1:], y[1:])
        elif x != y:
            return '%s: %r vs %r' % (n, x, y)
    return None


def _load_inputs(job):
    import pandas as pd
    if 'structures' in job:
        ds = job['structures']
        dp = {n: pd.DataFrame(rows, columns=cols) for n, (cols, rows) in job['datapoints'].items()}
        return ds, dp, None, None
    from pathlib import Path
    ds, dp = [], {}
    for js in job['json_files']:
        ds.append(Path(js))
        st = json.load(open(js))
        csv = js.replace('/DataStructure/input/', '/DataSet/input/')[:-5] + '.csv'
        for d in st.get('datasets', []):
            dp[d['name']] = Path(csv) if os.path.exists(csv) else None
    vds = [Path(p) for p in job.get('vd_files', [])] or None
    ers = None
    if job.get('sql_files'):
        ers = [{'name': os.path.basename(p)[:-4], 'query': open(p).read()} for p in job['sql_files']]
        if len(ers) == 1:
            ers = ers[0]
    return ds, dp, vds, ers


def run_pair(job):
    """run(script=text) and run(script=generate_sdmx(text)) on the same inputs; JSON-able record."""
    from vtlengine import generate_sdmx, run
    text = job['text']
    rec = {'id': job['id']}
    outs = []
    try:
        with guard(job.get('budget', 60)):
            try:
                sch = generate_sdmx(text, agency_id='MD', id='X')
            except Exception as e:  # noqa: BLE001
                rec['generate_error'] = errsig(e)
                return rec
            rec['n_items'] = len(sch.items)
            for script in (text, sch):
                try:
                    ds, dp, vds, ers = _load_inputs(job)
                    res = run(script=script, data_structures=ds, datapoints=dp, value_domains=vds,
                              external_routines=ers, return_only_persistent=False)
                    outs.append(('ok', canon_results(res)))
                except Exception as e:  # noqa: BLE001
                    if 'interrupted' in str(e).lower():     # DuckDB's answer to the SIGALRM of the guard
                        raise Budget()
                    outs.append(('err', errsig(e)))
            if job.get('persistent_check') and outs[0][0] == 'ok' and outs[1][0] == 'ok':
                ds, dp, vds, ers = _load_inputs(job)
                a = sorted(run(script=text, data_structures=ds, datapoints=dp, value_domains=vds,
                               external_routines=ers, return_only_persistent=True))
                ds, dp, vds, ers = _load_inputs(job)
                b = sorted(run(script=sch, data_structures=ds, datapoints=dp, value_domains=vds,
                               external_routines=ers, return_only_persistent=True))
                rec['persistent_names_text'], rec['persistent_names_scheme'] = a, b
    except Budget:
        rec['timeout'] = True
        return rec
    except RecursionError:
        rec['recursion'] = True
        return rec
    except Exception as e:  # noqa: BLE001   (only the optional persistence runs can get here)
        if 'interrupted' in str(e).lower() or len(outs) != 2:
            rec['timeout'] = True
            return rec
        rec['persistent_err'] = errsig(e)
    (k1, v1), (k2, v2) = outs
    rec['text_outcome'], rec['scheme_outcome'] = k1, k2
    if k1 == 'ok' and k2 == 'ok':
        rec['diff'] = results_equal(v1, v2)
        rec['n_results'] = len(v1)
        rec['n_rows'] = sum(len(x[2] or []) for x in v1.values() if x[0] == 'ds')
    elif k1 == 'err' and k2 == 'err':
        rec['err_text'], rec['err_scheme'] = v1, v2
        rec['diff'] = None if v1[:2] == v2[:2] else 'different errors %r vs %r' % (v1[:3], v2[:3])
    else:
        rec['err_text'] = v1 if k1 == 'err' else None
        rec['err_scheme'] = v2 if k2 == 'err' else None
        rec['diff'] = 'text run %s, scheme run %s: %r' % (k1, k2, (v1 if k1 == 'err' else v2))
    return rec


# ------------------------------------------------------------------ corpus
def corpus_files(repo):
    return sorted(glob.glob(repo + '/tests/**/*.vtl', recursive=True))


def corpus_inputs(vtl_path):
    """the upstream convention (tests/Helper.py): <D>/data/vtl/<code>.vtl reads
    <D>/data/DataStructure/input/<code>-[DS_]<i>.json and <D>/data/DataSet/input/<same>.csv"""
    d = os.path.dirname(vtl_path)
    if os.path.basename(os.path.dirname(d)) != 'data':
        return None
    base = os.path.dirname(d)
    code = os.path.basename(vtl_path)[:-4]
    js = []
    for p in glob.glob(os.path.join(base, 'DataStructure', 'input', glob.escape(code) + '-*.json')):
        rest = os.path.basename(p)[len(code) + 1:-5]
        if re.fullmatch(r'(DS_)?\d+', rest):
            js.append((int(re.sub(r'\D', '', rest)), p))
    if not js:
        return None
    js = [p for _, p in sorted(js)]
    vds = sorted(glob.glob(os.path.join(base, 'ValueDomain', '*.json')))
    sqls = sorted(glob.glob(os.path.join(base, 'sql', '*.sql')))
    return {'json_files': js, 'vd_files': vds, 'sql_files': sqls}


def sha(s):
    return hashlib.sha1(s.encode('utf-8', 'replace')).hexdigest()[:12]


# ------------------------------------------------------------------ generator (ground truth by construction)
GEN_COMPS = [('Id_1', 'Integer', 'Identifier'), ('Id_2', 'String', 'Identifier'),
             ('Me_1', 'Number', 'Measure'), ('Me_2', 'Number', 'Measure')]
VIRAL_COMPS = [('Id_1', 'Integer', 'Identifier'), ('Me_1', 'Number', 'Measure'), ('VAt_1', 'String', 'Viral Attribute')]

# templates whose result has the same structure as the operands ("full"): usable as operands later
FULL = [
    '{a} + {b}', '{a} - {b}', '{a} * 2', '{a} * 2.5', '{a} / 4', 'abs({a})', 'round({a}, 1)', '-{a}', '({a} + {b}) * 3',
    '{a}[filter Me_1 > 3]', '{a}[filter Id_2 = "A" or Me_2 <= 7.25]', 'nvl({a}, 0)', '{a}[calc Me_1 := Me_1 + Me_2]',
    'union({a}, {b})', '{a}[calc Me_2 := Me_2 * 2][filter Me_1 >= 0]', 'inner_join({a} as d1, {b} as d2 keep d1#Me_1, d2#Me_2)',
    'if {a}#Me_1 > 2 then {a} else {b}', '{a}[calc Me_1 := if Me_1 > 2 then Me_1 else Me_2]', 'mod({a}, 5)', 'power({a}, 2)',
    'ceil({a}) + floor({b})', '{a}[calc Me_2 := nvl(Me_2, 0.5)]', 'setdiff({a}, {b})', 'trunc({a}, 1)',
    '{a}[calc Me_1 := case when Me_1 > 5 then 1 when Me_1 > 2 then 2 else 3]', 'intersect({a}, {b})',
]
# templates with another result structure (never used as operands)
LEAF = [
    '{a}#Me_1', '{a}[keep Me_1]', '{a}[drop Me_2]', '{a}[rename Me_1 to Me_9]', 'sum({a} group by Id_1)',
    '{a}[aggr Me_3 := sum(Me_1), Me_4 := max(Me_2) group by Id_1]', '{a}#Me_1 > 2', '{a}#Me_2 = {b}#Me_2', '{a}[keep Me_1] >= {b}[keep Me_1]', 'count({a} group by Id_2)',
    'check({a}#Me_1 > {b}#Me_1 errorcode "E1" errorlevel 2 imbalance {a}#Me_1 - {b}#Me_1)', 'check({a}#Me_1 >= 0 all)',
    '{a}[calc Me_3 := sum(Me_1 over (partition by Id_1))]', '{a}[calc Me_3 := rank(over (partition by Id_1 order by Me_1 desc))]',
    '{a}[calc Me_3 := cast(Me_1, string)]', '{a}[calc Me_3 := Me_1 in {{1, 2, 3}}]', '{a}[calc Me_3 := between(Me_1, 1, 5)]',
    '{a}[calc identifier Id_3 := Id_2 || "x"]', '{a}[sub Id_2 = "A"]', 'exists_in({a}, {b})', 'isnull({a}#Me_1)',
    '{a}[calc Me_3 := substr(Id_2, 1, 1), Me_4 := length(Id_2)]', 'avg({a} group except Id_2)', 'min({a}#Me_2 group by Id_2)',
    'left_join({a} as d1, {b} as d2 filter d1#Me_1 > 0 calc Me_3 := d1#Me_1 + d2#Me_2 keep Me_3)',
    '{a}[calc Me_3 := Me_1 > 1 and not (Me_2 < 3) xor Me_1 = Me_2]', '{a}[calc Me_3 := upper(Id_2) || lower("Z") || trim(" q ")]',
    '{a}[calc Me_3 := sqrt(abs(Me_1)) + exp(0) + ln(1) + log(8, 2)]', '{a}[filter Me_1 <> 2][keep Me_2]',
    '{a}[calc Me_3 := lag(Me_1, 1 over (partition by Id_2 order by Id_1))]', '{a}[unpivot Id_3, Me_3]',
    '{a}[calc Me_3 := first_value(Me_1 over (partition by Id_2 order by Id_1 data points between 1 preceding and current data point))]',
    'max({a}#Me_1 group by Id_1 having count() > 1)', '{a}[calc Me_3 := instr(Id_2, "A") + 1]', '{a}[calc Me_3 := replace(Id_2, "A", "B")]',
    'symdiff({a}, {b})', '{a}[calc attribute At_1 := "x"]', '{a}[calc Me_3 := null]', '{a}[calc Me_3 := true]',
    'cross_join({a} as d1, {b} as d2 rename d1#Me_1 to M1, d1#Me_2 to M2, d2#Me_1 to M3, d2#Me_2 to M4, d1#Id_1 to I1, d1#Id_2 to I2, d2#Id_1 to I3, d2#Id_2 to I4)',
]
SCALARS = ['3 + 4', '"a" || "b"', 'round(2.345, 2)', 'true and false', '10 / 4', 'abs(-3)', 'length("abc")', '2.5 * 4']
DP_RULESETS = [
    ('variable', 'define datapoint ruleset {n} (variable Me_1 as M, Me_2) is\n  r1: when M > 0 then Me_2 >= 0 errorcode "neg" errorlevel 2;\n  r2: M < 1000\nend datapoint ruleset;'),
    ('variable', 'define datapoint ruleset {n} (variable Id_2, Me_1) is when Id_2 = "A" then Me_1 > 1 errorcode "e" end datapoint ruleset;'),
    ('variable', 'define datapoint ruleset {n} (variable Me_1) is Me_1 >= 0 errorlevel 5 end datapoint ruleset;'),
    ('valuedomain', 'define datapoint ruleset {n} (valuedomain VD_num as M) is M > 0 end datapoint ruleset;'),
]
HR_RULESETS = [
    ('variable', 'define hierarchical ruleset {n} (variable rule Id_2) is\n  A = B + C errorcode "h1" errorlevel 1;\n  D >= B\nend hierarchical ruleset;'),
    ('variable', 'define hierarchical ruleset {n} (variable rule Id_2) is r1: A = B - C; r2: B > C errorcode "gt" end hierarchical ruleset;'),
    ('valuedomain', 'define hierarchical ruleset {n} (valuedomain rule VD_1) is T = A + B - C end hierarchical ruleset;'),
    ('variable', 'define hierarchical ruleset {n} (variable condition Id_1 rule Id_2) is when Id_1 > 0 then A = B + C errorcode "c" end hierarchical ruleset;'),
]
UDOS = [
    ('ds_int', 'define operator {n} (x dataset, y integer default 1) returns dataset is x + y end operator;'),
    ('ds_ds', 'define operator {n} (x dataset, y dataset) returns dataset is x - y end operator;'),
    ('comp', 'define operator {n} (c component, k number default 2.5) returns component is c * k end operator;'),
    ('ds', 'define operator {n} (x dataset) returns dataset is x[filter Me_1 > 0] end operator;'),
    ('str', 'define operator {n} (s component) returns component is upper(s) end operator;'),
    ('scal', 'define operator {n} (s string, k integer default 2) returns string is substr(upper(s), 1, k) end operator;'),
]
VIRALS = [
    'define viral propagation {n} (variable VAt_1) is\n  when "C" then "C";\n  when "N" then "N";\n  else "F"\nend viral propagation;',
    'define viral propagation {n} (variable VAt_1) is when "C" and "N" then "X"; else "F" end viral propagation;',
    'define viral propagation {n} (variable VAt_1) is aggregate max end viral propagation;',
]
VIRAL_EXPRS = ['{a} + {b}', '{a} * 2', '{a} - {b}', '{a}[filter Me_1 > 1]', 'abs({a})', '{a} / {b}']


def _ident(rng, used, reserved):
    while True:
        n = rng.choice('ABCDEFGHKMNPQRSTXYZabcdefgxyz') + ''.join(
            rng.choice('abcdefghijklmnopqrstuvwxyzABCDEFGHIJKLMNOPQRSTUVWXYZ0123456789_') for _ in range(rng.randint(1, 8)))
        if n.lower() not in reserved and n not in used and not re.fullmatch(r'(DS|Id|Me|At|VAt|VD)_\w+', n) and n not in ('d1', 'd2'):
            used.add(n)
            return n



def _err_suffix(rng):
    """errorcode / errorlevel in all four presence combinations (codes: strings and integers; levels: integers)"""
    code = rng.choice(['"c%d"' % rng.randint(1, 9), '"low level"', str(rng.randint(1, 99))])
    level = str(rng.randint(0, 9))
    return rng.choice(['', ' errorcode ' + code, ' errorlevel ' + level, ' errorcode %s errorlevel %s' % (code, level)])


def gen_dp_ruleset(rng):
    rules = []
    for i in range(rng.randint(1, 4)):
        body = rng.choice(['Me_1 >= 0', 'when Me_1 > 0 then Me_2 >= 0', 'Me_1 < 1000', 'when Me_2 > 3 then Me_1 <> 1', 'Me_1 + Me_2 > 0'])
        rules.append(body + _err_suffix(rng))
    if rng.random() < 0.5:
        rules = ['r%d: %s' % (i + 1, r) for i, r in enumerate(rules)]
    return ('variable', 'define datapoint ruleset {n} (variable Me_1, Me_2) is\n  %s\nend datapoint ruleset;' % ';\n  '.join(rules))


def gen_hr_ruleset(rng):
    rules = []
    pool = ['A = B + C', 'D >= B', 'E = B - C', 'F > C', 'G = B + C - B', 'H <= C']      # left sides never feed another rule (no cycles)
    rng.shuffle(pool)
    for i in range(rng.randint(1, 4)):
        rules.append(pool[i] + _err_suffix(rng))
    if rng.random() < 0.5:
        rules = ['r%d: %s' % (i + 1, r) for i, r in enumerate(rules)]
    return ('variable', 'define hierarchical ruleset {n} (variable rule Id_2) is\n  %s\nend hierarchical ruleset;' % ';\n  '.join(rules))


def gen_script(rng, reserved, viral=False):
    """-> dict(text, truth=[(kind, name, scope)] in SOURCE order, structures, datapoints)"""
    used = set()
    stmts = []          # (kind, name, scope, text) in logical order
    n_def = rng.choice([0, 0, 1, 2, 3, 4])
    dps, hrs, udos = [], [], []
    for _ in range(n_def if not viral else rng.choice([0, 1])):
        w = rng.choice(['dp', 'hr', 'udo'])
        n = _ident(rng, used, reserved)
        if w == 'dp':
            sc, t = rng.choice(DP_RULESETS) if rng.random() < 0.5 else gen_dp_ruleset(rng); stmts.append(('D', n, sc, t.replace('{n}', n)))
            if sc == 'variable': dps.append(n)
        elif w == 'hr':
            sc, t = rng.choice(HR_RULESETS) if rng.random() < 0.5 else gen_hr_ruleset(rng); stmts.append(('H', n, sc, t.replace('{n}', n)))
            if sc == 'variable' and 'condition' not in t: hrs.append(n)
        else:
            k, t = rng.choice(UDOS); stmts.append(('U', n, None, t.replace('{n}', n))); udos.append((n, k))
    if viral:
        for _ in range(1):      # one rule per viral attribute (two for the same variable is error 1-3-3-1)
            n = _ident(rng, used, reserved)
            stmts.append(('V', n, None, rng.choice(VIRALS).replace('{n}', n)))
    full = ['DS_1', 'DS_2']
    n_as = rng.choice([1, 1, 2, 3, 4, 5, 6, 8])
    for _ in range(n_as):
        n = _ident(rng, used, reserved)
        a = rng.choice(full)
        b = rng.choice([x for x in full if x != a])
        r = rng.random()
        is_full = False
        if viral:
            e = rng.choice(VIRAL_EXPRS); is_full = True
        elif r < 0.45:
            e = rng.choice(FULL); is_full = True
        elif r < 0.80:
            e = rng.choice(LEAF)
        elif r < 0.86:
            e = rng.choice(SCALARS)
        elif r < 0.91 and dps:
            e = 'check_datapoint({a}, %s%s)' % (rng.choice(dps), rng.choice(['', ' all', ' invalid', ' all_measures']))
        elif r < 0.95 and hrs:
            h = rng.choice(hrs)
            e = rng.choice(['check_hierarchy({a}[keep Me_1], %s rule Id_2%s)' % (h, rng.choice(['', ' non_zero', ' partial_null all', ' always_zero dataset all_measures'])),
                            'hierarchy({a}[keep Me_1], %s rule Id_2%s)' % (h, rng.choice(['', ' non_zero', ' non_null all', ' rule_priority computed']))])
        elif udos:
            u, k = rng.choice(udos)
            e = {'ds_int': rng.choice(['%s({a}, 2)', '%s({a})']) % u, 'ds_ds': '%s({a}, {b})' % u, 'ds': '%s({a})' % u,
                 'comp': '{a}[calc Me_3 := %s(Me_1, 3)]' % u, 'str': '{a}[calc Me_3 := %s(Id_2)]' % u,
                 'scal': '%s("abc")' % u}[k]
            is_full = k in ('ds_int', 'ds_ds', 'ds')
        else:
            e = rng.choice(FULL); is_full = True
        e = e.replace('{a}', a).replace('{b}', b).replace('{{', '{').replace('}}', '}')
        pers = rng.random() < 0.4
        op = '<-' if pers else ':='
        sp = rng.choice([' ', ' ', '  ', '\n    ', '\t'])
        stmts.append(('P' if pers else 'A', n, None, '%s%s%s%s%s;' % (n, rng.choice([' ', ' ', '']), op, sp, e)))
        if is_full:
            full.append(n)
    rng.shuffle(stmts)
    parts = []
    for k, n, sc, t in stmts:
        if rng.random() < 0.15:
            parts.append(rng.choice(['/* block %s */' % n, '// line comment']))
        parts.append(t)
    text = rng.choice(['\n', '\n\n', '\n']).join(parts) + rng.choice(['', '\n'])
    comps = VIRAL_COMPS if viral else GEN_COMPS
    structures = {'datasets': [{'name': d, 'DataStructure': [
        {'name': c, 'type': t, 'role': r, 'nullable': r != 'Identifier'} for c, t, r in comps]} for d in ('DS_1', 'DS_2')]}
    dpts = {}
    for d in ('DS_1', 'DS_2'):
        rows, seen = [], set()
        for _ in range(rng.randint(0, 7)):
            if viral:
                key = (rng.randint(1, 4),)
            else:
                key = (rng.randint(1, 3), rng.choice('ABCD'))
            if key in seen: continue
            seen.add(key)
            if viral:
                rows.append([key[0], rng.choice([None, 1.5, 2.0, 10.0, -3.25]), rng.choice(['C', 'N', 'F', None])])
            else:
                rows.append([key[0], key[1], rng.choice([None, 0.0, 1.0, 2.5, 4.0, 7.75, -3.0]), rng.choice([None, 1.0, 3.5, 6.0, 100.0])])
        dpts[d] = ([c for c, _, _ in comps], rows)
    return {'text': text, 'truth': [(k, n, sc) for k, n, sc, _ in stmts], 'structures': structures, 'datapoints': dpts}


_TOP = re.compile(r'^\s*(?:/\*.*?\*/\s*|//[^\n]*\n\s*)*(?:(define)\s+(datapoint\s+ruleset|hierarchical\s+ruleset|operator|viral\s+propagation)\s+(\w+)|(\w+)\s*(:=|<-))', re.S)


def text_oracle(text):
    """regex / text split of a GENERATED script (one statement per chunk, chunks end at a `;` that closes a
    statement: definitions end with `end ...;`).  Independent of the parser and of the generator's list."""
    out = []
    rest = text
    while True:
        m = _TOP.match(rest)
        if not m:
            break
        if m.group(1):
            kind = {'d': 'D', 'h': 'H', 'o': 'U', 'v': 'V'}[m.group(2)[0]]
            end = re.search(r'end\s+(datapoint\s+ruleset|hierarchical\s+ruleset|operator|viral\s+propagation)\s*;', rest)
            out.append((kind, m.group(3)))
            rest = rest[end.end():]
        else:
            out.append(('P' if m.group(5) == '<-' else 'A', m.group(4)))
            # an assignment ends at the first `;` outside a string literal
            i, q = m.end(), False
            while i < len(rest) and (q or rest[i] != ';'):
                if rest[i] == '"': q = not q
                i += 1
            rest = rest[i + 1:]
    return out

"""C09 — cast converts according to the documented conversion table; rename rule for mono-measure datasets.

  1. translators regenerate Gen/{Promotion,PromotionFns,Operators,CastCode,DocTables}.lean from $VERIF_REPO
  2. lake build VtlModel.Props.C09 (+ axiom audit)
  3. correspondence (driver lean/Drivers/Types.lean)
       K1  generated tables / transcribed `check_without_mask` / rename branch vs the live objects and live
           `Cast.check_without_mask`; calendar helpers of the model vs Python `datetime` (independent oracle)
       K2  every (source, target) pair through semantic_analysis() at scalar / component / dataset level (acceptance,
           result type, measure name) and, for accepted pairs, a value pool through run() at the three levels,
           compared with `Cast.castSpec` (the documented conversion) and across levels
  4. every deviation of the real engine from the documented conversion is a failing input of the property:
       cast_table:<src>-><tgt>:…      code accepts a pair the documented tables forbid (or the reverse)
       cast_value:<src>-><tgt>:<level>:accepts_invalid | rejects_valid | wrong_value | invalid_typed_value
       cast_levels:<src>-><tgt>       the three levels disagree on the same value where the docs are silent
       cast_rename:<src>-><tgt>       measure name differs from the documented rule
"""
import decimal
import json
import multiprocessing as mp
import os
import signal
import sys
import time

sys.path.insert(0, os.path.join(os.path.dirname(os.path.abspath(__file__)), '..'))
sys.path.insert(0, os.path.join(os.path.dirname(os.path.abspath(__file__)), '..', 'translate'))
import vlib  # noqa: E402

TY = ['String', 'Number', 'Integer', 'Time', 'Date', 'Time_Period', 'Duration', 'Boolean', 'Null']
IX = {n: i for i, n in enumerate(TY)}
BASIC = TY[:8]
VT = {'Integer': 'integer', 'Number': 'number', 'String': 'string', 'Boolean': 'boolean', 'Date': 'date',
      'Time_Period': 'time_period', 'Time': 'time', 'Duration': 'duration'}
CLSNAME = {'TimeInterval': 'Time', 'TimePeriod': 'Time_Period'}

POOL = {
    'Integer': [0, 1, -7, 42, 1000000],
    'Number': [0.0, 1.0, 3.7, -3.7, 2.5, -0.5, 1000.0, 0.25],
    'String': ['3', '-12', '3.5', 'abc', 'true', 'True', 'false', '2020-01-15', '2020-02-30', '2020Q1',
               '2020-01-01/2020-12-31', 'A', 'Q', 'P1Y', '', '+5', '007', '.5', '12.', '1e3', ' 7 ', 'xyz/abc'],
    'Boolean': [True, False],
    'Date': ['2020-01-15', '2021-12-31', '2020-02-29', '2019-03-01'],
    'Time_Period': ['2020D15', '2020Q1', '2020', '2020M3', '2020S2', '2021D365', '2020M12'],
    'Time': ['2020-01-01/2020-12-31', '2020-01-15/2020-01-15', '2020-01-01/2020-03-31', '2020-01-10/2020-02-20'],
    'Duration': ['A', 'S', 'Q', 'M', 'W', 'D'],
}
ALWAYS = {'String': ['3.5', 'abc', 'true', '-12', '2020-01-15', 'A']}


# ----------------------------------------------------------------------------------------------- engine side
class _Timeout(Exception):
    pass


def _alarm(*_):
    raise _Timeout()


def guarded(fn, *a, **kw):
    import eng
    signal.signal(signal.SIGALRM, _alarm)
    signal.alarm(180)
    try:
        return eng.outcome(fn, *a, **kw)
    except _Timeout:
        return ('raw', 'timeout', 'wall-clock guard 180 s')
    finally:
        signal.alarm(0)


def tname(c):
    return CLSNAME.get(c.__name__, c.__name__)


def canon(v):
    import eng
    v = eng.canon_value(v)
    if isinstance(v, str) and v.endswith('T00:00:00'): v = v[:-9]
    return v


def err_of(o):
    return ('err', o[1], o[2] if o[0] == 'vtl' else str(o[2])[:100])


def run_scalar(src, tgt, vals):
    """[(outcome per value)]: ('ok', type, value) | ('err', class, code)."""
    import eng
    from vtlengine import run
    def go(vs):
        S = eng.structures(scalars=[{'name': 'sc_%d' % i, 'type': src} for i in range(len(vs))])
        script = ''.join('r%d <- cast(sc_%d, %s);' % (i, i, VT[tgt]) for i in range(len(vs)))
        o = guarded(run, script=script, data_structures=S, datapoints={}, scalar_values={'sc_%d' % i: v for i, v in enumerate(vs)})
        if o[0] != 'ok': return None, o
        return [('ok', tname(o[1]['r%d' % i].data_type), canon(o[1]['r%d' % i].value)) for i in range(len(vs))], o
    res, o = go(vals)
    if res is not None: return res
    if len(vals) == 1: return [err_of(o)]
    out = []
    for v in vals:
        r, o = go([v]); out.append(r[0] if r is not None else err_of(o))
    return out


def run_rows(level, src, tgt, vals):
    import eng
    import pandas as pd
    from vtlengine import run
    def go(vs):
        S = eng.structures(eng.structure('DS_1', [eng.comp('Id_1', 'Integer', 'Identifier'), eng.comp('Me_1', src, 'Measure')]))
        script = 'r <- DS_1[calc Me_2 := cast(Me_1, %s)];' % VT[tgt] if level == 'dc' else 'r <- cast(DS_1, %s);' % VT[tgt]
        df = pd.DataFrame({'Id_1': list(range(1, len(vs) + 1)), 'Me_1': vs})
        o = guarded(run, script=script, data_structures=S, datapoints={'DS_1': df})
        if o[0] != 'ok': return None, o
        r = o[1]['r']
        if level == 'dc': name = 'Me_2'
        else:
            ms = [c.name for c in r.components.values() if c.role.value == 'Measure']
            if len(ms) != 1: return None, ('raw', 'shape', 'measures %r' % ms)
            name = ms[0]
        d = r.data.sort_values('Id_1')
        if list(d['Id_1']) != list(range(1, len(vs) + 1)): return None, ('raw', 'shape', 'rows lost: %r' % list(d['Id_1']))
        return [('ok', tname(r.components[name].data_type), canon(x)) for x in d[name]], o
    res, o = go(vals)
    if res is not None: return res
    if len(vals) == 1: return [err_of(o)]
    out = []
    for v in vals:
        r, o = go([v]); out.append(r[0] if r is not None else err_of(o))
    return out


def task(t):
    level, src, tgt, vals = t
    try:
        return (t, run_scalar(src, tgt, vals) if level == 'sc' else run_rows(level, src, tgt, vals))
    except BaseException as e:  # noqa: BLE001
        return (t, [('err', 'harness', repr(e)[:200])] * len(vals))



def nested_task(t):
    """cast(cast(x, mid), tgt) written inline and as two statements, at scalar and component level, on the same values.
    -> (t, {'sc': [(two_step, nested) per value], 'dc': [...]}) with outcomes ('ok', type, value) | ('err', class, code)"""
    src, mid, tgt, vals = t
    import eng
    import pandas as pd
    from vtlengine import run
    out = {}
    try:
        pairs = []
        for v in vals:
            S = eng.structures(scalars=[{'name': 'sc_1', 'type': src}])
            res = []
            for script, name in (('a <- cast(sc_1, %s); r <- cast(a, %s);' % (VT[mid], VT[tgt]), 'r'),
                                 ('r <- cast(cast(sc_1, %s), %s);' % (VT[mid], VT[tgt]), 'r')):
                o = guarded(run, script=script, data_structures=S, datapoints={}, scalar_values={'sc_1': v})
                res.append(('ok', tname(o[1][name].data_type), canon(o[1][name].value)) if o[0] == 'ok' else err_of(o))
            pairs.append(tuple(res))
        out['sc'] = pairs
        S = eng.structures(eng.structure('DS_1', [eng.comp('Id_1', 'Integer', 'Identifier'), eng.comp('Me_1', src, 'Measure')]))
        pairs = []
        for v in vals:
            df = pd.DataFrame({'Id_1': [1], 'Me_1': [v]})
            res = []
            for script in ('T_1 := DS_1[calc Me_2 := cast(Me_1, %s)]; r <- T_1[calc Me_3 := cast(Me_2, %s)];' % (VT[mid], VT[tgt]),
                           'r <- DS_1[calc Me_3 := cast(cast(Me_1, %s), %s)];' % (VT[mid], VT[tgt])):
                o = guarded(run, script=script, data_structures=S, datapoints={'DS_1': df.copy()})
                if o[0] == 'ok':
                    r = o[1]['r']
                    res.append(('ok', tname(r.components['Me_3'].data_type), canon(list(r.data['Me_3'])[0]) if len(r.data) else '<no row>'))
                else:
                    res.append(err_of(o))
            pairs.append(tuple(res))
        out['dc'] = pairs
    except BaseException as e:  # noqa: BLE001
        out['harness'] = repr(e)[:200]
    return (t, out)


def sem_pair(src, tgt):
    """semantic_analysis at the three levels -> {level: ('ok', type, measure name or None) | ('err', class, code)}."""
    import eng
    from vtlengine import semantic_analysis
    out = {}
    S = eng.structures(eng.structure('DS_1', [eng.comp('Id_1', 'Integer', 'Identifier'), eng.comp('Me_1', src, 'Measure')]),
                       scalars=[{'name': 'sc_1', 'type': src}])
    for lv, s in (('sc', 'r <- cast(sc_1, %s);'), ('dc', 'r <- DS_1[calc Me_2 := cast(Me_1, %s)];'), ('ds', 'r <- cast(DS_1, %s);')):
        o = guarded(semantic_analysis, script=s % VT[tgt], data_structures=S)
        if o[0] != 'ok': out[lv] = err_of(o); continue
        r = o[1]['r']
        if lv == 'sc': out[lv] = ('ok', tname(r.data_type), None)
        elif lv == 'dc': out[lv] = ('ok', tname(r.components['Me_2'].data_type), None)
        else:
            ms = [c for c in r.components.values() if c.role.value == 'Measure']
            out[lv] = ('ok', tname(ms[0].data_type), ms[0].name) if len(ms) == 1 else ('err', 'shape', str(len(ms)))
    return out


# ----------------------------------------------------------------------------------------------- literals
def lit(src, v):
    if v is None: return 'null'
    if src == 'Boolean': return 'b:true' if v else 'b:false'
    if src == 'Integer': return 'i:%d' % v
    if src == 'Number':
        d = decimal.Decimal(repr(float(v)))
        sign, digits, exp = d.as_tuple()
        m = int(''.join(map(str, digits))) * (-1 if sign else 1)
        if exp > 0: m, exp = m * 10 ** exp, 0
        return 'd:%d:%d' % (m, -exp)
    return 's:' + str(v).encode('utf-8').hex()


def same(spec, tgt, got):
    """Lean answer `ok <val>` vs engine value."""
    v = spec[3:]
    if v == 'null': return got is None
    k, _, rest = v.partition(':')
    if k == 'i': return isinstance(got, int) and not isinstance(got, bool) and got == int(rest)
    if k == 'b': return isinstance(got, bool) and got == (rest == 'true')
    if k == 'd':
        m, e = rest.split(':')
        if isinstance(got, bool) or not isinstance(got, (int, float)): return False
        x = int(m) / 10 ** int(e)
        return abs(got - x) <= 1e-9 * max(1.0, abs(x))
    if k == 's': return isinstance(got, str) and got == bytes.fromhex(rest).decode('utf-8')
    return False


def showspec(a):
    if a.startswith('ok s:'): return 'ok %r' % bytes.fromhex(a[5:]).decode('utf-8')
    return a


def main(ck):
    import types_tables as T
    import docs_tables as D
    procs = min(12, os.cpu_count() or 4)
    t0 = time.time()
    L = T.Live()
    DT = L.DT
    from vtlengine.Operators.CastOperator import Cast
    from vtlengine.Exceptions import SemanticError
    cls = [L.cls_of[n] for n in TY]

    # ---------------------------------------------------------------- 1. translators, 2. proof
    shape_errors = []
    doc = None
    try:
        ck.gen('Promotion', T.gen_promotion(L)); ck.gen('PromotionFns', T.gen_promotion_fns(L))
        ck.gen('Operators', T.gen_operators(L)[0]); ck.gen('CastCode', T.gen_cast_code(L))
    except vlib.ShapeError as e:
        shape_errors.append('types_tables: %s' % e)
    try:
        dtxt, doc = D.gen_doc_tables(); ck.gen('DocTables', dtxt)
    except vlib.ShapeError as e:
        shape_errors.append('docs_tables: %s' % e)
    ck.trusted('translators harness/translate/types_tables.py + docs_tables.py (tied by K1: every generated table and the transcribed '
               'check_without_mask / rename branch compared with the live objects)', 'stand-in parser harness/vtlstub',
               'DuckDB evaluates the generated SQL (modelled, not verified)', 'Types/Cast.lean castSpec restates the documented conversions; '
               'Number->Integer truncation is an adopted behaviour (docs silent, VTL 2.2)')
    pr = ck.proof('C09') if not shape_errors else None
    proof_ok = bool(pr and pr['ok'])

    # ---------------------------------------------------------------- start the engine pool first (fork before any DuckDB use)
    pairs = [(s, t) for s in BASIC for t in BASIC]
    sem = {p: sem_pair(*p) for p in pairs}
    pool_vals = {}
    for s in BASIC:
        vs = list(POOL[s])
        if ck.quick():
            keep = [v for v in vs if v in ALWAYS.get(s, vs[:3])]
            rest = [v for v in vs if v not in keep]; ck.rng.shuffle(rest)
            vs = keep + rest[:2]
        pool_vals[s] = vs
    tasks = []
    for (s, t) in pairs:
        if all(sem[(s, t)][lv][0] != 'ok' for lv in ('sc', 'dc', 'ds')): continue
        for lv in ('sc', 'dc', 'ds'):
            if sem[(s, t)][lv][0] != 'ok': continue
            vs = pool_vals[s] + [None]
            n = 4 if (s == 'String' and not ck.quick()) else 12
            for i in range(0, len(vs), n): tasks.append((lv, s, t, vs[i:i + n]))
    ck.rng.shuffle(tasks)
    with mp.get_context('fork').Pool(procs) as pool:
        results = pool.map_async(task, tasks, chunksize=1).get(timeout=2400 if ck.quick() else 6000)
    eng_out = {}
    for (lv, s, t, vs), outs in results:
        for v, o in zip(vs, outs): eng_out[(s, t, lv, repr(v))] = (v, o)
    ck.note('engine_runs_tasks', len(tasks))

    # ---------------------------------------------------------------- 3. K1 via the driver
    k1_bad, lean, specq = [], {}, {}
    if not shape_errors:
        reqs = []
        for w in ('implicit', 'explicit', 'docimplicit', 'docexplicit', 'docallowed'):
            for a in range(9):
                for b in range(9): reqs.append('tbl %s %d %d' % (w, a, b))
        for a in range(9):
            for b in range(9): reqs += ['castcheck %d %d' % (a, b), 'rename %d %d' % (a, b)]
            reqs.append('docrename %d' % a)
        import datetime
        dates = []
        if ck.quick():
            for _ in range(1500):
                dates.append(datetime.date(1900, 1, 1) + datetime.timedelta(days=ck.rng.randrange(0, 73414)))
        else:
            d0 = datetime.date(1900, 1, 1)
            dates = [d0 + datetime.timedelta(days=i) for i in range(0, 73414)]
        dates += [datetime.date(2020, 2, 29), datetime.date(1900, 3, 1), datetime.date(2000, 12, 31), datetime.date(2100, 12, 31)]
        for d in dates:
            reqs.append('doy %d %d %d' % (d.year, d.month, d.day))
            reqs.append('dateofdoy %d %d' % (d.year, d.timetuple().tm_yday))
        reqs += ['doy 2021 2 29', 'doy 2020 13 1', 'dateofdoy 2021 366', 'leap 1900', 'leap 2000']
        for (s, t, lv, rv), (v, o) in eng_out.items():
            q = 'cast %d %d %s' % (IX[s], IX[t], lit(s, v)); specq[(s, t, rv)] = q; reqs.append(q)
        reqs = list(dict.fromkeys(reqs))
        try:
            lean = dict(zip(reqs, ck.driver('Types', reqs)))
        except vlib.DriverError as e:
            k1_bad.append(('driver', str(e)[:400]))
    if lean:
        for q, a in lean.items():
            w = q.split(); exp = None
            if w[0] == 'tbl':
                x, y = int(w[2]), int(w[3])
                if w[1] == 'implicit': exp = str(cls[y] in DT.IMPLICIT_TYPE_PROMOTION_MAPPING[cls[x]]).lower()
                elif w[1] == 'explicit': exp = str(cls[y] in DT.EXPLICIT_WITHOUT_MASK_TYPE_PROMOTION_MAPPING[cls[x]]).lower()
                elif doc and w[1] == 'docexplicit': exp = str(doc['explicit'].get((TY[x], TY[y])) == 'y').lower()
                elif doc and w[1] == 'docimplicit' and x < 8 and y < 8: exp = str(doc['implicit'].get((TY[x], TY[y])) == 'y').lower()
                ck.count(q, nontrivial=False)
            elif w[0] == 'castcheck':
                try: Cast.check_without_mask(cls[int(w[1])], cls[int(w[2])]); exp = 'ok'
                except SemanticError as e: exp = 'err ' + str(e.args[1])
                ck.count(q)
            elif w[0] == 'docrename' and doc:
                exp = doc['rename'].get(TY[int(w[1])], '-')
            elif w[0] == 'doy':
                y, m, d = (int(x) for x in w[1:])
                try: exp = str(datetime.date(y, m, d).timetuple().tm_yday)
                except ValueError: exp = '-'
                ck.count(q, nontrivial=False)
            elif w[0] == 'dateofdoy':
                y, n = int(w[1]), int(w[2])
                last = datetime.date(y, 12, 31).timetuple().tm_yday
                if 1 <= n <= last:
                    dd = datetime.date(y, 1, 1) + datetime.timedelta(days=n - 1); exp = '%d %d' % (dd.month, dd.day)
                else: exp = '-'
            elif w[0] == 'leap':
                import calendar; exp = str(calendar.isleap(int(w[1]))).lower()
            if exp is not None and exp != a: k1_bad.append((q, 'lean=%s live=%s' % (a, exp)))
    ck.note('k1_requests', len(lean)); ck.note('k1_disagreements', len(k1_bad))

    # ---------------------------------------------------------------- 4. the property on the real engine
    def allowed(s, t):
        if lean: return lean.get('tbl docallowed %d %d' % (IX[s], IX[t])) == 'true'
        if doc: return doc['explicit'].get((s, t)) == 'y' or doc['implicit'].get((s, t)) == 'y'
        return None
    n_table = n_vals = 0
    bad_direct = set()      # (source, target, level) whose DIRECT cast already deviates from the documented conversion
    level_name = {'sc': 'scalar', 'dc': 'component', 'ds': 'dataset'}
    for (s, t) in pairs:
        so = sem[(s, t)]
        acc = {lv: so[lv][0] == 'ok' for lv in so}
        da = allowed(s, t)
        ck.count(('sem', s, t)); n_table += 1
        # acceptance vs the documented tables (the same answer is required at the three levels)
        if da is not None:
            for lv in ('sc', 'dc', 'ds'):
                if acc[lv] != da:
                    vals = {k[3]: o for k, (v, o) in eng_out.items() if k[:3] == (s, t, lv)}
                    ck.violation('cast_table:%s->%s:%s' % (s, t, 'code-accepts-doc-forbids' if acc[lv] else 'code-rejects-doc-allows'),
                                 {'script': {'sc': 'r <- cast(sc_1, %s);', 'dc': 'r <- DS_1[calc Me_2 := cast(Me_1, %s)];', 'ds': 'r <- cast(DS_1, %s);'}[lv] % VT[t],
                                  'source_type': s, 'semantic_analysis': {k: repr(v) for k, v in so.items()}, 'run_values': {k: repr(v) for k, v in list(vals.items())[:8]}},
                                 'cast %s -> %s: semantic_analysis %s it at %s level, the documented tables %s it' % (
                                     s, t, 'accepts' if acc[lv] else 'rejects', level_name[lv], 'allow' if da else 'forbid'))
                    break
        for lv in ('sc', 'dc', 'ds'):
            if acc[lv] and so[lv][1] != t:
                ck.violation('cast_type:%s->%s:%s:%s' % (s, t, lv, so[lv][1]), {'semantic_analysis': repr(so)},
                             'cast %s -> %s at %s level is typed %s' % (s, t, level_name[lv], so[lv][1]))
        # rename rule at dataset level
        if acc['ds']:
            if lean:
                want = lean['rename %d %d' % (IX[s], IX[t])]
                want_name = 'Me_1' if want == 'keep' else want
                if so['ds'][2] != want_name:
                    k1_bad.append(('rename %s %s' % (s, t), 'lean=%s engine=%s' % (want_name, so['ds'][2])))
            docwant = 'Me_1' if (doc and doc['implicit'].get((s, t)) == 'y') else (doc['rename'].get(t) if doc else None)
            if docwant is not None and so['ds'][2] != docwant:
                ck.violation('cast_rename:%s->%s:%s' % (s, t, so['ds'][2]), {'script': 'r <- cast(DS_1, %s);' % VT[t], 'source_type': s, 'measure': so['ds'][2], 'documented': docwant},
                             'cast(DS_1, %s) on a %s measure names the result measure %s, documented: %s' % (VT[t], s, so['ds'][2], docwant))
        if da is False or not lean: continue
        # values
        vals = sorted({k[3] for k in eng_out if k[:2] == (s, t)})
        for rv in vals:
            per = {lv: eng_out[(s, t, lv, rv)] for lv in ('sc', 'dc', 'ds') if (s, t, lv, rv) in eng_out}
            if not per: continue
            v = next(iter(per.values()))[0]
            spec = lean[specq[(s, t, rv)]]
            n_vals += 1
            for lv, (_, o) in per.items():
                ck.count(('val', s, t, lv, rv))
                cat = None
                if spec.startswith('ok'):
                    if o[0] != 'ok': cat = 'rejects_valid'
                    elif not same(spec, t, o[2]): cat = 'wrong_value'
                elif spec == 'run':
                    if o[0] == 'ok': cat = 'accepts_invalid'
                elif spec == 'unmodelled' and o[0] == 'ok' and o[2] is not None:
                    try: good = bool(DT.SCALAR_TYPES[t].check(o[2]))
                    except Exception: good = False
                    if not good: cat = 'invalid_typed_value'
                if o[0] == 'err' and o[1] in ('harness', 'raw') and 'timeout' in str(o):
                    k1_bad.append(('engine', 'timeout on %s' % ((s, t, lv, rv),))); cat = None
                if cat:
                    bad_direct.add((s, t, lv))
                    ck.violation('cast_value:%s->%s:%s:%s' % (s, t, level_name[lv], cat),
                                 {'source_type': s, 'target_type': t, 'level': level_name[lv], 'value': v,
                                  'script': {'sc': 'r <- cast(sc_1, %s);  (scalar_values sc_1 = value)', 'dc': 'r <- DS_1[calc Me_2 := cast(Me_1, %s)];', 'ds': 'r <- cast(DS_1, %s);'}[lv] % VT[t],
                                  'engine': repr(o), 'documented': showspec(spec)},
                                 'cast(%r : %s -> %s) at %s level gives %s; documented conversion: %s' % (v, s, t, level_name[lv], repr(o[1:])[:80], showspec(spec)))
            # the three levels must agree where the docs are silent
            if spec == 'unmodelled' and len(per) > 1:
                def norm(o):
                    if o[0] != 'ok': return 'error'
                    x = o[2]
                    return ('ok', round(x, 9) if isinstance(x, float) else x)
                ns = {lv: norm(o) for lv, (_, o) in per.items()}
                if len(set(map(repr, ns.values()))) > 1:
                    ck.violation('cast_levels:%s->%s' % (s, t), {'source_type': s, 'target_type': t, 'value': v, 'per_level': {level_name[k]: repr(per[k][1]) for k in per}},
                                 'cast(%r : %s -> %s) differs between levels: %s' % (v, s, t, {level_name[k]: (x if x == 'error' else x[1]) for k, x in ns.items()}))
    ck.note('pairs_checked', n_table); ck.note('pair_values_checked', n_vals)
    some = [(k, v) for k, v in eng_out.items() if k[0] == 'Number' and k[1] == 'Integer'][:2]
    for k, (v, o) in some: ck.sample({'cast': k[:3], 'value': v, 'engine': repr(o), 'documented': showspec(lean.get(specq.get((k[0], k[1], k[3])), '?'))})
    ck.note('value_pool', {k: [repr(x) for x in v] for k, v in pool_vals.items()})

    # ---------------------------------------------------------------- 4b. nested casts = the same casts one after the other
    triples = [(a, m, b) for (a, m) in pairs for (m2, b) in pairs if m2 == m and a != m and m != b and allowed(a, m) and allowed(m, b)]
    if ck.quick():
        ck.rng.shuffle(triples)
        keep_t = [x for x in triples if 'Time_Period' in x or 'Date' in x or 'Time' in x][:40] + triples[:40]
        triples = sorted(set(keep_t))
    ntasks = [(a, m, b, [v for v in pool_vals.get(a, [])[:(3 if ck.quick() else 8)]]) for (a, m, b) in triples]
    n_nested = 0
    if ntasks:
        with mp.get_context('fork').Pool(procs) as pool:
            nres = pool.map_async(nested_task, ntasks, chunksize=1).get(timeout=2400 if ck.quick() else 6000)
        for (a, m, b, vs), out in nres:
            for lv in ('sc', 'dc'):
                for v, (two, nest) in zip(vs, out.get(lv, [])):
                    ck.count(('nested', a, m, b, lv, repr(v)))
                    n_nested += 1
                    if two[0] != 'ok':
                        continue            # the inner value is not convertible: nothing to compare
                    if (m, b, lv) in bad_direct or (a, m, lv) in bad_direct:
                        continue            # the reference itself (a direct cast) deviates: reported by the direct-cast stream
                    def nrm(o):
                        return ('ok', o[1], round(o[2], 9) if isinstance(o[2], float) else o[2]) if o[0] == 'ok' else ('error',) + tuple(o[1:3])
                    if nrm(two) != nrm(nest):
                        ck.violation('cast_nested:%s->%s->%s:%s:differs-from-two-steps' % (a, m, b, level_name[lv]),
                                     {'source_type': a, 'value': v, 'level': level_name[lv],
                                      'script_nested': ('r <- cast(cast(sc_1, %s), %s);' if lv == 'sc' else 'r <- DS_1[calc Me_3 := cast(cast(Me_1, %s), %s)];') % (VT[m], VT[b]),
                                      'two_steps': repr(two), 'nested': repr(nest)},
                                     'cast(cast(%r : %s, %s), %s) at %s level gives %s, the two casts one after the other give %s' % (
                                         v, a, VT[m], VT[b], level_name[lv], repr(nest[1:])[:80], repr(two[1:])[:80]))
    ck.note('nested_cast_comparisons', n_nested)

    # ---------------------------------------------------------------- 5. verdicts for broken proof / correspondence
    for e in shape_errors: ck.unproved('translator', e)
    if pr is not None and not proof_ok:
        det = {'failed': pr['failed'], 'forbidden': pr['forbidden'], 'bad_axioms': pr['bad_axioms'], 'log_tail': pr['log'][-1500:]}
        if pr['forbidden'] or pr['bad_axioms']:
            ck.unproved('C09.audit', 'forbidden construct or axiom audit failure: %r %r' % (pr['forbidden'], pr['bad_axioms'][:3]), det)
        if not [v for v in ck.viol if not v[3]]:
            for f in (pr['failed'] or ['<audit>']):
                ck.unproved('C09.' + f, 'theorem no longer checks and no new failing input of the property was found on the real code', det)
        else:
            ck.note('broken_theorems', pr['failed'])
    if k1_bad:
        ck.unproved('K1:lean-vs-live', '%d disagreements between generated tables / transcriptions / calendar model and the live objects, first: %r' % (len(k1_bad), k1_bad[0]), k1_bad[:20])
    ck.note('wall_parts', {'total': round(time.time() - t0, 1)})
    ck.assumptions += ['a conversion is documented as allowed when the explicit table OR the implicit table marks it (Date->Time, Time_Period->Time are only in the implicit one)',
                       'Number->Integer truncates toward zero (docs silent; VTL 2.2; adopted)',
                       'scalar level is exercised with scalar inputs (`scalar_values`), not literals']


def replay(path):
    d = json.load(open(path)); rp = d.get('replay', {})
    print(json.dumps(rp, indent=1, default=str)[:2000])
    if 'value' in rp and 'level' in rp:
        lv = {'scalar': 'sc', 'component': 'dc', 'dataset': 'ds'}[rp['level']]
        print('now:', task((lv, rp['source_type'], rp['target_type'], [rp['value']]))[1])
    elif 'source_type' in rp and 'script' in rp:
        import re
        m = re.search(r', (\w+)\)', rp['script'])
        t = {v: k for k, v in VT.items()}[m.group(1)]
        print('now:', sem_pair(rp['source_type'], t))
    return 0


if __name__ == '__main__':
    if '--replay' in sys.argv:
        import eng  # noqa: F401
        sys.exit(replay(sys.argv[sys.argv.index('--replay') + 1]))
    vlib.run_check('C09', main)

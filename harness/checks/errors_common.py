"""Shared by c26.py and c32.py (group Errors): runs both translators with one string table, writes the four
Gen files, probes the installed DuckDB for its native error texts, and small helpers for replays."""
from __future__ import annotations

import os
import re
import sys

HERE = os.path.dirname(os.path.abspath(__file__))
sys.path.insert(0, os.path.join(HERE, '..'))
sys.path.insert(0, os.path.join(HERE, '..', 'translate'))
import vlib  # noqa: E402
import catalogue as catmod  # noqa: E402
import sql_errors as sqlmod  # noqa: E402

# (name, SQL) — failing scalar probes; the text the installed DuckDB answers is the "native message".
NATIVE_PROBES = [
    ('sqrt_neg', "SELECT sqrt(-1.0)"),
    ('ln_zero', "SELECT ln(0.0)"),
    ('ln_neg', "SELECT ln(-1.0)"),
    ('log_base_neg', "SELECT log(-2.0, 4.0)"),
    ('log_base_one', "SELECT log(1.0, 4.0)"),
    ('log10_zero', "SELECT log10(0.0)"),
    ('int_add_overflow', "SELECT 9223372036854775807::BIGINT + 1::BIGINT"),
    ('int_sub_overflow', "SELECT (-9223372036854775807)::BIGINT - 10::BIGINT"),
    ('int_mul_overflow', "SELECT 9223372036854775807::BIGINT * 2::BIGINT"),
    ('int_neg_overflow', "SELECT -((-9223372036854775807 - 1)::BIGINT)"),
    ('int_abs_overflow', "SELECT abs((-9223372036854775807 - 1)::BIGINT)"),
    ('dec_mul_overflow', "SELECT 99999999999999999999.0::DECIMAL(28,8) * 99999999999999999999.0::DECIMAL(28,8)"),
    ('dec_cast_overflow', "SELECT CAST(1e30 AS DECIMAL(18,6))"),
    ('double_to_bigint', "SELECT CAST(1e30::DOUBLE AS BIGINT)"),
    ('str_to_double', "SELECT CAST('abc' AS DOUBLE)"),
    ('str_to_bigint', "SELECT CAST('abc' AS BIGINT)"),
    ('str_to_int32', "SELECT CAST('' AS INTEGER)"),
    ('str_to_decimal', "SELECT CAST('abc' AS DECIMAL(18,6))"),
    ('str_to_date', "SELECT CAST('2020-13-45' AS DATE)"),
    ('str_to_timestamp', "SELECT CAST('abc' AS TIMESTAMP)"),
    ('str_to_bool', "SELECT CAST('abc' AS BOOLEAN)"),
    ('strptime', "SELECT strptime('abc','%Y-%m-%d')"),
    ('hamming_native', "SELECT hamming('a','ab')"),
    ('timestamp_range', "SELECT DATE '9999-12-31' + INTERVAL 300000 YEAR"),
    ('make_date', "SELECT make_date(2020, 13, 1)"),
    ('regexp_bad', "SELECT regexp_matches('a', '(')"),
    ('div_zero_ieee', "SELECT 1.0::DOUBLE / 0.0::DOUBLE"),
    ('int_div_zero', "SELECT 1 // 0"),
]


def native_texts():
    """[(name, first paragraph of the message)] for the probes that fail on the installed DuckDB."""
    import duckdb
    out = []
    c = duckdb.connect()
    try:
        for name, q in NATIVE_PROBES:
            try:
                c.execute(q).fetchall()
            except duckdb.Error as e:
                out.append((name, str(e).split('\n\nLINE ')[0]))
    finally:
        c.close()
    return out


def generate(ck):
    """Run the translators against vlib.REPO, write Gen/{Catalogue,RaiseSites,SqlErrors,ErrorMap}.lean.
    -> dict(cat=<catalogue data>, sql=<sql_errors data>, native=[(name, text)])."""
    native = native_texts()
    holder = {}

    def extra(intern, cls_ids, catd):
        r = sqlmod.emit(vlib.REPO, intern, cls_ids, catd, native=[t for _, t in native])
        holder.update(r)
        return r

    r = catmod.emit(vlib.REPO, extra=extra)
    ck.gen('Catalogue', r['catalogue'])
    ck.gen('RaiseSites', r['sites'])
    ck.gen('SqlErrors', holder['sql_errors'])
    ck.gen('ErrorMap', holder['error_map'])
    return {'cat': r['data'], 'sql': holder['data'], 'native': native}


def msg_signature(text):
    """Stable signature of an error text: first line, quoted values / numbers blanked, VTL codes kept."""
    t = str(text).split('\n')[0].split(' when casting from source column')[0]
    t = re.sub(r'^[A-Z][A-Za-z ]{2,24} Error: ', '', t)
    t = re.sub(r'"[^"]*"', '"?"', t)
    t = re.sub(r"'[^']*'", "'?'", t)
    codes = re.findall(r'\b\d+(?:-\d+){2,3}\b', t)
    t = re.sub(r'\b\d+(?:-\d+){2,3}\b', '\x01', t)
    t = re.sub(r'-?\d+(\.\d+)?([eE][-+]?\d+)?', '#', t)
    for c in codes:
        t = t.replace('\x01', c, 1)
    t = re.sub(r'\bgot \w+$', 'got ?', t)
    return t[:90]


def points(s):
    return ' '.join(str(ord(c)) for c in s)

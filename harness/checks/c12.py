"""C12 — results do not depend on the textual order of top-level statements; cycles and redefinitions
are rejected whatever the order.

Proof: lean/VtlModel/Props/C12.lean (order_confluence, perm_same_valid_orders, cycle_rejected,
redefinition_rejected, ... over lean/VtlModel/Dag/Basic.lean).
Tie (correspondence): the order the real `DAGAnalyzer.create_dag` chooses for every generated script
and every permutation of it satisfies the Lean `isValidOrder`; the dependency structure the real
visitor extracts equals the structure the script was generated from; cycle / redefinition errors
agree with the Lean predicates; metamorphic equality of `run()` / `semantic_analysis()` over all
permutations, and equality with an independent evaluation of the full script.
"""
import os
import sys

sys.path.insert(0, os.path.join(os.path.dirname(os.path.abspath(__file__)), '..'))
import vlib  # noqa: E402
import dag_common as dc  # noqa: E402

K_SELF = 'c12:DAGAnalyzer.statement_structure:nonpersistent-self-reference-not-rejected-as-cycle'
K_BOTH = 'c12:DAGAnalyzer.create_dag:script-with-cycle-and-redefinition:error-code-depends-on-order'


def classify(shape):
    dup, cyc = dc.py_pred(shape)
    dup2, cyc2 = dc.py_pred(dc.strip_nonpersistent_selfrefs(shape))
    return dup, cyc, cyc2


def dag_level(ck, eng, pop):
    quick = ck.quick()
    cases = []   # (label, shape, perm, permuted shape)
    for label, shapes in pop.items():
        for shape in shapes:
            n = len(shape)
            cap = (6 if (quick or not label.startswith('general')) else 3) if n <= 3 else (4 if quick else 2)
            for p in dc.permutations_of(ck.rng, shape, cap):
                cases.append((label, shape, p, dc.apply_perm(shape, p)))
    ck.note('dag_cases', len(cases))
    real = eng.map(dc.dag_case, [dc.render(c[3]) for c in cases], chunk=64)
    # Lean: predicates on the written script, validity of the real order, term denotations
    reqs, idx = [], []
    for i, (label, shape, p, ps) in enumerate(cases):
        reqs.append('pred ' + dc.lean_script(ps)); idx.append((i, 'pred'))
        r = real[i]
        if r.get('ok') and len(set(r['order'])) == len(ps) and set(r['order']) == {dc.out_name(s[0]) for s in ps}:
            # (a non-persistent `X := X + ..` loses its self input in the engine's view; see selfref_level)
            ro = dc.shape_in_order(dc.strip_nonpersistent_selfrefs(ps), r['order'])
            reqs.append('valid ' + dc.lean_script(ro)); idx.append((i, 'valid'))
            reqs.append('run ' + dc.lean_script(ro)); idx.append((i, 'run'))
            reqs.append('denote ' + dc.lean_script(shape)); idx.append((i, 'denote'))
    ans = ck.driver('Dag', reqs)
    lean = {}
    for (i, k), a in zip(idx, ans):
        lean.setdefault(i, {})[k] = a
    disagreements = []
    both_codes = {}
    hist = {'ok': 0, 'cycle': 0, 'redef': 0, 'both': 0, 'selfref': 0}
    for i, (label, shape, p, ps) in enumerate(cases):
        r, L = real[i], lean[i]
        dup, cyc, cyc_engine = classify(ps)
        # Lean predicates agree with the independent python evaluation (model sanity)
        want = 'dup=%s cycle=%s' % (str(dup).lower(), str(cyc).lower())
        if not L['pred'].startswith(want):
            disagreements.append(('lean-pred-vs-python', dc.render(ps), L['pred'], want)); continue
        if not dup and not cyc and 'topovalid=true' not in L['pred']:
            disagreements.append(('lean-topo-invalid', dc.render(ps), L['pred'])); continue
        ck.count(('dag', dc.lean_script(ps)))
        script = dc.render(ps)
        rep = {'script': script, 'entry': 'DAGAnalyzer.create_dag(create_ast(script))', 'real': {k: v for k, v in r.items() if k != 'sched'}}
        if r.get('kind') == 'timeout':
            raise RuntimeError('engine timeout on ' + script)
        code = r.get('code')
        if dup and cyc_engine:
            hist['both'] += 1
            if r.get('ok') or code not in (dc.CYCLE, dc.REDEF):
                ck.violation('c12:create_dag:cycle+redefinition-not-rejected', rep, 'script with a cycle and a redefinition is not rejected with 1-3-2-3 / 1-2-2')
            both_codes.setdefault(dc.lean_script(sorted(shape)), {})[code] = script
        elif dup:
            hist['redef'] += 1
            if r.get('ok') or code != dc.REDEF:
                ck.violation('c12:create_dag:redefinition-not-rejected', rep, 'script assigning a name twice is not rejected with 1-2-2 (got %s)' % (code or 'no error'))
        elif cyc_engine:
            hist['cycle'] += 1
            if r.get('ok') or code != dc.CYCLE:
                ck.violation('c12:create_dag:cycle-not-rejected', rep, 'cyclic script is not rejected with 1-3-2-3 (got %s)' % (code or 'no error'))
        else:
            if cyc: hist['selfref'] += 1
            else: hist['ok'] += 1
            if not r.get('ok'):
                ck.violation('c12:create_dag:valid-script-rejected', rep, 'acyclic script without redefinition rejected: %s' % (code or r.get('msg')))
                continue
            names = {dc.out_name(s[0]) for s in ps}
            if sorted(r['order']) != sorted(names) or L.get('valid') != 'true':
                ck.violation('c12:create_dag:order-invalid', rep, 'the order chosen by create_dag runs a statement before a producer of its inputs (or loses a statement): %s' % r['order'])
                continue
            # create_ast() already sorts once; the dependencies of the second pass are numbered in that order
            want_deps = dc.intended_deps(dc.shape_in_order(ps, r['written'])) if sorted(r['written']) == sorted(names) else None
            if want_deps is None or _norm(r['deps']) != _norm(want_deps):
                disagreements.append(('dependencies-differ-from-script', script, r['deps'], want_deps))
            if not cyc:
                # executed instance of the theorems: running in the engine's order gives every name the
                # order-independent denotation of the (unpermuted) script
                d1 = dict(x.split('=', 1) for x in L['run'].split(';')) if L['run'] != 'none' else None
                d2 = dict(x.split('=', 1) for x in L['denote'].split(';'))
                if d1 != d2:
                    disagreements.append(('lean-run-vs-denote', script, L['run'], L['denote']))
        if len(ck.cov['samples']) < 4 and i % 997 == 0:
            ck.sample({'script': script, 'real': r.get('order') or r.get('code'), 'lean': L})
    for key, codes in both_codes.items():
        if len(codes) > 1:
            ck.violation(K_BOTH, {'scripts_by_code': codes, 'entry': 'DAGAnalyzer.create_dag(create_ast(script))'},
                         'same statements, different order: cycle error 1-3-2-3 for one order, redefinition error 1-2-2 for another')
            break
    ck.note('dag_histogram', hist)
    return disagreements


def run_level(ck, eng, pop):
    quick = ck.quick()
    rng = ck.rng
    pick = []
    for label, shapes in pop.items():
        if label.startswith('general'): continue
        k = {'acyclic_exhaustive_n<=3': 25 if quick else 60}.get(label, 12 if quick else 40)
        pick += rng.sample(shapes, min(k, len(shapes)))
    jobs, meta = [], []
    for si, shape in enumerate(pick):
        n = len(shape)
        cap = (12 if quick else 24) if n <= 4 else (12 if quick else 30)
        inputs = dc.inputs_of(shape)
        for p in dc.permutations_of(rng, shape, cap):
            ps = dc.apply_perm(shape, p)
            jobs.append((dc.render(ps), inputs, True, False)); meta.append((si, p))
    res = eng.map(dc.run_case, jobs)
    sem = eng.map(dc.sem_case, [(j[0], j[1]) for j in jobs])
    rop_false = eng.map(dc.run_case, [(dc.render(s), dc.inputs_of(s), False, False) for s in pick])
    by = {}
    for (si, p), r, s, j in zip(meta, res, sem, jobs):
        by.setdefault(si, []).append((p, r, s, j[0]))
    nruns = 0
    for si, shape in enumerate(pick):
        oracle = dc.oracle_values(shape)
        persistent = sorted(dc.out_name(s[0]) for s in shape if s[2])
        first = None
        for p, r, s, script in by[si]:
            nruns += 1
            ck.count(('run', script))
            rep = {'script': script, 'original_order_script': dc.render(shape), 'inputs': [dc.in_name(k) for k in dc.inputs_of(shape)],
                   'entry': 'run(script, structures, datapoints DS_k: Id_1=1..3, Me_1=5**k*Id_1)', 'outcome': {k: v for k, v in r.items() if k != 'trace'}}
            if r.get('kind') == 'timeout': raise RuntimeError('engine timeout on ' + script)
            if not r.get('ok'):
                ck.violation('c12:run:valid-script-fails-in-some-order', rep, 'run() fails for a permutation of a valid script: %s' % (r.get('code') or r.get('msg')))
                continue
            if sorted(r['results']) != persistent:
                ck.violation('c12:run:result-keys-differ', rep, 'run() returns %s, persistent assignments are %s' % (sorted(r['results']), persistent))
                continue
            for k, rows in r['results'].items():
                exp = [(i + 1, v) for i, v in enumerate(oracle[k])]
                if rows is None or len(rows) != len(exp) or any(a[0] != b[0] or not _close(a[1], b[1]) for a, b in zip(rows, exp)):
                    ck.violation('c12:run:result-not-computed-from-full-script', dict(rep, dataset=k, got=rows, expected=exp),
                                 'a result differs from the evaluation of the full script')
            if first is None: first = (r, s, script)
            else:
                if not _same_results(first[0]['results'], r['results']):
                    ck.violation('c12:run:results-differ-across-permutations', dict(rep, other_script=first[2], other=first[0]['results']),
                                 'run() gives different results for two orders of the same statements')
                if s != first[1]:
                    ck.violation('c12:semantic_analysis:structures-differ-across-permutations', dict(rep, other_script=first[2], sem=s, other_sem=first[1]),
                                 'semantic_analysis() gives different structures for two orders of the same statements')
            if not s.get('ok') or sorted(s['structures']) != sorted(dc.out_name(x[0]) for x in shape):
                ck.violation('c12:semantic_analysis:valid-script-fails-in-some-order', dict(rep, sem=s), 'semantic_analysis() fails / misses results for a permutation')
        r = rop_false[si]
        if not r.get('ok') or sorted(r['results']) != sorted(dc.out_name(s[0]) for s in shape):
            ck.violation('c12:run:all-results-not-returned', {'script': dc.render(shape), 'outcome': {k: v for k, v in r.items() if k != 'trace'}},
                         'run(return_only_persistent=False) does not return every assignment')
    ck.note('run_level', {'shapes': len(pick), 'runs': nruns, 'semantic_analysis_calls': len(sem)})
    ck.sample({'script': dc.render(pick[0]), 'perms_run': len(by[0]), 'results': by[0][0][1].get('results')})



CLAUSE_SCALAR_SCRIPTS = [
    ['DS_r1 <- DS_1[filter Me_1 > lo and Me_1 < hi];', 'lo := 1;', 'hi := 300;'],
    ['DS_r1 <- DS_1[calc Me_1 := Me_1 * factor + offset];', 'factor := 2;', 'offset := 5;'],
    ['DS_r1 <- DS_1[calc Me_1 := a + b + c];', 'a := 1;', 'b := 2;', 'c := 3;'],
    ['k := 2;', 'm := k * 3;', 'DS_r1 <- DS_1[calc Me_1 := Me_1 * m + k];'],
    ['DS_r1 <- DS_1[filter Me_1 > lo][calc Me_1 := Me_1 + hi];', 'lo := 1;', 'hi := 300;'],
    ['DS_r1 <- DS_1[filter Me_1 > lo] * hi;', 'lo := 1;', 'hi := 3;'],
    ['DS_r2 := DS_1[calc Me_1 := Me_1 + p + q];', 'DS_r1 <- DS_r2[filter Me_1 > q and Me_1 > p];', 'p := 1;', 'q := 2;'],
    ['DS_r1 <- DS_1[calc Me_1 := if Me_1 > lo and Me_1 < hi then mid else Me_1];', 'lo := 1;', 'hi := 300;', 'mid := 7;'],
]


def clause_scalar_level(ck, eng):
    """scalars produced by other statements and used INSIDE clauses (filter / calc): the DAG must order the statement after
    every one of them, whatever the textual order (clause-level names are promoted to dependencies by DAGAnalyzer)."""
    import itertools
    jobs, meta = [], []
    for si, stmts in enumerate(CLAUSE_SCALAR_SCRIPTS):
        perms = list(itertools.permutations(range(len(stmts))))
        if len(perms) > 24:
            perms = perms[:1] + ck.rng.sample(perms[1:], 23)
        for p in perms:
            jobs.append((' '.join(stmts[i] for i in p), [1], True, False)); meta.append((si, p))
    res = eng.map(dc.run_case, jobs)
    sem = eng.map(dc.sem_case, [(j[0], j[1]) for j in jobs])
    first = {}
    for (si, p), r, sm, j in zip(meta, res, sem, jobs):
        ck.count(('clause-scalars', j[0]))
        rep = {'script': j[0], 'original_order_script': ' '.join(CLAUSE_SCALAR_SCRIPTS[si]), 'inputs': ['DS_1'],
               'entry': 'run(script, structures, datapoints DS_1: Id_1=1..3, Me_1=5*Id_1)', 'outcome': {k: v for k, v in r.items() if k != 'trace'}}
        if r.get('kind') == 'timeout':
            raise RuntimeError('engine timeout on ' + j[0])
        if not r.get('ok'):
            ck.violation('c12:clause-scalars:valid-script-fails-in-some-order', rep,
                         'run() fails for an order of a valid script whose clauses use scalars defined by other statements: %s' % (r.get('code') or r.get('msg')))
            continue
        if not sm.get('ok'):
            ck.violation('c12:clause-scalars:semantic_analysis-fails-in-some-order', dict(rep, sem=sm), 'semantic_analysis() fails for an order of a valid script')
        if si not in first:
            first[si] = (r, j[0])
        elif not _same_results(first[si][0]['results'], r['results']):
            ck.violation('c12:clause-scalars:results-differ-across-permutations', dict(rep, other_script=first[si][1], other=first[si][0]['results']),
                         'run() gives different results for two orders of the same statements')
    ck.note('clause_scalar_level', {'scripts': len(CLAUSE_SCALAR_SCRIPTS), 'runs': len(jobs)})


def selfref_level(ck, eng, pop):
    """scripts whose only cycle is `X := X + ...` (non-persistent): the DAG visitor drops the self
    input, so they are not rejected as cycles; the property asks for the cycle error"""
    cand = []
    for label, shapes in pop.items():
        if not label.startswith('general'): continue
        for s in shapes:
            dup, cyc, cyc2 = classify(s)
            if cyc and not cyc2 and not dup:
                cand.append(s)
    cand = cand[:40 if ck.quick() else 300]
    res = eng.map(dc.sem_case, [(dc.render(s), dc.inputs_of(s) or [1]) for s in cand])
    for s, r in zip(cand, res):
        ck.count(('selfref', dc.render(s)))
        rep = {'script': dc.render(s), 'entry': 'semantic_analysis(script, structures)', 'outcome': r}
        if r.get('ok'):
            ck.violation('c12:semantic_analysis:self-dependent-statement-accepted', rep, 'a statement that reads its own result is accepted')
        elif r.get('code') != dc.CYCLE:
            ck.violation(K_SELF, rep, 'a non-persistent statement reading its own result is rejected with %s, not with the cycle error 1-3-2-3 (the persistent form gets 1-3-2-3)' % r.get('code'))
    ck.note('selfref_cases', len(cand))


def _norm(d):
    return {int(k): [list(x) for x in v] for k, v in d.items()}


def _close(a, b):
    if a is None or b is None: return a is None and b is None
    return a == b or abs(a - b) <= 1e-9 * max(abs(a), abs(b), 1.0)


def _same_results(a, b):
    if sorted(a) != sorted(b): return False
    for k in a:
        if (a[k] is None) != (b[k] is None): return False
        if a[k] is None: continue
        if len(a[k]) != len(b[k]): return False
        if any(x[0] != y[0] or not _close(x[1], y[1]) for x, y in zip(a[k], b[k])): return False
    return True


def replay(ck, path):
    import json
    rp = json.load(open(path))['replay']
    scripts = [rp['script']] if 'script' in rp else list(rp.get('scripts_by_code', {}).values())
    dc._init_worker()
    for s in scripts:
        print('--- script:\n' + s)
        print('create_dag :', {k: v for k, v in dc.dag_case(s).items() if k in ('ok', 'order', 'code', 'cls', 'msg')})
        ins = sorted({int(x) for x in __import__('re').findall(r'DS_(\d+)', s)})
        print('semantic   :', dc.sem_case((s, ins)))
        r = dc.run_case((s, ins, True, False)); r.pop('trace', None)
        print('run        :', r)


def main(ck):
    if ck.replay_path:
        replay(ck, ck.replay_path); return
    pr = ck.proof('C12')
    ck.trusted("networkx topological_sort / weakly_connected_components (only the contract 'returns an order' is used and it is re-checked by isValidOrder on every case)",
               'stand-in parser harness/vtlstub for the generated scripts',
               'DuckDB evaluation of the generated SQL (value semantics are C01-C08)',
               'hand-written model lean/VtlModel/Dag/Basic.lean tied by correspondence')
    ck.assumptions.append('statements are abstracted to (out, ins, persistent); what a statement computes is an arbitrary function of the values it reads')
    pop = dc.gen_shapes(ck, ck.quick())
    ck.note('population', {k: len(v) for k, v in pop.items()})
    eng = dc.Engine()
    import time
    try:
        t0 = time.time()
        dis = dag_level(ck, eng, pop)
        t1 = time.time()
        run_level(ck, eng, pop)
        t2 = time.time()
        selfref_level(ck, eng, pop)
        clause_scalar_level(ck, eng)
        ck.note('phase_seconds', {'dag_level': round(t1 - t0, 1), 'run_level': round(t2 - t1, 1), 'selfref': round(time.time() - t2, 1)})
        if not pr['ok']:
            # the search IS the metamorphic / oracle run above (it evaluates the property on the real
            # code); nothing found -> the obligation is reported as broken
            if not ck.viol:
                ck.unproved('lake build VtlModel.Props.C12', 'proof / audit failed: %s %s %s' % (pr['failed'], pr['forbidden'], pr['bad_axioms']), pr['log'][-1500:])
        if dis and not ck.viol:
            # a disagreement between model and implementation that did not show as a failing input
            ck.unproved('correspondence:' + dis[0][0], '%d disagreements, first: %r' % (len(dis), dis[0]), dis[:5])
        elif dis:
            ck.note('disagreements', [d[0] for d in dis[:20]])
    finally:
        eng.close()


vlib.run_check('C12', main)

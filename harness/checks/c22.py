"""C22 — public API calls never modify the caller's arguments.

Proof: lean/VtlModel/Props/C22.lean over Gen/Effects.lean (alias-flow graph regenerated here from /repo by
       harness/translate/effects.py): no in-place mutation site other than the known ones is reachable from
       any parameter of the six public API functions; apart from two known parameters, none at all.
Tie:   translator + dynamic confirmation: deep snapshots (dict/list structure by value, identity of nested
       containers, DataFrame columns / dtypes / values / index, input files) around generated calls of all six
       API functions — succeeding and failing, DataFrame / CSV-path / dict / list / pysdmx inputs.
"""
import hashlib
import json
import os
import signal
import sys
import tempfile
import time

sys.path.insert(0, os.path.join(os.path.dirname(os.path.abspath(__file__)), '..'))
sys.path.insert(0, os.path.join(os.path.dirname(os.path.abspath(__file__)), '..', 'translate'))
import vlib
import effects

APIS = ['run', 'run_sdmx', 'semantic_analysis', 'validate_dataset', 'prettify', 'generate_sdmx']
VALUES = {'Integer': [1, 2, 3, 40], 'Number': [1.5, 2.25, -3.0, 1e-3], 'String': ['a', 'b', 'c d', ''], 'Boolean': [True, False, True, False],
          'Date': ['2020-01-01', '2021-06-30', '1999-12-31', '2000-02-29'], 'Time_Period': ['2020Q1', '2021M06', '2019A', '2020S2'],
          'Time': ['2020-01-01/2020-12-31', '2021-01-01/2021-06-30', '2000-01-01/2000-01-02', '2010-01-01/2011-01-01'],
          'Duration': ['A', 'M', 'Q', 'D']}
SDMX_OF = {'Integer': 'INTEGER', 'Number': 'DOUBLE', 'String': 'STRING', 'Boolean': 'BOOLEAN', 'Date': 'DATE', 'Time_Period': 'PERIOD',
           'Time': 'TIME_RANGE', 'Duration': 'DURATION'}

# ================================================================================================ worker side
_W = {}


def _winit(repo):
    os.environ['VERIF_REPO'] = repo
    sys.path.insert(0, os.path.join(os.path.dirname(os.path.abspath(__file__)), '..'))
    import eng  # noqa
    _W['eng'] = eng


def snap(x, depth=0):
    """value snapshot + identity of every mutable container inside"""
    import pandas as pd
    from pathlib import Path
    if depth > 12: return ('deep',)
    if isinstance(x, pd.DataFrame):
        vals = x.astype(object).where(x.notna(), None).values.tolist()
        return ('DataFrame', id(x), [repr(c) for c in x.columns], [str(t) for t in x.dtypes], [repr(i) for i in x.index],
                [[repr(v) for v in row] for row in vals], repr(dict(x.attrs)))
    if isinstance(x, dict):
        return ('dict', id(x), [(repr(k), snap(v, depth + 1)) for k, v in x.items()])
    if isinstance(x, list):
        return ('list', id(x), [snap(v, depth + 1) for v in x])
    if isinstance(x, tuple):
        return ('tuple', [snap(v, depth + 1) for v in x])
    if isinstance(x, Path):
        st = None
        if x.is_file():
            st = hashlib.sha1(x.read_bytes()).hexdigest()
        elif x.is_dir():
            st = sorted((p.name, hashlib.sha1(p.read_bytes()).hexdigest() if p.is_file() else 'dir') for p in x.iterdir())
        return ('Path', str(x), st)
    if type(x).__name__ == 'PandasDataset':
        return ('PandasDataset', id(x), snap(x.data, depth + 1), repr(x.structure), repr(getattr(x, 'attributes', None)))
    if isinstance(x, (str, int, float, bool, type(None))):
        if isinstance(x, str) and os.path.isfile(x):
            return ('strpath', x, hashlib.sha1(open(x, 'rb').read()).hexdigest())
        return ('v', repr(x))
    return ('obj', type(x).__name__, id(x), repr(x)[:2000])


def diff(a, b, path=''):
    """list of (path, kind) differences between two snapshots"""
    if a == b: return []
    if a[0] != b[0]: return [(path, 'type')]
    t = a[0]
    if t == 'DataFrame':
        if a[1] != b[1]: return [(path, 'identity')]
        for i, k in ((2, 'dataframe-columns'), (3, 'dataframe-dtypes'), (4, 'dataframe-index'), (5, 'dataframe-values'), (6, 'dataframe-attrs')):
            if a[i] != b[i]: return [(path, k)]
    if t == 'dict':
        if a[1] != b[1]: return [(path, 'identity')]
        ka, kb = [k for k, _ in a[2]], [k for k, _ in b[2]]
        if ka != kb: return [(path, 'dict-keys')]
        out = []
        for (k, va), (_, vb) in zip(a[2], b[2]): out += diff(va, vb, path + '[' + k + ']')
        return out
    if t == 'list':
        if a[1] != b[1]: return [(path, 'identity')]
        if len(a[2]) != len(b[2]): return [(path, 'list-length')]
        out = []
        for i, (va, vb) in enumerate(zip(a[2], b[2])): out += diff(va, vb, path + '[%d]' % i)
        return out
    if t == 'tuple':
        out = []
        for i, (va, vb) in enumerate(zip(a[1], b[1])): out += diff(va, vb, path + '[%d]' % i)
        return out or [(path, 'tuple')]
    if t == 'PandasDataset':
        return diff(a[2], b[2], path + '.data') or [(path, 'pandasdataset')]
    if t in ('Path', 'strpath'): return [(path, 'file-content')]
    return [(path, 'value')]


def build_args(spec, tmp):
    """spec (JSON-able) -> (function, kwargs dict) with all objects freshly built"""
    import pandas as pd
    from pathlib import Path
    eng = _W['eng']
    import vtlengine
    api = spec['api']
    fn = getattr(vtlengine, api)
    kw = {}
    comps = spec.get('structure') or []
    name = spec.get('ds_name', 'DS_1')
    structures = {'datasets': [{'name': name, 'DataStructure': [{'name': c[0], 'type': c[1], 'role': c[2], 'nullable': c[3]} for c in comps]}]}
    if spec.get('scalars_decl'):
        structures['scalars'] = [{'name': n, 'type': t} for n, t in spec['scalars_decl']]
    if api in ('prettify', 'generate_sdmx'):
        sf = spec.get('script_form', 'str')
        if sf == 'str': script = spec['script']
        elif sf == 'path':
            p = Path(tmp) / 'script.vtl'; p.write_text(spec['script']); script = p
        else:
            from vtlengine import generate_sdmx as g
            script = g(spec['script'], 'MD', 'TS1')
        if api == 'prettify': return fn, {'script': script}
        if sf == 'ts': script = spec['script']
        return fn, {'script': script, 'agency_id': 'MD', 'id': 'TS1', 'version': spec.get('version', '1.0')}
    # data frame for the dataset
    cols = spec.get('df_cols') or [c[0] for c in comps]
    data = {}
    for cn in cols:
        data[cn] = spec['columns'].get(cn.replace('\ufeff', ''), [None] * spec.get('nrows', 0))
    df = pd.DataFrame(data)
    if api == 'run_sdmx':
        from pysdmx.model import DataType, Concept
        from pysdmx.model.dataflow import Component, Components, Schema, Role
        from pysdmx.io.pd import PandasDataset
        cs = []
        for c in comps:
            role = {'Identifier': Role.DIMENSION, 'Measure': Role.MEASURE, 'Attribute': Role.ATTRIBUTE}[c[2]]
            kwc = {'attachment_level': 'O'} if role == Role.ATTRIBUTE else {}
            cs.append(Component(id=c[0], required=(role == Role.DIMENSION), role=role, concept=Concept(id=c[0]),
                                local_dtype=DataType[SDMX_OF[c[1]]], **kwc))
        schema = Schema(context='datastructure', agency='VERIF', id=name, components=Components(cs), version='1.0')
        kw['script'] = spec['script']
        kw['datasets'] = [PandasDataset(structure=schema, data=df)]
        if spec.get('mappings') == 'dict': kw['mappings'] = {schema.short_urn: name}
        if spec.get('datasets_form') == 'tuple': kw['datasets'] = tuple(kw['datasets'])
        if spec.get('vd'): kw['value_domains'] = {'name': 'VD_1', 'type': 'Integer', 'setlist': [1, 2, 3]}
        return fn, kw
    # data_structures
    dsf = spec.get('ds_form', 'dict')
    if dsf == 'dict': ds = structures
    elif dsf == 'list': ds = [structures]
    else:
        p = Path(tmp) / 'structures.json'; p.write_text(json.dumps(structures)); ds = p if dsf == 'path' else [p]
    # datapoints
    dpf = spec.get('dp_form', 'df')
    csvp = Path(tmp) / (name + '.csv')
    if dpf != 'df' and dpf != 'none':
        df.to_csv(csvp, index=False)
    dp = {'df': {name: df}, 'csv_dict': {name: csvp}, 'csv_dict_str': {name: str(csvp)}, 'csv_list': [csvp], 'csv_single': csvp,
          'none': None}[dpf]
    if api == 'semantic_analysis':
        kw = {'script': spec['script'], 'data_structures': ds}
    elif api == 'validate_dataset':
        kw = {'data_structures': ds, 'datapoints': dp}
        if spec.get('scalar_values') is not None: kw['scalar_values'] = dict(spec['scalar_values'])
    else:
        kw = {'script': spec['script'], 'data_structures': ds, 'datapoints': dp if dp is not None else {}}
        if spec.get('scalar_values') is not None: kw['scalar_values'] = dict(spec['scalar_values'])
        if spec.get('output_folder'):
            of = Path(tmp) / 'out'; of.mkdir(exist_ok=True); kw['output_folder'] = of
        if spec.get('tp_format'): kw['time_period_output_format'] = spec['tp_format']
        if spec.get('return_only_persistent') is not None: kw['return_only_persistent'] = spec['return_only_persistent']
    if api in ('run', 'semantic_analysis'):
        if spec.get('vd') == 'dict': kw['value_domains'] = {'name': 'VD_1', 'type': 'Integer', 'setlist': [1, 2, 3]}
        elif spec.get('vd') == 'list': kw['value_domains'] = [{'name': 'VD_1', 'type': 'Integer', 'setlist': [1, 2, 3]}, {'name': 'VD_2', 'type': 'String', 'setlist': ['a', 'b']}]
        if spec.get('er') == 'dict': kw['external_routines'] = {'name': 'ER_1', 'query': 'SELECT Id_1 FROM DS_1'}
        elif spec.get('er') == 'list': kw['external_routines'] = [{'name': 'ER_1', 'query': 'SELECT Id_1 FROM DS_1'}]
        if spec.get('sdmx_mappings'): kw['sdmx_mappings'] = {'DataStructure=VERIF:X(1.0)': name}
    return fn, kw


def exec_case(spec):
    eng = _W['eng']
    tmp = tempfile.mkdtemp(prefix='c22_')
    try:
        try:
            fn, kw = build_args(spec, tmp)
        except Exception as e:  # noqa
            return {'outcome': ['harness', type(e).__name__, str(e)[:300]], 'diffs': []}
        snp = lambda k, v: ('v', repr(v)) if k == 'output_folder' else snap(v)     # the output folder is meant to be written
        before = {k: snp(k, v) for k, v in kw.items()}

        def h(sig, frm): raise TimeoutError()
        old = signal.signal(signal.SIGALRM, h); signal.alarm(120)
        try:
            out = eng.outcome(fn, **kw)
        except TimeoutError:
            out = ('timeout',)
        finally:
            signal.alarm(0); signal.signal(signal.SIGALRM, old)
        after = {k: snp(k, v) for k, v in kw.items()}
        diffs = []
        for k in kw:
            for pth, kind in diff(before[k], after[k]):
                diffs.append({'param': k, 'path': pth, 'kind': kind})
        det = [out[0]] + ([str(x)[:160] for x in out[1:3]] if out[0] != 'ok' else [])
        ex = None
        if diffs:
            ex = {'before': json.loads(json.dumps(before[diffs[0]['param']], default=str))[:6] if isinstance(before[diffs[0]['param']], tuple) else None,
                  'after': json.loads(json.dumps(after[diffs[0]['param']], default=str))[:6] if isinstance(after[diffs[0]['param']], tuple) else None}
        return {'outcome': det, 'diffs': diffs, 'example': ex}
    finally:
        import shutil
        shutil.rmtree(tmp, ignore_errors=True)


def url_branch_replay(_=None):
    """run()'s URL branch with the network fetch stubbed (the only part that is not /repo code): does the
    caller's datapoints dict change?"""
    eng = _W['eng']
    import pandas as pd
    import vtlengine.API as A
    from vtlengine import run
    from vtlengine.API._InternalApi import load_datasets
    tmp = tempfile.mkdtemp(prefix='c22u_')
    try:
        structures = {'datasets': [{'name': 'DS_1', 'DataStructure': [{'name': 'Id_1', 'type': 'Integer', 'role': 'Identifier', 'nullable': False},
                                                                       {'name': 'Me_1', 'type': 'Number', 'role': 'Measure', 'nullable': True}]}]}
        p = os.path.join(tmp, 'structures.json'); open(p, 'w').write(json.dumps(structures))
        df = pd.DataFrame({'Id_1': [1, 2], 'Me_1': [1.5, 2.5]})
        if not hasattr(A, '_handle_url_datapoints'):
            return {'outcome': ['no-url-branch'], 'diffs': []}
        orig = A._handle_url_datapoints

        def fake(url_datapoints, structure, mappings=None):
            dss, _ = load_datasets(structures)
            return ({k: dss['DS_1'] for k in url_datapoints}, {}, {k: df.copy() for k in url_datapoints})
        A._handle_url_datapoints = fake
        try:
            dp = {'DS_1': 'https://example.invalid/data/DS_1'}
            before = snap(dp)
            out = eng.outcome(run, 'DS_r <- DS_1;', p, dp)
            after = snap(dp)
        finally:
            A._handle_url_datapoints = orig
        return {'outcome': [out[0]] + [str(x)[:160] for x in out[1:3]] if out[0] != 'ok' else ['ok'],
                'diffs': [{'param': 'datapoints', 'path': pth, 'kind': k} for pth, k in diff(before, after)],
                'example': {'before': "{'DS_1': 'https://example.invalid/data/DS_1'}", 'after_types': {k: type(v).__name__ for k, v in dp.items()}}}
    finally:
        import shutil
        shutil.rmtree(tmp, ignore_errors=True)


# ================================================================================================ generator (parent)
def gen_spec(rng, api):
    types = list(VALUES)
    nme = rng.randint(0, 3)
    comps = [['Id_1', 'Integer', 'Identifier', False]]
    if rng.random() < 0.3: comps.append(['Id_2', 'String', 'Identifier', False])
    for i in range(nme):
        t = rng.choice(types)
        role = rng.choice(['Measure', 'Measure', 'Attribute'])
        comps.append(['%s_%d' % ('Me' if role == 'Measure' else 'At', i + 1), t, role, True])
    nrows = rng.choice([0, 1, 2, 3])
    columns = {}
    for c in comps:
        if c[0] == 'Id_1': columns[c[0]] = list(range(1, nrows + 1))
        elif c[0] == 'Id_2': columns[c[0]] = [VALUES['String'][i % 3] for i in range(nrows)]
        else: columns[c[0]] = [rng.choice(VALUES[c[1]] + [None]) for _ in range(nrows)]
    spec = {'api': api, 'structure': comps, 'nrows': nrows, 'columns': columns, 'df_cols': [c[0] for c in comps]}
    # perturbations of the frame
    r = rng.random()
    nullable = [c[0] for c in comps if c[3]]
    if r < 0.2 and nullable:
        spec['df_cols'].remove(rng.choice(nullable)); spec['perturb'] = 'missing-nullable-column'
    elif r < 0.3:
        spec['df_cols'][0] = '\ufeff' + spec['df_cols'][0]; spec['perturb'] = 'bom-column'
    elif r < 0.4:
        spec['df_cols'].append('Extra_1'); columns['Extra_1'] = ['x'] * nrows; spec['perturb'] = 'extra-column'
    elif r < 0.5 and nullable and nrows:
        cn = rng.choice(nullable); columns[cn] = [''] + [str(v) if v is not None else None for v in columns[cn][1:]]
        spec['perturb'] = 'empty-string-value'
    elif r < 0.56 and nrows >= 2:
        columns['Id_1'][1] = columns['Id_1'][0]; spec['perturb'] = 'duplicate-identifier'
        if 'Id_2' in columns: columns['Id_2'][1] = columns['Id_2'][0]
    elif r < 0.62 and nrows:
        columns['Id_1'][0] = None; spec['perturb'] = 'null-identifier'
    elif r < 0.68 and nme and nrows:
        cn = [c for c in comps if c[0] not in ('Id_1', 'Id_2')][0]
        if cn[1] in ('Integer', 'Number', 'Date', 'Boolean'):
            columns[cn[0]][0] = 'not-a-value'; spec['perturb'] = 'wrong-type-value'
    rng.shuffle(spec['df_cols']) if rng.random() < 0.3 else None
    spec['ds_form'] = rng.choice(['dict', 'dict', 'list', 'path', 'pathlist'])
    scripts = ['DS_r <- DS_1;', 'DS_r <- DS_1[filter Id_1 > 1];', 'DS_r := DS_1; DS_p <- DS_r;', 'DS_r <- DS_1[calc Me_9 := Id_1 + 1];',
               'DS_r <- DS_1 ;;', 'DS_r <- DS_2;', 'DS_r <- DS_1[keep Nope_1];']
    spec['script'] = rng.choice(scripts[:4] * 3 + scripts[4:])
    if api == 'run':
        spec['dp_form'] = rng.choice(['df', 'df', 'df', 'csv_dict', 'csv_dict_str', 'csv_list', 'csv_single'])
        if rng.random() < 0.25: spec['output_folder'] = True
        if rng.random() < 0.2: spec['tp_format'] = rng.choice(['vtl', 'sdmx_gregorian', 'sdmx_reporting', 'natural', 'bogus'])
        if rng.random() < 0.3: spec['return_only_persistent'] = rng.random() < 0.5
    elif api == 'validate_dataset':
        spec['dp_form'] = rng.choice(['df', 'df', 'df', 'df', 'csv_dict', 'csv_list', 'csv_single', 'none'])
    if api in ('run', 'validate_dataset') and rng.random() < 0.3:
        spec['scalars_decl'] = [['sc_1', 'Integer']]
        spec['scalar_values'] = {'sc_1': rng.choice([1, 'x', None])} if rng.random() < 0.8 else {'sc_2': 1}
        if api == 'run' and rng.random() < 0.5: spec['script'] = 'DS_r <- DS_1; sc_r <- sc_1 + 1;'
    if api in ('run', 'semantic_analysis'):
        if rng.random() < 0.35:
            spec['vd'] = rng.choice(['dict', 'list'])
            if rng.random() < 0.5: spec['script'] = 'DS_r <- DS_1[filter Id_1 in VD_1];'
        if rng.random() < 0.25: spec['er'] = rng.choice(['dict', 'list'])
        if rng.random() < 0.15: spec['sdmx_mappings'] = True
    if api == 'run_sdmx':
        spec['mappings'] = rng.choice(['dict', None])
        spec['datasets_form'] = rng.choice(['list', 'list', 'tuple'])
        spec['vd'] = rng.random() < 0.2
    return spec


def gen_text_spec(rng, api):
    scripts = ['DS_r <- DS_1;', 'DS_r := DS_1 + DS_2; /* c */ DS_p <- DS_r[filter Id_1 > 1];',
               'define operator f (x dataset) returns dataset is x + 1 end operator; DS_r <- f(DS_1);',
               'define datapoint ruleset dpr1 (variable Me_1) is Me_1 > 0 errorcode "e" end datapoint ruleset; DS_r <- check_datapoint(DS_1, dpr1);',
               'DS_r <- ;', '']
    forms = ['str', 'str', 'path'] + (['ts'] if api == 'prettify' else [])
    s = rng.choice(scripts)
    f = rng.choice(forms)
    if f == 'ts' and s in ('DS_r <- ;', ''): f = 'str'
    return {'api': api, 'script': s, 'script_form': f, 'version': rng.choice(['1.0', '2.1'])}


# ================================================================================================ main
def main(ck):
    T = [time.time()]; phases = {}
    def lap(n):
        phases[n] = round(time.time() - T[0], 1); T[0] = time.time(); ck.note('phase_seconds', phases)
    # ---- 1. translator + proof
    g = None
    try:
        text, g = effects.translate(vlib.REPO)
    except vlib.ShapeError as e:
        text = None
        ck.unproved('translator:effects', 'source no longer has the shape the translator knows: %s' % e)
    if text is not None:
        ck.gen('Effects', text)
        ck.note('translator_digest', {'nodes': len(g['nodes']), 'edges': sum(len(a) for a in g['adj']), 'mutation_sites_in_closure': len(g['mut_nodes']),
                                      'functions_analysed': len(g['builder'].requested), 'definitions_in_package_graph': g['total_defs'],
                                      'mutation_sites_in_analysed_code': g['all_mut_sites_in_package'],
                                      'untracked_immutable_params': [(a, p) for a, p, d in g['sources'] if d is None]})
        ck.note('external_callees_assumed_non_mutating', {k: len(v) for k, v in sorted(g['ext_assumed'].items())})
    lap('translate')
    pr = ck.proof('C22') if text is not None else {'ok': False, 'failed': ['<no Gen/Effects.lean>'], 'log': ''}
    lap('proof')
    ck.trusted('translator harness/translate/effects.py: construction of the alias-flow graph (reaching definitions, levels, call resolution, '
               'field-sensitive class attributes, annotation-based immutability) — its rules are listed in the module docstring',
               'libraries outside the package do not mutate what they are given and return fresh objects (the list of external callees that receive '
               'caller-owned values is in the evidence); C-level aliasing in pandas is not visible statically: the dynamic snapshots are the counter-measure',
               'snapshot/diff harness in harness/checks/c22.py; stand-in parser for textual scripts')
    ck.assumptions.append('type annotations of parameters / dataclass fields are truthful (str, int, Path, … values are not tracked)')
    ck.assumptions.append('module globals and closures do not carry caller-owned objects between calls')

    # ---- 2. which parameter reaches which site (Lean driver), with a path for each
    static_hits = {}      # site key -> {'params': [(api, p)], 'path': [...]}
    if g is not None:
        b = g['builder']
        srcs = [(a, p, g['idx'][(d, 0)]) for a, p, d in g['sources'] if d]
        sites = list(g['mut_nodes'])
        reqs = [(a, p, i, m) for (a, p, i) in srcs for m in sites]
        try:
            ans = ck.driver('Tables', ['path %d %d' % (i, m) for (_, _, i, m) in reqs] + ['reach %d' % i for _, _, i in srcs])
        except (vlib.DriverError, FileNotFoundError) as e:
            ans = None
            ck.unproved('driver:Tables', 'Lean model does not build / run: %s' % str(e)[-600:])
        if ans:
            for (a, p, i, m), line in zip(reqs, ans):
                ck.count(('reach', a, p, m))
                if line.strip() in ('-', ''): continue
                key = effects.site_key(b.mut[g['nodes'][m][0]])
                h = static_hits.setdefault(key, {'params': [], 'node': m, 'src': i})
                h['params'].append((a, p))
                h.setdefault('path', [effects.describe_node(g, int(x)) for x in line.split()])
            # `reach` (the verified search) and `path` (plain BFS) must agree
            for (a, p, i), line in zip(srcs, ans[len(reqs):]):
                got = set() if line.strip() == '-' else {int(x) for x in line.split()}
                exp = {m for (a2, p2, i2, m), l2 in zip(reqs, ans) if i2 == i and l2.strip() not in ('-', '')}
                if got != exp:
                    ck.unproved('driver:reach-vs-path', 'search and path disagree for %s(%s): %s vs %s' % (a, p, sorted(got), sorted(exp)))
            ck.note('static_reachability', {k: {'from': ['%s(%s)' % ap for ap in h['params']], 'path_len': len(h.get('path') or [])} for k, h in static_hits.items()})
    lap('driver')

    # ---- 3. dynamic snapshots
    rng = ck.rng
    n = {'run': 45, 'validate_dataset': 45, 'semantic_analysis': 15, 'run_sdmx': 15, 'prettify': 8, 'generate_sdmx': 8} if ck.quick() else \
        {'run': 700, 'validate_dataset': 500, 'semantic_analysis': 150, 'run_sdmx': 150, 'prettify': 40, 'generate_sdmx': 40}
    specs = []
    for api in APIS:
        for _ in range(n[api]):
            specs.append(gen_text_spec(rng, api) if api in ('prettify', 'generate_sdmx') else gen_spec(rng, api))
    # fixed regression cases (the probes that found the known defects)
    base = {'structure': [['Id_1', 'Integer', 'Identifier', False], ['Me_1', 'Number', 'Measure', True]], 'nrows': 2,
            'columns': {'Id_1': [1, 2], 'Me_1': [1.5, None]}, 'ds_form': 'dict', 'dp_form': 'df'}
    specs.append(dict(base, api='validate_dataset', df_cols=['Id_1'], perturb='missing-nullable-column'))
    specs.append(dict(base, api='validate_dataset', df_cols=['\ufeffId_1', 'Me_1'], perturb='bom-column'))
    specs.append(dict(base, api='validate_dataset', df_cols=['Id_1', 'Me_1'], columns={'Id_1': [1, 2], 'Me_1': ['', '2.5']}, perturb='empty-string-value'))
    specs.append(dict(base, api='run', script='DS_r <- DS_1;', df_cols=['Id_1'], perturb='missing-nullable-column'))
    specs.append(dict(base, api='run', script='DS_r <- DS_1;', df_cols=['\ufeffId_1', 'Me_1'], perturb='bom-column'))
    specs.append(dict(base, api='run_sdmx', script='DS_r <- DS_1;', df_cols=['Id_1'], perturb='missing-nullable-column'))
    import multiprocessing as mp
    ctx = mp.get_context('spawn')
    os.environ['VERIF_SHARED_LEAN'] = '1'      # spawned workers re-import this module (and vlib): they must not re-sync the private Lean copy
    with ctx.Pool(8 if not ck.quick() else 6, initializer=_winit, initargs=(vlib.REPO,)) as pool:
        results = pool.map(exec_case, specs, chunksize=4)
        url = pool.apply(url_branch_replay, (None,))
    os.environ.pop('VERIF_SHARED_LEAN', None)
    lap('dynamic')
    dist = {}
    dyn = {}        # (api, param, kind) -> first (spec, result)
    for spec, res in zip(specs, results):
        api = spec['api']
        ok = res['outcome'][0]
        d = dist.setdefault(api, {'calls': 0, 'ok': 0, 'failed': 0, 'harness': 0, 'with_diff': 0, 'forms': {}, 'perturb': {}})
        d['calls'] += 1
        d['ok' if ok == 'ok' else ('harness' if ok in ('harness', 'timeout') else 'failed')] += 1
        f = spec.get('dp_form') or spec.get('script_form') or '-'
        d['forms'][f] = d['forms'].get(f, 0) + 1
        if spec.get('perturb'): d['perturb'][spec['perturb']] = d['perturb'].get(spec['perturb'], 0) + 1
        ck.count(json.dumps(spec, sort_keys=True, default=str))
        if res['diffs']: d['with_diff'] += 1
        for df_ in res['diffs']:
            dyn.setdefault((api, df_['param'], df_['kind']), (spec, res))
        if ok == 'harness':
            ck.note('harness_problem', res['outcome'])
        ck.sample({'api': api, 'forms': [spec.get('ds_form'), spec.get('dp_form'), spec.get('script_form')], 'perturb': spec.get('perturb'),
                   'outcome': res['outcome'], 'diffs': res['diffs']}, cap=10)
    ck.note('distribution', dist)
    ck.cov['traces_validated_against_impl'] = len(specs) + 1
    url_confirms = bool(url.get('diffs'))
    ck.note('url_branch_with_stubbed_fetch', url)
    ck.count('url-branch')

    # ---- 4. verdicts
    explained = set()
    for key, h in static_hits.items():
        confirm = None
        for (a, p) in h['params']:
            for (da, dp, dk), (spec, res) in dyn.items():
                if da == a and dp == p:
                    confirm = {'spec': spec, 'outcome': res['outcome'], 'diffs': res['diffs'], 'example': res.get('example')}
                    explained.add((da, dp, dk))
        if confirm is None and 'url_name' in key and url_confirms:
            confirm = {'spec': 'run(script, "<structures.json>", {"DS_1": "https://…"}) with the pysdmx fetch stubbed', 'outcome': url['outcome'],
                       'diffs': url['diffs'], 'example': url.get('example')}
        if confirm is not None:
            ck.violation('mutates-argument:' + key, {'static': {'site': key, 'reachable_from': h['params'], 'path': h.get('path')}, 'dynamic': confirm},
                         'in-place mutation site %s is reachable from %s and a call changes the caller\'s object (%s)' % (
                             key, ', '.join('%s(%s)' % ap for ap in h['params']), ', '.join(sorted({d['kind'] for d in confirm['diffs']}))))
        else:
            ck.unproved('no_arg_mutation:' + key, 'mutation site %s is statically reachable from %s but no generated call changed an argument'
                        % (key, ', '.join('%s(%s)' % ap for ap in h['params'])), {'path': h.get('path')})
    for (a, p, k), (spec, res) in dyn.items():
        if (a, p, k) in explained: continue
        # run_sdmx hands the caller's frames to run(): attribute to the same static sites when run(datapoints) reaches them
        ck.violation('mutates-argument:dynamic-only:%s:%s:%s' % (a, p, k), {'spec': spec, 'outcome': res['outcome'], 'diffs': res['diffs'], 'example': res.get('example')},
                     '%s() changed its argument %s (%s) — not predicted by the static pass' % (a, p, k))
    if not pr['ok'] and not ck.viol:
        for t in (pr.get('failed') or ['<build>']):
            ck.unproved(t, 'Props/C22.lean no longer checks (%s); %d snapshot-wrapped calls found no modified argument'
                        % ('; '.join(pr.get('forbidden', []) + pr.get('bad_axioms', [])) or 'lake build failed', len(specs)), pr.get('log', '')[-1500:])


def replay(path):
    rep = json.load(open(path))
    r = rep.get('replay', {})
    spec = (r.get('dynamic') or {}).get('spec') if 'dynamic' in r else r.get('spec')
    _winit(vlib.REPO)
    if isinstance(spec, dict):
        res = exec_case(spec)
        print('replay %s -> outcome %s diffs %s' % (json.dumps(spec)[:300], res['outcome'], res['diffs']))
        return 1 if res['diffs'] else 0
    if isinstance(spec, str):
        res = url_branch_replay()
        print('replay URL branch (stubbed fetch) -> %s' % res)
        return 1 if res['diffs'] else 0
    print(json.dumps(rep, indent=1)[:3000]); return 0


if __name__ == '__main__':
    if '--replay' in sys.argv:
        sys.exit(replay(sys.argv[sys.argv.index('--replay') + 1]))
    vlib.run_check('C22', main)

"""C29 — exact-name reference evaluator for a VTL operator subset.

Everything is keyed by the name EXACTLY as spelled (Python dict / `==` on str): `Me_1`, `me_1`, `ME_1`
are three different components, `DS_1` and `ds_1` two different datasets.  No normalisation of a name
happens anywhere in this module (there is no .lower()/.upper()/casefold() applied to a *name*; the VTL
functions upper()/lower() act on String *values* only).

AST (tuples; every NAME is a `Sym`, every other string is an operator tag or a String constant):

  dataset expressions
    ('ds', name)
    ('calc', DE, [(target, CE), ...])          DE[calc t := e, ...]
    ('filter', DE, CE)                          DE[filter e]
    ('keep', DE, [name...]) ('drop', DE, [name...])
    ('rename', DE, [(old, new), ...])
    ('aggrc', DE, [(target, aggop, comp), ...], [group ids])     DE[aggr t := sum(c) group by i]
    ('memb', dsname, comp)                      DS#comp
    ('bin', op, DE, DE)   ('binsc', op, DE, const)   ('un', op, DE)   ('cmpsc', op, DE, const)
    ('agg', aggop, DE, [group ids])             sum(DE group by i)
    ('join', kind, [(dsname, alias|None), ...], using|None, [body clauses])
         body clauses (grammar order): ('filter', CE) ('calc', [...]) ('keep'|'drop', [...]) ('rename', [(old,new)])
         inside a join body a component reference is ('c', name) or ('ac', alias, name)  (alias#name)
  component expressions
    ('c', name) ('ac', alias, name) ('k', const) ('b', op, CE, CE) ('cmp', op, CE, CE)
    ('if', CE, CE, CE) ('u', op, CE) ('cat', CE, CE) ('sf', 'upper'|'lower', CE)
  script: [(out_name, persistent, DE), ...]

`evaluate(script, inputs)` -> ('ok', {name: RDS}) | ('err', kind, name)   kind in unknown-dataset,
unknown-component, clash, semantic.  Besides the values it returns the *scope trace*: for every clause
applied to a component scope, the list of scope operations (lookup / insert / erase / rename) — that is
what is replayed on the Lean model `VtlModel.Names.runCS`.
"""
from __future__ import annotations


class Sym(str):
    """a NAME (dataset, component, alias) inside an AST"""
    __slots__ = ()

    def __repr__(self):
        return 'Sym(%s)' % str.__repr__(self)


class RefError(Exception):
    def __init__(self, kind, name=''):
        Exception.__init__(self, '%s: %s' % (kind, name))
        self.kind, self.name = kind, name


# ----------------------------------------------------------------------------------------- AST utilities
def subst(node, m):
    """rename every Sym through the mapping m (Sym not in m stays)"""
    if isinstance(node, Sym):
        return Sym(m.get(str(node), str(node)))
    if isinstance(node, tuple):
        return tuple(subst(x, m) for x in node)
    if isinstance(node, list):
        return [subst(x, m) for x in node]
    return node


def syms(node, acc=None):
    acc = [] if acc is None else acc
    if isinstance(node, Sym):
        acc.append(str(node))
    elif isinstance(node, (tuple, list)):
        for x in node:
            syms(x, acc)
    return acc


def to_json(node):
    if isinstance(node, Sym):
        return {'$': str(node)}
    if isinstance(node, (tuple, list)):
        return [to_json(x) for x in node]
    return node


def from_json(node):
    if isinstance(node, dict):
        return Sym(node['$'])
    if isinstance(node, list):
        return tuple(from_json(x) for x in node)
    return node


# ----------------------------------------------------------------------------------------- rendering
def _const(v):
    if isinstance(v, bool):
        return 'true' if v else 'false'
    if isinstance(v, str):
        return '"%s"' % v
    if isinstance(v, float):
        return repr(v)
    return str(v)


def r_ce(e):
    t = e[0]
    if t == 'c':
        return str(e[1])
    if t == 'ac':
        return '%s#%s' % (e[1], e[2])
    if t == 'k':
        return _const(e[1])
    if t == 'b' or t == 'cmp':
        return '(%s %s %s)' % (r_ce(e[2]), e[1], r_ce(e[3]))
    if t == 'if':
        return '(if %s then %s else %s)' % (r_ce(e[1]), r_ce(e[2]), r_ce(e[3]))
    if t == 'u':
        return '(- %s)' % r_ce(e[2]) if e[1] == '-' else '%s(%s)' % (e[1], r_ce(e[2]))
    if t == 'cat':
        return '(%s || %s)' % (r_ce(e[1]), r_ce(e[2]))
    if t == 'sf':
        return '%s(%s)' % (e[1], r_ce(e[2]))
    raise ValueError(e)


def _r_clause(c):
    t = c[0]
    if t == 'calc':
        return 'calc ' + ', '.join('%s := %s' % (n, r_ce(x)) for n, x in c[1])
    if t == 'filter':
        return 'filter ' + r_ce(c[1])
    if t in ('keep', 'drop'):
        return t + ' ' + ', '.join(str(n) for n in c[1])
    if t == 'rename':
        return 'rename ' + ', '.join('%s to %s' % (_r_name(a), b) for a, b in c[1])
    raise ValueError(c)


def _r_name(a):
    return '%s#%s' % (a[1], a[2]) if isinstance(a, tuple) else str(a)


def r_de(e):
    t = e[0]
    if t == 'ds':
        return str(e[1])
    if t in ('calc', 'keep', 'drop', 'rename'):
        return '%s[%s]' % (r_de(e[1]), _r_clause((t, e[2])))
    if t == 'filter':
        return '%s[filter %s]' % (r_de(e[1]), r_ce(e[2]))
    if t == 'aggrc':
        return '%s[aggr %s group by %s]' % (r_de(e[1]), ', '.join('%s := %s(%s)' % (n, op, c) for n, op, c in e[2]),
                                             ', '.join(str(g) for g in e[3]))
    if t == 'memb':
        return '%s#%s' % (e[1], e[2])
    if t == 'bin':
        return '(%s %s %s)' % (r_de(e[2]), e[1], r_de(e[3]))
    if t == 'binsc':
        return '(%s %s %s)' % (r_de(e[2]), e[1], _const(e[3]))
    if t == 'cmpsc':
        return '(%s %s %s)' % (r_de(e[2]), e[1], _const(e[3]))
    if t == 'un':
        return '(- %s)' % r_de(e[2]) if e[1] == '-' else '%s(%s)' % (e[1], r_de(e[2]))
    if t == 'agg':
        return '%s(%s group by %s)' % (e[1], r_de(e[2]), ', '.join(str(g) for g in e[3]))
    if t == 'join':
        parts = [str(d) if a is None else '%s as %s' % (d, a) for d, a in e[2]]
        s = '%s(%s' % (e[1], ', '.join(parts))
        if e[3]:
            s += ' using ' + ', '.join(str(u) for u in e[3])
        for c in e[4]:
            s += ' ' + _r_clause(c)
        return s + ')'
    raise ValueError(e)


def render(script):
    return '\n'.join('%s %s %s;' % (o, '<-' if p else ':=', r_de(e)) for o, p, e in script)


# ----------------------------------------------------------------------------------------- datasets
NUMERIC = ('Integer', 'Number')


class RDS:
    """comps: {name: (type, role)} insertion-ordered; rows: list of {name: value}; tags: {name: int}
    (a tag identifies the column content: a fresh tag for every calculated column, kept by rename)."""

    def __init__(self, comps, rows, tags=None):
        self.comps, self.rows = dict(comps), [dict(r) for r in rows]
        self.tags = dict(tags) if tags is not None else {}

    def ids(self):
        return [n for n, (t, r) in self.comps.items() if r == 'Identifier']

    def measures(self):
        return [n for n, (t, r) in self.comps.items() if r != 'Identifier']


class Trace:
    """scope operations, grouped per clause application: (context, keys_before [(k, tag)], ops, error|None,
    keys_after [(k, tag)] | None)"""

    def __init__(self):
        self.groups, self.counter, self.contexts, self.scopes = [], 1000, [], []

    def fresh(self):
        self.counter += 1
        return self.counter


class Scope:
    """the component scope of one dataset while a clause works on it; every access is recorded"""

    def __init__(self, tr, ctx, ds):
        self.tr, self.ctx, self.ds = tr, ctx, ds
        self.before = [(k, ds.tags.get(k, 0)) for k in ds.comps]
        self.ops = []
        tr.contexts.append(ctx)
        tr.scopes.append((ctx, list(ds.comps)))

    def lookup(self, k):
        self.ops.append(('l', str(k)))
        if k not in self.ds.comps:          # exact, case-sensitive membership
            self._close('unknown')
            raise RefError('unknown-component', str(k))
        return k

    def fail(self, kind, k):
        self._close(kind)
        raise RefError(kind, str(k))

    def op(self, *o):
        self.ops.append(tuple(str(x) if isinstance(x, str) else x for x in o))

    def _close(self, err, after=None):
        self.tr.groups.append({'ctx': self.ctx, 'before': self.before, 'ops': self.ops, 'err': err,
                               'after': None if after is None else [(k, after.tags.get(k, 0)) for k in after.comps]})

    def done(self, after):
        self._close(None, after)
        self.tr.scopes.append((self.ctx, list(after.comps)))
        return after


# ----------------------------------------------------------------------------------------- component exprs
def _ty_join(a, b):
    if a == b:
        return a
    if a in NUMERIC and b in NUMERIC:
        return 'Number'
    raise RefError('semantic', 'types %s/%s' % (a, b))


def ce_type(e, look):
    """static type; `look(node)` resolves a ('c',..)/('ac',..) node to (column key, type) and records the lookup"""
    t = e[0]
    if t in ('c', 'ac'):
        return look(e)[1]
    if t == 'k':
        v = e[1]
        return 'Boolean' if isinstance(v, bool) else 'Integer' if isinstance(v, int) else 'Number' if isinstance(v, float) else 'String'
    if t == 'b':
        a, b = ce_type(e[2], look), ce_type(e[3], look)
        if a not in NUMERIC or b not in NUMERIC:
            raise RefError('semantic', 'arith on %s/%s' % (a, b))
        return _ty_join(a, b)
    if t == 'cmp':
        _ty_join(ce_type(e[2], look), ce_type(e[3], look))
        return 'Boolean'
    if t == 'if':
        if ce_type(e[1], look) != 'Boolean':
            raise RefError('semantic', 'if condition')
        return _ty_join(ce_type(e[2], look), ce_type(e[3], look))
    if t == 'u':
        a = ce_type(e[2], look)
        if a not in NUMERIC:
            raise RefError('semantic', 'unary on %s' % a)
        return a
    if t == 'cat':
        if ce_type(e[1], look) != 'String' or ce_type(e[2], look) != 'String':
            raise RefError('semantic', 'concat')
        return 'String'
    if t == 'sf':
        if ce_type(e[2], look) != 'String':
            raise RefError('semantic', e[1])
        return 'String'
    raise ValueError(e)


def _arith(op, a, b):
    if a is None or b is None:
        return None
    return a + b if op == '+' else a - b if op == '-' else a * b


def _cmp(op, a, b):
    if a is None or b is None:
        return None
    return {'>': a > b, '<': a < b, '>=': a >= b, '<=': a <= b, '=': a == b, '<>': a != b}[op]


def ce_val(e, row, key):
    """value on one row; `key(node)` gives the row key of a component reference (already resolved)"""
    t = e[0]
    if t in ('c', 'ac'):
        return row[key(e)]
    if t == 'k':
        return e[1]
    if t == 'b':
        return _arith(e[1], ce_val(e[2], row, key), ce_val(e[3], row, key))
    if t == 'cmp':
        return _cmp(e[1], ce_val(e[2], row, key), ce_val(e[3], row, key))
    if t == 'if':
        c = ce_val(e[1], row, key)
        return ce_val(e[2], row, key) if c is True else ce_val(e[3], row, key)
    if t == 'u':
        v = ce_val(e[2], row, key)
        return None if v is None else (-v if e[1] == '-' else abs(v))
    if t == 'cat':
        a, b = ce_val(e[1], row, key), ce_val(e[2], row, key)
        return None if a is None or b is None else a + b
    if t == 'sf':
        v = ce_val(e[2], row, key)
        return None if v is None else (v.upper() if e[1] == 'upper' else v.lower())   # on VALUES, never on names
    raise ValueError(e)


def _agg(op, vals):
    vals = [v for v in vals if v is not None]
    if not vals:
        return None
    if op == 'sum':
        return sum(vals)
    if op == 'max':
        return max(vals)
    if op == 'min':
        return min(vals)
    if op == 'avg':
        return sum(vals) / len(vals)
    raise ValueError(op)


def _agg_type(op, t):
    if t not in NUMERIC:
        raise RefError('semantic', '%s on %s' % (op, t))
    return 'Number' if op == 'avg' else t


# ----------------------------------------------------------------------------------------- clauses
def _plain_look(sc, ds):
    def look(node):
        if node[0] == 'ac':
            raise RefError('semantic', 'alias#comp outside a join')
        k = sc.lookup(node[1])
        return k, ds.comps[k][0]
    return look


def _plain_key(node):
    return node[1]


def cl_calc(tr, ds, items, ctx='calc', look_of=None, key=None):
    sc = Scope(tr, ctx, ds)
    look = (look_of or _plain_look)(sc, ds)
    key = key or _plain_key
    types, seen = [], set()
    for target, e in items:
        types.append(ce_type(e, look))
        if target in seen:
            sc.fail('semantic', target)
        seen.add(target)
        if target in ds.comps and ds.comps[target][1] == 'Identifier':      # exact
            sc.fail('semantic', target)
    out = RDS(ds.comps, [], ds.tags)
    for (target, e), ty in zip(items, types):
        out.comps[target] = (ty, 'Measure')
        out.tags[target] = tr.fresh()
        sc.op('i', target, out.tags[target])
    for row in ds.rows:
        new = dict(row)
        for target, e in items:
            new[target] = ce_val(e, row, key)
        out.rows.append(new)
    return sc.done(out)


def cl_filter(tr, ds, e, ctx='filter', look_of=None, key=None):
    sc = Scope(tr, ctx, ds)
    if ce_type(e, (look_of or _plain_look)(sc, ds)) != 'Boolean':
        sc.fail('semantic', 'filter')
    key = key or _plain_key
    return sc.done(RDS(ds.comps, [r for r in ds.rows if ce_val(e, r, key) is True], ds.tags))


def _restrict(ds, names):
    return RDS({n: ds.comps[n] for n in ds.comps if n in names},
               [{n: r[n] for n in ds.comps if n in names} for r in ds.rows],
               {n: t for n, t in ds.tags.items() if n in names})


def cl_keep(tr, ds, names, ctx='keep'):
    sc = Scope(tr, ctx, ds)
    for n in names:
        sc.lookup(n)
        if ds.comps[n][1] == 'Identifier':
            sc.fail('semantic', n)
    keepset = set(ds.ids()) | set(names)
    for n in ds.comps:
        if n not in keepset:
            sc.op('e', n)
    return sc.done(_restrict(ds, keepset))


def cl_drop(tr, ds, names, ctx='drop'):
    sc = Scope(tr, ctx, ds)
    for n in names:
        if n not in ds.comps:
            sc.op('e', n)
            sc.fail('unknown-component', n)
        if ds.comps[n][1] == 'Identifier':
            sc.fail('semantic', n)
    for n in names:
        sc.op('e', n)
    return sc.done(_restrict(ds, set(ds.comps) - set(names)))


def cl_rename(tr, ds, pairs, ctx='rename'):
    sc = Scope(tr, ctx, ds)
    olds = [a for a, _ in pairs]
    news = [b for _, b in pairs]
    if len(set(olds)) != len(olds) or len(set(news)) != len(news):
        sc.fail('semantic', 'duplicate in rename')
    for a, b in pairs:
        if a not in ds.comps:
            sc.op('r', a, b)
            sc.fail('unknown-component', a)
    for a, b in pairs:
        if b in ds.comps and b not in olds:      # exact
            sc.op('r', a, b)
            sc.fail('clash', b)
        if b in ds.comps:                        # target is another renamed-away name: keep it simple, reject
            sc.fail('semantic', b)
    m = dict(pairs)
    for a, b in pairs:
        sc.op('r', a, b)
    out = RDS({m.get(n, n): v for n, v in ds.comps.items()},
              [{m.get(n, n): v for n, v in r.items()} for r in ds.rows],
              {m.get(n, n): t for n, t in ds.tags.items()})
    return sc.done(out)


def cl_aggr(tr, ds, items, group, ctx='aggr'):
    sc = Scope(tr, ctx, ds)
    for g in group:
        sc.lookup(g)
        if ds.comps[g][1] != 'Identifier':
            sc.fail('semantic', g)
    types = []
    for target, op, c in items:
        sc.lookup(c)
        types.append(_agg_type(op, ds.comps[c][0]))
    tg = [t for t, _, _ in items]
    if len(set(tg)) != len(tg) or any(t in group for t in tg):
        sc.fail('semantic', 'aggr targets')
    for n in ds.comps:
        if n not in group:
            sc.op('e', n)
    out = RDS({g: ds.comps[g] for g in ds.comps if g in group}, [], {g: ds.tags.get(g, 0) for g in group})
    for (target, op, c), ty in zip(items, types):
        out.comps[target] = (ty, 'Measure')
        out.tags[target] = tr.fresh()
        sc.op('i', target, out.tags[target])
    groups = {}
    for r in ds.rows:
        groups.setdefault(tuple(r[g] for g in out.ids()), []).append(r)
    for k, rs in groups.items():
        row = dict(zip(out.ids(), k))
        for target, op, c in items:
            row[target] = _agg(op, [r[c] for r in rs])
        out.rows.append(row)
    return sc.done(out)


# ----------------------------------------------------------------------------------------- dataset exprs
def _all_numeric(ds, what):
    for n in ds.measures():
        if ds.comps[n][0] not in NUMERIC:
            raise RefError('semantic', '%s on %s' % (what, ds.comps[n][0]))
    if not ds.measures():
        raise RefError('semantic', 'no measures')


def _map_measures(tr, ds, fn, ty=None):
    out = RDS(ds.comps, [], ds.tags)
    for n in ds.measures():
        out.tags[n] = tr.fresh()
        if ty:
            out.comps[n] = (ty(ds.comps[n][0]), ds.comps[n][1])
    for r in ds.rows:
        new = dict(r)
        for n in ds.measures():
            new[n] = fn(r[n])
        out.rows.append(new)
    return out


def ev_de(tr, env, e):
    t = e[0]
    if t == 'ds':
        if e[1] not in env:                 # exact
            raise RefError('unknown-dataset', str(e[1]))
        return env[e[1]]
    if t == 'calc':
        return cl_calc(tr, ev_de(tr, env, e[1]), e[2])
    if t == 'filter':
        return cl_filter(tr, ev_de(tr, env, e[1]), e[2])
    if t == 'keep':
        return cl_keep(tr, ev_de(tr, env, e[1]), e[2])
    if t == 'drop':
        return cl_drop(tr, ev_de(tr, env, e[1]), e[2])
    if t == 'rename':
        return cl_rename(tr, ev_de(tr, env, e[1]), e[2])
    if t == 'aggrc':
        return cl_aggr(tr, ev_de(tr, env, e[1]), e[2], e[3])
    if t == 'memb':
        ds = ev_de(tr, env, ('ds', e[1]))
        sc = Scope(tr, 'memb', ds)
        sc.lookup(e[2])
        if ds.comps[e[2]][1] == 'Identifier':
            sc.fail('semantic', e[2])
        keep = set(ds.ids()) | {e[2]}
        for n in ds.comps:
            if n not in keep:
                sc.op('e', n)
        return sc.done(_restrict(ds, keep))
    if t == 'bin':
        a, b = ev_de(tr, env, e[2]), ev_de(tr, env, e[3])
        _all_numeric(a, e[1]); _all_numeric(b, e[1])
        if set(a.measures()) != set(b.measures()) or set(a.ids()) != set(b.ids()):     # exact
            raise RefError('semantic', 'measures/identifiers do not match')
        tr.contexts.append('bin')
        out = RDS(a.comps, [], a.tags)
        for n in a.measures():
            out.comps[n] = (_ty_join(a.comps[n][0], b.comps[n][0]), a.comps[n][1])
            out.tags[n] = tr.fresh()
        idx = {tuple(r[i] for i in a.ids()): r for r in b.rows}
        for r in a.rows:
            o = idx.get(tuple(r[i] for i in a.ids()))
            if o is None:
                continue
            new = dict(r)
            for n in a.measures():
                new[n] = _arith(e[1], r[n], o[n])
            out.rows.append(new)
        tr.scopes.append(('bin', list(out.comps)))
        return out
    if t == 'binsc':
        a = ev_de(tr, env, e[2])
        _all_numeric(a, e[1])
        tr.contexts.append('binsc')
        kt = 'Integer' if isinstance(e[3], int) else 'Number'
        return _map_measures(tr, a, lambda v: _arith(e[1], v, e[3]), lambda ty: _ty_join(ty, kt))
    if t == 'un':
        a = ev_de(tr, env, e[2])
        _all_numeric(a, e[1])
        tr.contexts.append('un')
        return _map_measures(tr, a, lambda v: None if v is None else (-v if e[1] == '-' else abs(v)))
    if t == 'cmpsc':
        a = ev_de(tr, env, e[2])
        if len(a.measures()) != 1:
            raise RefError('semantic', 'comparison needs one measure')
        tr.contexts.append('cmpsc')
        m = a.measures()[0]
        kt = 'Boolean' if isinstance(e[3], bool) else 'Integer' if isinstance(e[3], int) else 'Number' if isinstance(e[3], float) else 'String'
        _ty_join(a.comps[m][0], kt)
        out = RDS({i: a.comps[i] for i in a.ids()}, [], {i: a.tags.get(i, 0) for i in a.ids()})
        out.comps[Sym('bool_var')] = ('Boolean', 'Measure')
        out.tags['bool_var'] = tr.fresh()
        for r in a.rows:
            new = {i: r[i] for i in a.ids()}
            new['bool_var'] = _cmp(e[1], r[m], e[3])
            out.rows.append(new)
        return out
    if t == 'agg':
        a = ev_de(tr, env, e[2])
        sc = Scope(tr, 'agg', a)
        for g in e[3]:
            sc.lookup(g)
            if a.comps[g][1] != 'Identifier':
                sc.fail('semantic', g)
        for n in a.measures():
            if a.comps[n][0] not in NUMERIC:
                sc.fail('semantic', n)
        if not a.measures():
            sc.fail('semantic', 'no measures')
        for n in a.ids():
            if n not in e[3]:
                sc.op('e', n)
        out = RDS({n: (v if v[1] == 'Identifier' else (_agg_type(e[1], v[0]), v[1])) for n, v in a.comps.items()
                   if n in e[3] or v[1] != 'Identifier'}, [], a.tags)
        out.tags = {n: (a.tags.get(n, 0) if n in e[3] else tr.fresh()) for n in out.comps}
        for n in out.measures():
            sc.op('i', n, out.tags[n])
        groups = {}
        for r in a.rows:
            groups.setdefault(tuple(r[g] for g in out.ids()), []).append(r)
        for k, rs in groups.items():
            row = dict(zip(out.ids(), k))
            for n in out.measures():
                row[n] = _agg(e[1], [r[n] for r in rs])
            out.rows.append(row)
        return sc.done(out)
    if t == 'join':
        return ev_join(tr, env, e)
    raise ValueError(e)


def ev_join(tr, env, e):
    _, kind, operands, using, body = e
    dss, aliases = [], []
    for d, a in operands:
        dss.append(ev_de(tr, env, ('ds', d)))
        aliases.append(a if a is not None else d)
    if len(set(aliases)) != len(aliases):          # exact: d1 and D1 are two aliases
        raise RefError('semantic', 'duplicate alias')
    tr.contexts.append(kind)
    tr.scopes.append((kind + ':aliases', [str(a) for a in aliases]))
    ids = dss[0].ids()
    for d in dss[1:]:
        if set(d.ids()) != set(ids):               # the generator only makes joins over equal identifier sets
            raise RefError('semantic', 'identifiers of the join operands differ')
    if using is not None:
        for u in using:
            for d in dss:
                if u not in d.comps:               # exact
                    raise RefError('unknown-component', str(u))
        if set(using) != set(ids):
            raise RefError('semantic', 'using must list the common identifiers')
    # virtual dataset: identifiers once; a non-identifier name present in several operands is only
    # reachable as alias#name
    count = {}
    for d in dss:
        for n in d.measures():
            count[n] = count.get(n, 0) + 1
    comps, owner, tags = {i: dss[0].comps[i] for i in ids}, {}, {i: dss[0].tags.get(i, 0) for i in ids}
    for d, a in zip(dss, aliases):
        for n in d.measures():
            key = n if count[n] == 1 else Sym('%s#%s' % (a, n))
            comps[key] = d.comps[n]
            owner[key] = (a, n)
            tags[key] = d.tags.get(n, 0)
    rows = []
    idx = [{tuple(r[i] for i in ids): r for r in d.rows} for d in dss]
    for r0 in dss[0].rows:
        k = tuple(r0[i] for i in ids)
        row = {i: r0[i] for i in ids}
        ok = True
        for d, a, ix in zip(dss, aliases, idx):
            o = ix.get(k)
            if o is None and kind == 'inner_join':
                ok = False
                break
            for n in d.measures():
                key = n if count[n] == 1 else '%s#%s' % (a, n)
                row[key] = None if o is None else o[n]
        if ok:
            rows.append(row)
    cur = RDS(comps, rows, tags)
    tr.scopes.append((kind + ':virtual', [str(n) for d in dss for n in d.comps]))

    def resolve(node, ds):
        """('c', n) / ('ac', alias, n) -> key in the virtual dataset (exact comparisons only)"""
        if node[0] == 'c':
            return node[1]
        a, n = node[1], node[2]
        if a not in aliases:
            raise RefError('unknown-dataset', str(a))
        k2 = '%s#%s' % (a, n)
        if k2 in ds.comps:
            return Sym(k2)
        src = dss[aliases.index(a)]
        if n not in src.comps:
            raise RefError('unknown-component', str(n))
        return n

    def look_of(sc, ds):
        def look(node):
            k = resolve(node, ds)
            sc.lookup(k)
            return k, ds.comps[k][0]
        return look

    for c in body:
        key = lambda node: resolve(node, cur)   # noqa: E731
        if c[0] == 'filter':
            cur = cl_filter(tr, cur, c[1], kind + ':filter', look_of, key)
        elif c[0] == 'calc':
            cur = cl_calc(tr, cur, c[1], kind + ':calc', look_of, key)
        elif c[0] == 'keep':
            cur = cl_keep(tr, cur, [resolve(n if isinstance(n, tuple) else ('c', n), cur) for n in c[1]], kind + ':keep')
        elif c[0] == 'drop':
            cur = cl_drop(tr, cur, [resolve(n if isinstance(n, tuple) else ('c', n), cur) for n in c[1]], kind + ':drop')
        elif c[0] == 'rename':
            cur = cl_rename(tr, cur, [(resolve(a if isinstance(a, tuple) else ('c', a), cur), b) for a, b in c[1]], kind + ':rename')
    for n in cur.comps:
        if '#' in n:
            raise RefError('semantic', 'ambiguous component left in join result: ' + n)
    tr.scopes.append((kind + ':result', list(cur.comps)))
    return cur


def evaluate(script, inputs):
    """inputs: {name: RDS}.  Returns (outcome, trace); outcome = ('ok', {name: RDS}) | ('err', kind, name)."""
    tr = Trace()
    env = dict(inputs)
    outs = {}
    tr.scopes.append(('datasets', [str(n) for n in inputs] + [str(o) for o, _, _ in script]))
    for n, d in inputs.items():
        tr.scopes.append(('input', list(d.comps)))
        for i, c in enumerate(d.comps):
            d.tags.setdefault(c, i + 1)
    try:
        seen = set(inputs)
        for o, p, e in script:
            if o in seen:                   # exact: DS_r and ds_r are two results
                raise RefError('semantic', 'dataset %s defined twice' % o)
            seen.add(o)
        for o, p, e in script:
            r = ev_de(tr, env, e)
            r = RDS(r.comps, r.rows, r.tags)
            tr.scopes.append(('result', list(r.comps)))
            env[o] = r
            outs[o] = r
        return ('ok', outs), tr
    except RefError as ex:
        return ('err', ex.kind, ex.name), tr

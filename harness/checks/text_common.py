"""Shared helpers of the Text group (C24, C25): structural AST comparison that ignores positions,
corpus enumeration, wall-clock guard, conversion between vtlengine ASTs / token streams and the
Lean model's line protocol (lean/Drivers/Text.lean)."""
from __future__ import annotations

import dataclasses
import enum
import glob
import os
import signal
import sys
import urllib.parse

HERE = os.path.dirname(os.path.abspath(__file__))
sys.path.insert(0, os.path.join(HERE, '..'))

POS = ('line_start', 'column_start', 'line_stop', 'column_stop')


class Timeout(Exception):
    pass


def _alarm(*a):
    raise Timeout()


class guard:
    """with guard(seconds): ...   (main thread of a worker process only)"""
    def __init__(self, s): self.s = s
    def __enter__(self):
        signal.signal(signal.SIGALRM, _alarm); signal.alarm(self.s)
    def __exit__(self, *a):
        signal.alarm(0)
        return False


def corpus_files(repo):
    return sorted(glob.glob(os.path.join(repo, 'tests', '**', '*.vtl'), recursive=True))


# ------------------------------------------------------------------ structural AST comparison
def canon(x):
    """vtlengine AST (or any value inside one) -> nested tuples, positions dropped."""
    from vtlengine.AST import AST
    if isinstance(x, AST):
        items = []
        for f in dataclasses.fields(x):
            if f.name in POS:
                continue
            items.append((f.name, canon(getattr(x, f.name))))
        # attributes the constructor attaches outside the dataclass fields (is_implicit_role, _right_condition, …)
        names = {f.name for f in dataclasses.fields(x)}
        for k, v in sorted(vars(x).items()):
            if k in names or k in POS or k == '_hr_sorted':
                continue
            if v is None or v is False:
                continue
            items.append((k, canon(v)))
        return (type(x).__name__,) + tuple(items)
    if isinstance(x, (list, tuple)):
        return ('list',) + tuple(canon(y) for y in x)
    if isinstance(x, dict):
        return ('dict',) + tuple((str(k), canon(v)) for k, v in x.items())
    if isinstance(x, enum.Enum):
        return ('enum', type(x).__name__, x.name)
    if isinstance(x, type):
        return ('type', x.__name__)
    if isinstance(x, bool) or x is None or isinstance(x, (int, str)):
        return (type(x).__name__, x)
    if isinstance(x, float):
        return ('float', repr(x))
    if dataclasses.is_dataclass(x):
        return (type(x).__name__,) + tuple((f.name, canon(getattr(x, f.name))) for f in dataclasses.fields(x))
    if hasattr(x, '__dict__'):
        return (type(x).__name__,) + tuple((k, canon(v)) for k, v in sorted(vars(x).items()) if not k.startswith('_'))
    return ('repr', repr(x))


def first_diff(a, b, path=''):
    """first differing position of two canon() values -> (path, a_part, b_part) or None"""
    if a == b:
        return None
    if isinstance(a, tuple) and isinstance(b, tuple) and a and b and a[0] == b[0] and len(a) == len(b):
        for i, (x, y) in enumerate(zip(a[1:], b[1:])):
            if isinstance(x, tuple) and len(x) == 2 and isinstance(x[0], str) and isinstance(y, tuple) and len(y) == 2 and x[0] == y[0]:
                d = first_diff(x[1], y[1], path + '/' + str(a[0]) + '.' + x[0])
            else:
                d = first_diff(x, y, path + '/' + str(a[0]) + '[%d]' % i)
            if d:
                return d
    return (path, _short(a), _short(b))


def _short(x, n=320):
    s = repr(x)
    return s if len(s) <= n else s[:n] + '…'


def node_kinds(c, acc=None):
    """set of AST class names in a canon() value"""
    if acc is None:
        acc = set()
    if isinstance(c, tuple):
        if c and isinstance(c[0], str) and c[0][:1].isupper() and c[0] not in ('list', 'dict'):
            acc.add(c[0])
        for y in c[1:]:
            node_kinds(y, acc)
    return acc


def statements(ast):
    """children of Start that are not comments"""
    from vtlengine.AST import Comment
    return [c for c in ast.children if not isinstance(c, Comment)]


# ------------------------------------------------------------------ Lean Pretty protocol
def enc(s):
    return urllib.parse.quote(str(s), safe='') or '%00'


SYM_OF_TOKEN = {'PLUS': 'PLUS', 'MINUS': 'MINUS', 'NOT': 'NOT', 'MUL': 'MUL', 'DIV': 'DIV', 'CONCAT': 'CONCAT',
                'EQ': 'EQ', 'NEQ': 'NEQ', 'LT': 'LT', 'LE': 'LE', 'MT': 'MT', 'ME': 'ME', 'AND': 'AND', 'OR': 'OR',
                'XOR': 'XOR', 'IN': 'IN', 'NOT_IN': 'NOT_IN'}
PUNCT = {'LPAREN': '(', 'RPAREN': ')', 'QLPAREN': '[', 'QRPAREN': ']', 'GLPAREN': '{', 'GRPAREN': '}', 'COMMA': ',',
         'MEMBERSHIP': '#', 'ASSIGN': ':='}
LITS = ('INTEGER_CONSTANT', 'NUMBER_CONSTANT', 'BOOLEAN_CONSTANT', 'STRING_CONSTANT', 'NULL_CONSTANT')
OP_TEXT = {'PLUS': '+', 'MINUS': '-', 'NOT': 'not', 'MUL': '*', 'DIV': '/', 'CONCAT': '||', 'EQ': '=', 'NEQ': '<>',
           'LT': '<', 'LE': '<=', 'MT': '>', 'ME': '>=', 'AND': 'and', 'OR': 'or', 'XOR': 'xor', 'IN': 'in',
           'NOT_IN': 'not_in'}
TEXT_OP = {v: k for k, v in OP_TEXT.items()}


def model_tokens(text):
    """lex `text` with the stand-in lexer and map to the token alphabet of lean/Drivers/Text.lean"""
    import vtlstub
    toks, _comments, err = vtlstub.lex(text)
    if err is not None:
        return None
    out, prev = [], None
    for t in toks:
        if t.name == 'EOF':
            break
        if t.name in PUNCT:
            out.append(PUNCT[t.name])
        elif t.name in LITS:
            out.append('lit:' + enc(t.text))
        elif prev == 'QLPAREN':
            out.append('kw:' + enc(t.text))
        elif t.name in SYM_OF_TOKEN:
            out.append('op:' + SYM_OF_TOKEN[t.name])
        else:
            out.append('id:' + enc(t.text))
        prev = t.name
    return out

"""C24 — prettify preserves meaning and is idempotent, keeps comments.

  1. translator: alternatives of `expr` / `exprComponent` of Vtl.g4 -> Gen/ExprGrammar.lean
  2. proof: lake build VtlModel.Props.C24 (+ axiom audit)
  3. correspondence (K):
     A  Lean `render` vs the real ASTString (plain and pretty) as token streams, on generated trees
        (normal-form and arbitrary) of the fragment and on every corpus expression inside the fragment;
     B  Lean `parse` vs the real ASTConstructor on top of the stand-in parser on the same texts;
     L  Lean `_handle_literal` model vs the real function (c24_literal.py);
     S  the property itself on every parseable corpus script and on generated scripts, through the real
        prettify/create_ast/run: output parses; AST equal modulo positions; prettify∘prettify = prettify;
        comment multiset kept; run() results equal (scripts with data, sampled).
  4. every failure is classified by site + construct: genuine defects are violations (known ones are listed in
     known_findings.d/C24.json), stand-in-parser limits are counted and excluded.
"""
import collections
import json
import multiprocessing as mp
import os
import re
import sys
import time
import traceback

HERE = os.path.dirname(os.path.abspath(__file__))
sys.path.insert(0, os.path.join(HERE, '..'))
sys.path.insert(0, HERE)
sys.path.insert(0, os.path.join(HERE, '..', 'translate'))
import vlib
import text_common as tc
import c24_gen as G

SCRIPT_BUDGET = 25     # seconds per script in a worker (the stand-in parser is slow on very large scripts)
DEFAULTS = {  # explicit default keyword == omitted keyword (Interpreter and transpiler read None as the default)
    ('HROperation', 'validation_mode'): ('enum', 'ValidationMode', 'NON_NULL'),
    ('DPValidation', 'output'): ('enum', 'ValidationOutput', 'INVALID'),
}


def _init():
    import eng  # noqa: F401


# ------------------------------------------------------------------ normalisation of benign differences
_FTS_ALL = ('list', ('ParamConstant', ('type_', ('str', 'PARAM_TIMESERIES')), ('value', ('str', 'all'))))


def _norm_fts(c):
    out = [c[0]]
    for k, v in c[1:]:
        out.append((k, ('list',) if (k == 'params' and v == _FTS_ALL) else normalise(v)))
    return tuple(out)


def normalise(c):
    """canon() value -> same with `None` for explicit default modes of check_hierarchy/hierarchy/check_datapoint"""
    if not isinstance(c, tuple):
        return c
    if c and c[0] in ('HROperation', 'DPValidation'):
        fields = dict(x for x in c[1:] if isinstance(x, tuple) and len(x) == 2)
        op = fields.get('op', ('str', 'check_datapoint'))[1]
        out = [c[0]]
        for x in c[1:]:
            k, v = x
            dflt = None
            if k == 'validation_mode': dflt = ('enum', 'ValidationMode', 'NON_NULL')
            if k == 'input_mode': dflt = ('enum', 'CHInputMode', 'DATASET') if op == 'check_hierarchy' else ('enum', 'HRInputMode', 'RULE')
            if k == 'output': dflt = ('enum', 'ValidationOutput', 'INVALID') if op != 'hierarchy' else ('enum', 'HierarchyOutput', 'COMPUTED')
            if dflt is not None and v == dflt:
                v = ('NoneType', None)
            out.append((k, normalise(v)))
        return tuple(out)
    if c and c[0] == 'ParamOp' and ('op', ('str', 'fill_time_series')) in c:
        # `fill_time_series(x)` == `fill_time_series(x, all)` (Interpreter: mode = … if len(params) == 1 else "all")
        return _norm_fts(c)
    if c and c[0] == 'ParamOp' and ('op', ('str', 'having')) in c:
        # the constructor stores the SOURCE TEXT of a having clause in an extra attribute `expr` (used in messages only):
        # it echoes spelling (`0.70` vs `0.7`, blanks), not structure
        return tuple([c[0]] + [(k, normalise(v)) for k, v in c[1:] if k != 'expr'])
    if c and c[0] == 'HRuleset':
        # create_ast() topologically sorts the rules of a hierarchical ruleset (DAG.sort_hr_rules); any such
        # order denotes the same ruleset, so rules are compared as a multiset
        out = [c[0]]
        for k, v in c[1:]:
            if k == 'rules' and isinstance(v, tuple) and v and v[0] == 'list':
                v = ('list',) + tuple(sorted((normalise(x) for x in v[1:]), key=repr))
            else:
                v = normalise(v)
            out.append((k, v))
        return tuple(out)
    return tuple(normalise(x) for x in c)


# ------------------------------------------------------------------ the property on one script (worker side)
def _site(exc):
    """innermost frame inside vtlengine of the active exception -> 'file:function'"""
    tb = traceback.extract_tb(exc.__traceback__)
    for fr in reversed(tb):
        if '/vtlengine/' in fr.filename:
            return '%s:%s' % (os.path.basename(fr.filename).replace('.py', ''), fr.name)
    return 'unknown'


def eval_script(args):
    """-> dict(status=skip|ok|fail, fails=[...], ...). Never raises."""
    tag, txt, data = args
    import eng
    from vtlengine import prettify
    from vtlengine.API import create_ast
    import vtlstub
    r = {'tag': tag, 'fails': [], 'status': 'ok'}
    try:
        with tc.guard(SCRIPT_BUDGET):
            try:
                a0 = create_ast(txt)
            except Exception as e:  # noqa: BLE001  — not a valid script: outside the property's domain
                r['status'] = 'skip'; r['why'] = 'orig:' + type(e).__name__
                return r
            stm0 = tc.statements(a0)
            c0 = normalise(tc.canon(stm0))
            r['kinds'] = sorted(tc.node_kinds(c0))
            r['nstmts'] = len(stm0)
            try:
                p1 = prettify(txt)
            except tc.Timeout:
                raise
            except Exception as e:  # noqa: BLE001
                r['fails'].append({'pred': 'prettify-raises', 'exc': type(e).__name__, 'site': _site(e), 'msg': str(e)[:160]})
                r['status'] = 'fail'
                return r
            r['p1'] = p1 if len(p1) < 4000 else None
            try:
                a1 = create_ast(p1)
            except tc.Timeout:
                raise
            except Exception as e:  # noqa: BLE001
                msg = str(e)
                r['fails'].append({'pred': 'output-unparseable', 'exc': type(e).__name__, 'msg': msg[:400]})
                r['status'] = 'fail'
                return r
            c1 = normalise(tc.canon(tc.statements(a1)))
            if c0 != c1:
                d = tc.first_diff(c0, c1)
                r['fails'].append({'pred': 'ast-differs', 'path': d[0], 'a': d[1], 'b': d[2]})
            try:
                p2 = prettify(p1)
                if p2 != p1:
                    import difflib
                    r['fails'].append({'pred': 'not-idempotent',
                                       'reorder_only': sorted(l.rstrip(';') for l in p1.split('\n') if l.strip()) == sorted(l.rstrip(';') for l in p2.split('\n') if l.strip()),
                                       'has_hr': 'hierarchical ruleset' in p1,
                                       'diff': [l for l in difflib.unified_diff(p1.split('\n'), p2.split('\n'), lineterm='', n=0)][:10]})
            except tc.Timeout:
                raise
            except Exception as e:  # noqa: BLE001
                r['fails'].append({'pred': 'prettify-of-output-raises', 'exc': type(e).__name__, 'site': _site(e), 'msg': str(e)[:160]})
            # comment tokens of the source vs of the output (prettify took them from the same hidden channel)
            cm0 = sorted(c['text'].rstrip() for c in vtlstub.lex(txt + '\n')[1])
            cm1 = sorted(c['text'].rstrip() for c in vtlstub.lex(p1 + '\n')[1])
            r['ncomments'] = len(cm0)
            if cm0 != cm1:
                r['fails'].append({'pred': 'comments-differ', 'a': cm0[:6], 'b': cm1[:6]})
        if data is not None and not r['fails']:
            try:
                with tc.guard(120):
                    o0 = run_outcome(txt, data)
                    o1 = run_outcome(p1, data)
                r['run'] = o0[0]
                if not same_outcome(o0, o1):
                    r['fails'].append({'pred': 'run-differs', 'a': tc._short(o0, 300), 'b': tc._short(o1, 300)})
            except tc.Timeout:
                r['run'] = 'timeout (not compared)'
        if r['fails']:
            r['status'] = 'fail'
    except tc.Timeout:
        r['status'] = 'skip'; r['why'] = 'stub_limit:timeout'; r['fails'] = []
    except RecursionError:
        r['status'] = 'skip'; r['why'] = 'stub_limit:recursion'; r['fails'] = []
    return r


def run_outcome(script, data):
    import eng
    from vtlengine import run
    o = eng.outcome(run, script=script, data_structures=data['structures'], datapoints=data['datapoints'],
                    return_only_persistent=False)
    if o[0] == 'raw' and ('Timeout' in o[1] or 'interrupted' in str(o[2]).lower()):
        raise tc.Timeout()      # the wall-clock guard fired inside DuckDB / the engine: not an outcome
    if o[0] != 'ok':
        return o[:3]
    res = {}
    for k, v in o[1].items():
        if hasattr(v, 'components'):
            res[k] = eng.canon_dataset(v)[:2]
        else:
            res[k] = ('scalar', eng.canon_value(getattr(v, 'value', None)))
    return ('ok', res)


def same_outcome(a, b):
    import eng
    if a[0] != b[0]:
        return False
    if a[0] != 'ok':
        return a[1:3] == b[1:3]
    if set(a[1]) != set(b[1]):
        return False
    for k in a[1]:
        x, y = a[1][k], b[1][k]
        if x[0] == 'scalar' or y[0] == 'scalar':
            if x[0] != y[0] or not eng.num_eq(x[1], y[1]): return False
            continue
        if x[0] != y[0]: return False
        if (x[1] is None) != (y[1] is None): return False
        if x[1] is not None:
            if len(x[1]) != len(y[1]): return False
            for r1, r2 in zip(x[1], y[1]):
                if len(r1) != len(r2) or not all(eng.num_eq(u, v) for u, v in zip(r1, r2)): return False
    return True


def corpus_data(path):
    """inputs of a corpus script by the tests' naming convention, or None"""
    d = os.path.dirname(os.path.dirname(path))
    code = os.path.basename(path)[:-4]
    import glob
    js = sorted(glob.glob(os.path.join(d, 'DataStructure', 'input', code + '-*.json')))
    if not js:
        return None
    dps = {}
    for j in js:
        try:
            st = json.load(open(j))
        except Exception:  # noqa: BLE001
            return None
        csv = os.path.join(d, 'DataSet', 'input', os.path.basename(j)[:-5] + '.csv')
        for ds in st.get('datasets', []):
            if os.path.exists(csv):
                dps[ds['name']] = csv
    if not dps:
        return None
    from pathlib import Path
    return {'structures': [Path(j) for j in js], 'datapoints': {k: Path(v) for k, v in dps.items()}}


# ------------------------------------------------------------------ classification (main process)
def classify(f, txt='', p1=None):
    """failure record -> (key, what, genuine)"""
    p = f['pred']
    EXP = r'(?<![A-Za-z_\'"])\d+(\.\d+)?e[+-]\d\d'
    if p in ('output-unparseable', 'ast-differs', 'not-idempotent') and p1 and re.search(EXP, p1) and not re.search(EXP, txt):
        return ('ASTString:_handle_literal:exponent notation emitted (:g, >=1e6)',
                'a Number literal >= 1e6 is printed in exponent notation (e.g. 1.23457e+06), which VTL lexes as identifier + number', True)
    if p in ('output-unparseable', 'ast-differs') and p1:
        bare1, bare0 = re.sub(r'"[^"]*"', '""', p1), re.sub(r'"[^"]*"', '""', txt)
        m = re.search(r'(?<![A-Za-z_.\d])(\d+)\.(?![\d])', bare1)
        if m and not re.search(r'(?<![A-Za-z_.\d])(\d+)\.(?![\d])', bare0):
            if m.group(1) == '0':
                return ("ASTString:_handle_literal:tiny float renders as '0.' (not a token)",
                        'prettify output does not parse: a small Number literal is printed as `0.`', True)
            return ("ASTString:_handle_literal:renders as 'N.' with a dangling '.' (not a token)",
                    'prettify output does not parse: a Number literal is printed as `N.` (all fractional digits stripped)', True)
    if p == 'not-idempotent' and f.get('has_hr') and f.get('reorder_only'):
        return ('DAG:sort_hr_rules:rule order not stable, prettify(prettify(s)) reorders the rules of a hierarchical ruleset again',
                'prettify is not idempotent on a hierarchical ruleset: the topological rule order printed by the first pass is changed by the second', True)
    if p in ('prettify-raises', 'prettify-of-output-raises'):
        site, exc = f.get('site', '?'), f['exc']
        if site.endswith('_handle_literal') and exc == 'IndexError':
            return ("ASTString:_handle_literal:float without '.' in str() raises IndexError",
                    'prettify raises IndexError on a Number literal whose str() has no "."', True)
        if site.endswith('visit_Argument') and exc == 'AttributeError':
            return ('ASTString:visit_Argument:parameter of type scalar raises AttributeError',
                    "prettify raises AttributeError ('Scalar' object has no attribute '__name__') on `define operator f (p scalar …)`", True)
        return ('prettify raises %s at %s' % (exc, site), 'prettify raises %s: %s' % (exc, f.get('msg', '')), True)
    if p == 'output-unparseable':
        m = f['msg']
        tok = re.search(r"mismatched input '([^']*)'", m)
        line = m.split('\n')[1].strip() if '\n' in m else ''
        if tok and re.search(r'\[rename\b', line) or (tok and tok.group(1) in G.RESERVED and 'rename' in line):
            return ('ASTString:visit_RenameNode:reserved-word component name printed without quotes',
                    'prettify output does not parse: `[rename \'errorlevel\' to x]` is printed as `[rename errorlevel to x]`', True)
        if tok and tok.group(1) == 'time_agg' or 'time_agg(' in line and 'group' in line:
            return ('ASTString:_handle_grouping_having:time_agg of a group-by clause joined with a comma',
                    'prettify output does not parse: `group by Id_1 time_agg("A")` is printed as `group by Id_1, time_agg("A")`', True)
        if p1 and re.search(r'\d(\.\d+)?e[+-]\d\d', p1) and tok and tok.group(1).startswith('e'):
            return ('ASTString:_handle_literal:exponent notation emitted (:g, >=1e6)',
                    'prettify output does not parse: a Number literal >= 1e6 is printed in exponent notation (e.g. 1.23457e+06)', True)
        qn = quoted_names_needing_quotes(txt)
        if qn and tok and any(tok.group(1) in q.split() or q.startswith(tok.group(1)) or tok.group(1) in q for q in qn):
            return ('ASTString:visit_VarID/_format_reserved_word:quoted identifier that is not a regular identifier printed without quotes',
                    "prettify output does not parse: a name that needs quotes (e.g. 'DS 4', '1x') is printed bare", True)
        return ('prettify output unparseable near %r' % (tok.group(1) if tok else line[:30]), 'prettify output does not parse: ' + m[:200], True)
    if p == 'ast-differs':
        path, a, b = f['path'], f['a'], f['b']
        tail = path.rsplit('/', 2)[-2:] if path.count('/') >= 2 else [path]
        leaf = '/'.join(tail)
        if 'Constant.type_' in path and 'FLOAT_CONSTANT' in a and 'INTEGER_CONSTANT' in b:
            return ('ASTString:_handle_literal:integral float rendered without fraction (Number literal becomes Integer)',
                    'a Number literal such as 5.0 is printed as 5 and re-parses as an Integer literal', True)
        if 'Constant.value/float' in path or ('Constant.value' in path and "'float'" in (a + b)):
            return lit_class(a, b)
        if 'Constant.value' in path and a.startswith("'") and b.startswith("'"):
            return ('ASTString(pretty):string literal altered by text replace (" and "/" or " in filter, parentheses in define operator)',
                    'prettify changes the VALUE of a string literal: %s -> %s' % (a[:60], b[:60]), True)
        if path.endswith('isLast/bool[0]') or '.isLast' in path:
            return ('ASTString:visit_RegularAggregation:aggr in join body printed after the join',
                    '`inner_join(a, b aggr …)` is printed as `inner_join(a, b)[aggr …]` (clause moved out of the join body)', True)
        hr_cond = re.search(r'define\s+hierarchical\s+ruleset(?:(?!end\s+hierarchical).)*?(?:=|>=|<=|>|<|\+|-)\s*\w+\s*\[', txt or '', re.S)
        if '_right_condition' in path or '_right_condition' in a + b or ('HRuleset.rules' in path and hr_cond):
            # (rules are compared as a multiset ordered by their rendering: a rule that lost its code-item condition sorts
            # elsewhere, so the first difference may be reported on a neighbouring field of the ruleset)
            return ('ASTString:visit_DefIdentifier:condition of a code item in a hierarchical rule dropped',
                    '`A = B[Id_2 = "y"] + C` is printed as `A = B + C`: the rightCondition of the code item is lost', True)
        if 'EnumeratedVpClause.values' in path and 'None' in a + b:
            return ('ASTString:visit_ViralPropagationDef:null condition printed as "None"',
                    '`when null then …` of a viral propagation is printed as `when "None" then …`', True)
        return ('prettify changes the AST at %s' % re.sub(r'\[\d+\]', '[]', leaf), 'AST differs at %s: %s -> %s' % (path[-120:], a[:80], b[:80]), True)
    if p == 'not-idempotent':
        return ('prettify not idempotent', 'prettify(prettify(s)) != prettify(s): %s' % ' | '.join(f['diff'][:4])[:300], True)
    if p == 'comments-differ':
        return ('prettify loses or changes comments', 'comment multiset differs: %s vs %s' % (f['a'], f['b']), True)
    if p == 'run-differs':
        return ('run() of prettified script differs', 'run differs: %s vs %s' % (f['a'][:150], f['b'][:150]), True)
    return ('unclassified ' + p, str(f)[:200], True)


def quoted_names_needing_quotes(txt):
    out = []
    for m in re.finditer(r"'((?:\\'|[^'])*)'", re.sub(r'"[^"]*"', '""', txt)):
        q = m.group(1)
        if not re.fullmatch(r'[A-Za-z][A-Za-z0-9_.]*', q) and q not in G.RESERVED:
            out.append(q)
    return out


def lit_class(a, b):
    sa = a.strip("'\"")
    frac = sa.split('.')[1] if '.' in sa and 'e' not in sa else ''
    if len(frac) > 6 or 'e-' in sa:
        return ('ASTString:_handle_literal:>6 fractional digits rounded by :f',
                'a Number literal changes value (rounded to 6 decimals): %s -> %s' % (a, b), True)
    return ('ASTString:_handle_literal:>6 significant digits rounded by :g',
            'a Number literal changes value (rounded to 6 significant digits): %s -> %s' % (a, b), True)


# ------------------------------------------------------------------ ties A / B with the Lean model
def render_real(tree_or_ast, pretty, is_tree=True):
    import eng  # noqa: F401
    from vtlengine.AST.ASTString import ASTString
    node = G.to_ast(tree_or_ast) if is_tree else tree_or_ast
    return ASTString(pretty=pretty).render(node)


def tie_trees(ck, n_trees):
    """A: render on generated trees (NF and arbitrary); B: parse of the printed text by the real front end"""
    import eng  # noqa: F401
    from vtlengine.API import create_ast
    trees = []
    for i in range(n_trees):
        nf = ck.rng.random() < 0.7
        trees.append((nf, G.gen_tree(ck.rng, ck.rng.randint(1, 5), 'ds', nf)))
    reqs = []
    for nf, t in trees:
        w = ' '.join(G.to_prefix(t))
        reqs += ['render ' + w, 'reparse ' + w]
    ans = ck.driver('Text', reqs)
    bad = []
    stats = collections.Counter()
    for i, (nf, t) in enumerate(trees):
        lean_tokens, rep = ans[2 * i], ans[2 * i + 1]
        m = re.match(r'nf=(\w+) same=(\w+) (.*)', rep)
        lean_nf, lean_same, lean_tree = m.group(1) == 'true', m.group(2) == 'true', m.group(3)
        shape = t[0] + str(min(depth(t), 6))
        ck.count(('A', shape, nf, lean_nf))
        stats['nf' if lean_nf else 'non-nf'] += 1
        if nf and not lean_nf:
            bad.append(('generator-nf-vs-model-nf', t, None)); continue
        if lean_nf and not lean_same:
            bad.append(('parse_render-fails-on-driver', t, rep)); continue
        for pretty in (False, True):
            try:
                txt = render_real(t, pretty)
            except Exception as e:  # noqa: BLE001
                bad.append(('ASTString raises ' + type(e).__name__, t, str(e)[:100])); break
            toks = tc.model_tokens(txt)
            if toks is None or ' '.join(toks) != lean_tokens:
                bad.append(('render', t, {'pretty': pretty, 'real': txt, 'real_tokens': toks, 'lean': lean_tokens})); break
        else:
            # B: the real front end on the printed text
            txt = render_real(t, False)
            try:
                with tc.guard(20):
                    a = create_ast('r := ' + txt + ';').children[0].right
                real = G.from_ast(a)
            except G.OutOfFragment:
                stats['B-out-of-fragment'] += 1; continue
            except tc.Timeout:
                stats['B-timeout'] += 1; continue
            except Exception as e:  # noqa: BLE001
                bad.append(('front-end raises ' + type(e).__name__, t, txt)); continue
            lean = G.prefix_consts_to_valkeys(lean_tree.split(' ')) if lean_tree != 'none' else None
            ck.count(('B', shape, lean_nf))
            stats['B'] += 1
            if lean != real:
                bad.append(('parse', t, {'text': txt, 'real': real, 'lean': lean}))
    return bad, stats


def depth(t):
    if not isinstance(t, tuple): return 0
    return 1 + max([depth(x) for x in t[1:] if isinstance(x, tuple)] + [max([depth(y) for y in x] + [0]) for x in t[1:] if isinstance(x, list)] + [0])


def corpus_expr_worker(path):
    """every assignment RHS of a corpus script that lies inside the fragment -> (text tokens, model words)"""
    import eng  # noqa: F401
    import vtlstub
    from vtlengine.API import create_ast
    from vtlengine.AST import Assignment
    from vtlengine.AST.ASTString import ASTString
    out = []
    try:
        txt = open(path, encoding='utf-8-sig', errors='replace').read()
        if len(txt) > 20000:
            return out
        with tc.guard(15):
            ast = create_ast(txt)
        for ch in ast.children:
            if not isinstance(ch, Assignment):
                continue
            try:
                words = G.from_ast(ch.right)
            except G.OutOfFragment:
                continue
            except Exception:  # noqa: BLE001
                continue
            plain = ASTString().render(ch.right)
            pretty = ASTString(pretty=True).render(ch.right)
            out.append((path, words, tc.model_tokens(plain), tc.model_tokens(pretty), plain))
            if len(out) >= 6:
                break
    except Exception:  # noqa: BLE001
        pass
    return out


def tie_corpus_exprs(ck, files, pool):
    """A+B on corpus expressions: Lean parse of the real token stream gives the real tree; tree is NF"""
    import urllib.parse
    rows = [x for sub in pool.map(corpus_expr_worker, files, chunksize=8) for x in sub]
    reqs, keep = [], []
    for path, words, t_plain, t_pretty, plain in rows:
        if t_plain is None or t_pretty is None:
            continue
        reqs.append('parse ' + ' '.join(t_plain)); keep.append((path, words, t_plain, t_pretty, plain))
    if not reqs:
        return [], 0
    ans = ck.driver('Text', reqs)
    bad = []
    for (path, words, t_plain, t_pretty, plain), a in zip(keep, ans):
        ck.count(('corpus-expr', words[0], len(words) // 8))
        if t_plain != t_pretty:
            # pretty mode may only add layout
            bad.append(('pretty-tokens-differ', path, {'plain': t_plain[:40], 'pretty': t_pretty[:40]})); continue
        if a == 'none':
            bad.append(('lean-parse-rejects-real-text', path, plain)); continue
        try:
            lean = G.prefix_consts_to_valkeys(a.split(' '))
        except Exception as e:  # noqa: BLE001
            bad.append(('lean-answer-unreadable', path, a[:200])); continue
        if lean != words:
            bad.append(('parse', path, {'text': plain, 'real': words, 'lean': lean}))
    return bad, len(keep)


# ------------------------------------------------------------------ main
def main(ck):
    import expr_grammar
    t0 = time.time()
    try:
        lean_txt, rules = expr_grammar.generate(vlib.REPO)
        ck.gen('ExprGrammar', lean_txt)
        shape_err = None
    except vlib.ShapeError as e:
        shape_err = str(e)
    pr = ck.proof('C24')
    proof_ok = pr['ok'] and shape_err is None

    import eng  # noqa: F401  (boots the real engine under the stand-in parser)
    quick = ck.quick()
    model_bad = []

    # ---- A / B on generated trees
    bad, stats = tie_trees(ck, 300 if quick else 1500)
    model_bad += bad
    ck.note('tie_trees', dict(stats))

    files = tc.corpus_files(vlib.REPO)
    if quick:
        small = [f for f in files if os.path.getsize(f) < 6000]
        files_s = ck.rng.sample(small, min(160, len(small)))
    else:
        files_s = files
    with mp.Pool(14, initializer=_init) as pool:
        # ---- A / B on corpus expressions
        bad, n_expr = tie_corpus_exprs(ck, files_s, pool)
        model_bad += bad
        ck.note('corpus_expressions_in_fragment', n_expr)

        # ---- L literals
        try:
            import c24_literal
            c24_literal.check_literals(ck, eng)
            ck.note('literal_tie', 'c24_literal.check_literals ran')
        except ImportError:
            ck.note('literal_tie', 'c24_literal module absent')

        # ---- S the property on scripts
        jobs = []
        n_data = 0
        data_budget = 40 if quick else 700
        for p in files_s:
            try:
                txt = open(p, encoding='utf-8-sig', errors='replace').read()
            except Exception:  # noqa: BLE001
                continue
            data = None
            if n_data < data_budget and len(txt) < 6000:
                data = corpus_data(p)
                if data is not None: n_data += 1
            jobs.append(('corpus:' + os.path.relpath(p, vlib.REPO), txt, data))
        n_gen = 260 if quick else 2500
        for i in range(n_gen):
            jobs.append(('gen:%d' % i, G.script(ck.rng), None))
        for s in REGRESSION:
            jobs.append(('regression', s, None))
        results = pool.map(eval_script, jobs, chunksize=4)

    texts = {j[0] if j[0] != 'regression' else 'regression:' + str(i): j[1] for i, j in enumerate(jobs)}
    hist = collections.Counter()
    skip = collections.Counter()
    kinds = collections.Counter()
    runs = collections.Counter()
    for i, (job, r) in enumerate(zip(jobs, results)):
        tag, txt = job[0], job[1]
        fam = tag.split(':')[0]
        if r['status'] == 'skip':
            skip[fam + ':' + r['why']] += 1
            continue
        hist[fam + ':' + r['status']] += 1
        for k in r.get('kinds', []): kinds[k] += 1
        if 'run' in r: runs[r['run']] += 1
        ck.count((fam, tuple(r.get('kinds', [])), r.get('nstmts'), r['status'], r.get('ncomments', 0) > 0))
        if r['status'] == 'ok' and fam == 'corpus':
            ck.sample({'script': tag, 'statements': r.get('nstmts'), 'comments': r.get('ncomments'), 'run_compared': 'run' in r}, cap=4)
        for f in r['fails'][:1]:       # the first failed predicate is the root cause; later ones follow from it
            key, what, genuine = classify(f, txt, r.get('p1'))
            ck.violation(key, {'script': txt if len(txt) < 20000 else tag, 'source': tag, 'failure': f,
                               'prettified': r.get('p1'), 'how': 'vtlengine.prettify(script) under harness/eng.py'}, what)
    ck.note('scripts', dict(hist))
    ck.note('skipped', dict(skip))
    ck.note('node_kinds_seen', dict(kinds.most_common(60)))
    ck.note('run_compared', dict(runs))
    ck.cov['traces_validated_against_impl'] = sum(v for k, v in hist.items())

    # ---- model vs implementation disagreements: search for a property failure, else unproved
    for kind, where, detail in model_bad[:20]:
        found = False
        if kind == 'render' and isinstance(where, tuple):
            # does the real ASTString text of this tree break the property? (only meaningful for NF trees)
            txt = 'r := ' + detail['real'] + ';'
            r = eval_script(('search', txt, None))
            for f in r['fails']:
                key, what, _ = classify(f, txt)
                ck.violation(key, {'script': txt, 'failure': f, 'tree': where}, what); found = True
        if not found:
            ck.unproved('pretty_model_correspondence:' + kind, 'Lean model and real code disagree (%s)' % kind,
                        {'where': where, 'detail': detail})
    if not proof_ok:
        why = shape_err or ('; '.join(pr['failed'] + pr['forbidden'] + pr['bad_axioms']) or 'build failed')
        # the corpus + generated scripts above ARE the failing-input search for the property
        ck.note('proof_broken', why)
        if not any(not v[3] for v in ck.viol):      # no concrete failing input was found above
            ck.unproved('C24 proof', 'Props/C24.lean no longer checks: ' + why, pr['log'][-1500:])

    ck.trusted('translator harness/translate/expr_grammar.py (transcribes the alternatives of expr/exprComponent)',
               'stand-in parser harness/vtlstub for every textual entry point (prettify, create_ast)',
               'harness canonicaliser text_common.canon (positions dropped; explicit default modes == omitted)',
               'for Number literals: the assumption that repr(float(text)) is the canonical decimal for <= 15 significant digits (checked against Python on every generated literal)')
    ck.assumptions.append('the Lean theorems cover the expression fragment (constants, ids, prefix/infix operators, parentheses, calls, #, in/not_in, clause application, calc items); '
                          'definitions (rulesets, operators, viral propagation), joins, aggregations, analytic calls, if/case, comment placement and layout are covered by the correspondence on corpus and generated scripts only')
    ck.assumptions.append('scripts on which the stand-in parser exceeds its time budget are excluded and counted under `skipped`')
    ck.note('wall_parts', {'total': round(time.time() - t0, 1)})


REGRESSION = [
    'a := b * 1234567.0;', 'a := b * 5.0;', 'a := b + 123.4567;', 'a := b + 0.00001;', 'a := b + 0.00000015;',
    'a := b + 0.123456789;', 'a := b + 100000000000000000000.0;', 'a := b[filter c = "x and y"];',
    'define operator f (x string) returns boolean is x = "(a)" end operator;',
    'define operator f (x dataset, y scalar) returns dataset is x + y end operator;',
    "DS_r := DS_1[rename 'errorlevel' to level];",
    'define viral propagation ee (variable VAt_1) is when null then "Nullable"; else "NO" end viral propagation;',
    'DS_A <- DS_1[aggr Me_2 := sum(Me_1) group by Id_1 time_agg("A")];',
    'a := inner_join(d1, d2 aggr x := sum (y) group by z);',
    'a := b in {-1, 2.0, 3.5}; /* c1 */ // c2\n',
]


def replay(ck):
    d = json.load(open(ck.replay_path))
    rp = d.get('replay', {})
    txt = rp.get('script')
    if txt is None:
        print('replay file has no script (broken obligation: %s)' % d.get('no_longer_checks')); return
    if txt.startswith('corpus:'):
        txt = open(os.path.join(vlib.REPO, txt[7:]), encoding='utf-8-sig').read()
    r = eval_script(('replay', txt, None))
    print(json.dumps({k: v for k, v in r.items() if k != 'p1'}, indent=1, default=str))
    print('prettified:\n' + str(r.get('p1')))
    for f in r['fails']:
        key, what, _ = classify(f, txt)
        ck.violation(key, rp, what)


def entry(ck):
    if ck.replay_path:
        replay(ck)
    else:
        main(ck)


if __name__ == '__main__':
    vlib.run_check('C24', entry)

"""Generators of the `Input` group: value pools per basic type (each entry carries a *value class* used in
finding keys), one-cell tables, grouped valid tables, structural violations.  All randomness from the rng
handed in (ck.rng)."""
from __future__ import annotations

import calendar
import datetime

TYPES = ['Integer', 'Number', 'String', 'Boolean', 'Date', 'Time_Period', 'Time', 'Duration']


def _weeks(y):
    return datetime.date(y, 12, 28).isocalendar()[1]


def _year(rng, lo=1800, hi=9999):
    return rng.choice([rng.randint(1900, 2100), rng.randint(lo, hi), 2020, 2021, 2000, 1900])


def _year52(rng):
    while True:
        y = rng.randint(1801, 9998)
        if _weeks(y) == 52:
            return y


def _year53(rng):
    while True:
        y = rng.randint(1801, 9998)
        if _weeks(y) == 53:
            return y


def _common(rng):
    while True:
        y = rng.randint(1801, 9998)
        if not calendar.isleap(y):
            return y


def _leap(rng):
    while True:
        y = rng.randint(1801, 9998)
        if calendar.isleap(y):
            return y


def _date(rng, lo=1800, hi=9999):
    y = _year(rng, lo, hi)
    m = rng.randint(1, 12)
    d = rng.randint(1, calendar.monthrange(y, m)[1])
    return y, m, d


def _ds(y, m, d):
    return '%04d-%02d-%02d' % (y, m, d)


def _clock(rng):
    return '%02d:%02d:%02d' % (rng.randint(0, 23), rng.randint(0, 59), rng.randint(0, 59))


def pools(rng):
    """type -> list of (vclass, text).  One fresh sample per class per call."""
    P = {}
    n = rng.randint(-10 ** 6, 10 ** 6)
    big = rng.randint(2 ** 53 + 1, 10 ** 17) | 1   # odd, so never a double; at most 18 digits, so it has a native int64 presentation
    P['Integer'] = [
        ('plain', str(n)), ('plain', '0'), ('plain', str(rng.randint(-99, 99))), ('plus-sign', '+%d' % abs(n)),
        ('leading-zeros', '00%d' % abs(n)), ('padded', ' %d ' % n), ('exponent', '%de%d' % (rng.randint(1, 99), rng.randint(1, 5))),
        ('dot-zero', '%d.0' % n), ('trailing-dot', '%d.' % n), ('underscore', '%d_%03d' % (rng.randint(1, 99), rng.randint(0, 999))),
        ('gt-2^53', str(big)), ('gt-2^53', str(-big)), ('max-int64', '9223372036854775807'), ('min-int64', '-9223372036854775808'),
        ('fractional', '%d.%d' % (n, rng.randint(1, 9))), ('fractional', '3.5'), ('hex', '0x%X' % rng.randint(10, 255)),
        ('alpha', 'abc'), ('nan', 'NaN'), ('inf', rng.choice(['inf', '-inf', 'Infinity'])), ('empty', ''), ('blank', ' '),
        ('overflow', '9223372036854775808'), ('overflow', '1e19'), ('comma-decimal', '1,5'), ('minus-only', '-'),
        ('double-sign', '--5'), ('inner-space', '1 2'),
    ]
    f = round(rng.uniform(-10 ** 6, 10 ** 6), rng.randint(1, 6))
    P['Number'] = [
        ('plain', repr(f)), ('plain', '3.14'), ('plain', str(n)), ('plain', '0'), ('exponent', '%de%d' % (rng.randint(1, 99), rng.randint(-5, 5))),
        ('exponent-upper', '1E%d' % rng.randint(0, 9)), ('leading-dot', '.%d' % rng.randint(1, 999)), ('trailing-dot', '%d.' % abs(n)),
        ('padded', ' %r ' % f), ('plus-sign', '+%r' % abs(f)), ('underscore', '1_000.5'), ('negative-zero', '-0.0'),
        ('many-fraction-digits', '0.1234567890123456789'), ('tiny', '1e-%d' % rng.randint(20, 300)),
        ('max-magnitude', '999999999999999999.5'), ('huge>=1e18', '1e18'), ('huge>=1e18', '12345678901234567890123.5'), ('huge>=1e18', '1e400'),
        ('alpha', 'abc'), ('nan', 'NaN'), ('inf', rng.choice(['inf', '-inf'])), ('comma-decimal', '1,5'), ('hex', '0x10'),
        ('empty', ''), ('blank', ' '), ('two-dots', '1.2.3'), ('exp-no-digits', '1e'), ('dot-only', '.'),
    ]
    P['Boolean'] = [
        ('true', 'true'), ('false', 'false'), ('upper', rng.choice(['TRUE', 'FALSE'])), ('mixed-case', rng.choice(['True', 'False', 'tRuE'])),
        ('one', '1'), ('zero', '0'), ('yes-no', rng.choice(['yes', 'no'])), ('t-f', rng.choice(['t', 'f', 'T', 'F'])),
        ('y-n', rng.choice(['y', 'n'])), ('two', '2'), ('minus-one', '-1'), ('one-dot-zero', '1.0'), ('padded', ' true '),
        ('quoted', '"true"'), ('empty', ''), ('alpha', 'maybe'), ('on-off', rng.choice(['on', 'off'])),
    ]
    w = ''.join(rng.choice('abcdefgh XYZ0123-_') for _ in range(rng.randint(1, 8)))
    P['String'] = [
        ('plain', w.strip() or 'a'), ('plain', 'abc'), ('padded', ' ' + (w.strip() or 'a') + ' '), ('embedded-quote', 'a"b'), ('surrounding-quotes', '"q"'),
        ('comma', 'a,b'), ('newline', 'line\nbreak'), ('null-word', rng.choice(['NULL', 'null', 'NA', 'None', 'nan'])),
        ('empty', ''), ('unicode', 'é€ß' + rng.choice('üñø')), ('numeric-text', '007'), ('single-quote', "it's"),
        ('semicolon', 'a;b'), ('backslash', 'a\\b'),
    ]
    y, m, d = _date(rng, 1900, 2100)      # years with a native datetime64 presentation (harness limit 1700..2200)
    lp = rng.choice([1904, 1996, 2000, 2020, 2024, 2096])
    cm = _common(rng)
    P['Date'] = [
        ('date', _ds(y, m, d)), ('date', _ds(*_date(rng, 1900, 2100))), ('datetime-space', _ds(y, m, d) + ' ' + _clock(rng)),
        ('datetime-T', _ds(y, m, d) + 'T' + _clock(rng)), ('tz-Z', _ds(y, m, d) + 'T' + _clock(rng) + 'Z'),
        ('tz-offset', _ds(y, m, d) + 'T' + _clock(rng) + rng.choice(['+02:00', '-05:30', '+00:00'])),
        ('fraction', _ds(y, m, d) + 'T' + _clock(rng) + '.%d' % rng.randint(1, 999999)), ('fraction-9-digits', _ds(y, m, d) + 'T10:30:00.123456789'),
        ('midnight-time', _ds(y, m, d) + ' 00:00:00'), ('leap-day', _ds(lp, 2, 29)), ('min-year', '1800-01-01'), ('max-year', '9999-12-31'),
        ('day>days-in-month', _ds(y, 2, 30)), ('day>days-in-month', _ds(y, rng.choice([4, 6, 9, 11]), 31)), ('feb29-common-year', _ds(cm, 2, 29)),
        ('month-13', _ds(y, 13, 1)), ('month-00', _ds(y, 0, 10)), ('day-00', _ds(y, m, 0)), ('year<1800', _ds(rng.randint(1700, 1799), m, min(d, 28))),
        ('year<1800', '1799-12-31'), ('year<1000', '0001-01-01'), ('year>9999', '10000-01-01'),
        ('1-digit-month-and-day', '%d-%d-%d' % (y, rng.randint(1, 9), rng.randint(1, 9))), ('1-digit-day', '%d-%02d-%d' % (y, m, rng.randint(1, 9))),
        ('1-digit-month', '%d-%d-%02d' % (y, rng.randint(1, 9), min(d, 28))), ('partial-time-HH:MM', _ds(y, m, d) + 'T12:30'),
        ('partial-time-HH', _ds(y, m, d) + 'T12'), ('time-only', 'T12:30'), ('hour-25', _ds(y, m, d) + 'T25:00:00'), ('second-60', _ds(y, m, d) + 'T10:30:60'),
        ('minute-60', _ds(y, m, d) + 'T10:60:00'), ('bad-separator', _ds(y, m, d) + 'X10:30:00'), ('basic-format', '%04d%02d%02d' % (y, m, d)),
        ('slashes', '%04d/%02d/%02d' % (y, m, d)), ('day-month-year', '%02d-%02d-%04d' % (d, m, y)), ('padded', ' ' + _ds(y, m, d) + ' '),
        ('empty', ''), ('year-month', '%04d-%02d' % (y, m)), ('year-only', '%04d' % y), ('alpha', 'today'), ('trailing-text', _ds(y, m, d) + 'abc'),
    ]
    y = _year(rng)
    y52, y53 = _year52(rng), _year53(rng)
    mm, ww, dd = rng.randint(1, 12), rng.randint(1, 52), rng.randint(1, 365)
    P['Time_Period'] = [
        ('YYYY', '%04d' % y), ('YYYYA', '%04dA' % y), ('YYYY-A1', '%04d-A1' % y), ('YYYYSx', '%04dS%d' % (y, rng.randint(1, 2))),
        ('YYYY-Sx', '%04d-S%d' % (y, rng.randint(1, 2))), ('YYYYQx', '%04dQ%d' % (y, rng.randint(1, 4))), ('YYYY-Qx', '%04d-Q%d' % (y, rng.randint(1, 4))),
        ('YYYYMm', '%04dM%d' % (y, mm)), ('YYYYMmm', '%04dM%02d' % (y, mm)), ('YYYY-MM', '%04d-%02d' % (y, mm)), ('YYYY-M', '%04d-%d' % (y, rng.randint(1, 9))),
        ('YYYY-Mxx', '%04d-M%02d' % (y, mm)), ('YYYY-Mx', '%04d-M%d' % (y, rng.randint(1, 9))), ('YYYYWw', '%04dW%d' % (y, ww)), ('YYYYWww', '%04dW%02d' % (y, ww)),
        ('YYYY-Wxx', '%04d-W%02d' % (y, ww)), ('YYYY-Wx', '%04d-W%d' % (y, rng.randint(1, 9))), ('YYYYDd', '%04dD%d' % (y, dd)), ('YYYYDddd', '%04dD%03d' % (y, dd)),
        ('YYYYDdd', '%04dD%02d' % (y, rng.randint(1, 99))), ('YYYY-Dxxx', '%04d-D%03d' % (y, dd)), ('YYYY-Dx', '%04d-D%d' % (y, rng.randint(1, 9))),
        ('YYYY-MM-DD', _ds(*_date(rng))), ('week-53-of-53-week-year', '%04dW53' % y53), ('week-53-of-53-week-year', '%04d-W53' % y53),
        ('day-366-of-leap-year', '%04dD366' % _leap(rng)), ('month-12', '%04dM12' % y),
        ('month>12', '%04dM13' % y), ('month>12-iso', '%04d-13' % y), ('month>12-hyphen', '%04d-M13' % y), ('month>12', '%04dM%d' % (y, rng.randint(14, 99))),
        ('month-0', '%04dM0' % y), ('month-0', '%04dM00' % y), ('month-0-iso', '%04d-00' % y), ('week>53', '%04dW54' % y), ('week>53-hyphen', '%04d-W54' % y),
        ('week>53', '%04dW%d' % (y, rng.randint(55, 99))), ('week-53-of-52-week-year', '%04dW53' % y52), ('week-53-of-52-week-year-hyphen', '%04d-W53' % y52),
        ('week-0', '%04dW0' % y), ('week-0-hyphen', '%04d-W00' % y), ('day>366', '%04dD367' % y), ('day>366', '%04dD%d' % (y, rng.randint(368, 999))),
        ('day>366-hyphen', '%04d-D%d' % (y, rng.randint(367, 999))), ('day-366-of-common-year', '%04dD366' % _common(rng)),
        ('day-366-of-common-year-hyphen', '%04d-D366' % _common(rng)), ('day-0', '%04dD0' % y), ('day-0', '%04dD000' % y), ('day-0-hyphen', '%04d-D000' % y),
        ('semester-3', '%04dS3' % y), ('quarter-5', '%04dQ5' % y), ('quarter-0', '%04dQ0' % y), ('YYYYA1-compact', '%04dA1' % y), ('YYYY-A-no-number', '%04d-A' % y),
        ('lowercase-indicator', '%04d%s%d' % (y, rng.choice('mqs'), 1)), ('padded', ' %04dQ1 ' % y), ('empty', ''), ('invalid-date', '%04d-02-30' % y),
        ('1-digit-date', '%04d-1-1' % y), ('date-month-13', '%04d-13-01' % y), ('5-digit-year', '10000'), ('quarter-2-digits', '%04d-Q01' % y),
        ('indicator-without-number', '%04dQ' % y), ('2-digit-year', '20Q1'), ('doc-example-D-dash', '%04dD-1' % y), ('alpha', 'period'),
        ('month-3-digits', '%04dM001' % y), ('unknown-indicator', '%04dX1' % y), ('year<1000', '0999M1'), ('year<1000', '0001'),
    ]
    y1, m1, d1 = _date(rng, 1800, 9000)
    a = datetime.date(y1, m1, d1)
    b = a + datetime.timedelta(days=rng.randint(1, 400))
    A, B = a.isoformat(), b.isoformat()
    P['Time'] = [
        ('date/date', A + '/' + B), ('same-day', A + '/' + A), ('with-time', A + 'T' + '00:00:00' + '/' + B + 'T' + _clock(rng)),
        ('same-day-with-time', A + 'T08:00:00/' + A + 'T09:00:00'), ('YYYY', '%04d' % y1), ('YYYY-MM', '%04d-%02d' % (y1, m1)), ('year<1800', '1799-01-01/1800-01-01'),
        ('reversed', B + '/' + A), ('reversed-time-same-day', A + 'T10:00:00/' + A + 'T09:00:00'), ('invalid-day-start', '%04d-02-30/%04d-03-01' % (y1, y1)),
        ('invalid-day-end', A + '/%04d-02-30' % (a.year + 1)), ('month-13-end', A + '/%04d-13-01' % (a.year + 1)), ('single-date', A), ('open-end', A + '/'), ('open-start', '/' + A),
        ('1-digit-month-day', '%d-%d-%d/%s' % (a.year, a.month if a.month < 10 else 1, 1, (a + datetime.timedelta(days=800)).isoformat())),
        ('padded', ' ' + A + '/' + B + ' '), ('empty', ''), ('three-parts', A + '/' + B + '/' + B), ('spaces-around-slash', A + ' / ' + B),
        ('space-separated-time', A + ' 00:00:00/' + B + ' 00:00:00'), ('partial-time', A + 'T12:30/' + B + 'T12:30'),
        ('fraction', A + 'T00:00:00.5/' + B + 'T00:00:00.5'), ('hour-25', A + 'T25:00:00/' + B + 'T00:00:00'), ('period-text', '%04dQ1' % y1),
        ('YYYY-MM-month-13', '%04d-13' % y1), ('YYYY-M-1-digit', '%04d-%d' % (y1, rng.randint(1, 9))), ('YYYY-MM-month-00', '%04d-00' % y1), ('alpha', 'always'),
        ('mixed-time', A + '/' + B + 'T12:00:00'),
    ]
    P['Duration'] = [(c, c) for c in 'ASQMWD'] + [
        ('lowercase', rng.choice('asqmwd')), ('padded', ' ' + rng.choice('ASQMWD') + ' '), ('Y', 'Y'), ('iso-duration', rng.choice(['P1Y', 'P1M', 'P1D'])),
        ('two-letters', 'AA'), ('digit', '1'), ('empty', ''), ('H', 'H'), ('word', 'Month'),
    ]
    return P


def comp(name, typ, role, nullable=None):
    if nullable is None:
        nullable = role != 'Identifier'
    return {'name': name, 'type': typ, 'role': role, 'nullable': nullable}


ROLES = ['me', 'id', 'me-nn']


def one_cell(typ, text, role):
    """one row, one cell of interest. role: 'me' nullable measure, 'id' identifier, 'me-nn' non-nullable measure"""
    if role == 'id':
        struct = [comp('Id_1', typ, 'Identifier'), comp('Me_1', 'Integer', 'Measure')]
        return {'struct': struct, 'columns': ['Id_1', 'Me_1'], 'rows': [[text, '1']], 'focus': 0}
    struct = [comp('Id_1', 'Integer', 'Identifier'), comp('Me_1', typ, 'Measure', nullable=(role == 'me'))]
    return {'struct': struct, 'columns': ['Id_1', 'Me_1'], 'rows': [['1', text]], 'focus': 1}


def multi_row(typ, texts, role):
    if role == 'id':
        struct = [comp('Id_1', typ, 'Identifier'), comp('Me_1', 'Integer', 'Measure')]
        return {'struct': struct, 'columns': ['Id_1', 'Me_1'], 'rows': [[t, str(i)] for i, t in enumerate(texts)], 'focus': 0}
    struct = [comp('Id_1', 'Integer', 'Identifier'), comp('Me_1', typ, 'Measure', nullable=(role == 'me'))]
    return {'struct': struct, 'columns': ['Id_1', 'Me_1'], 'rows': [[str(i), t] for i, t in enumerate(texts)], 'focus': 1}


def valid_value(rng, typ, P=None):
    """a value the documentation clearly accepts (used to fill the other cells of structural cases)"""
    if typ == 'Integer':
        return str(rng.randint(-1000, 1000))
    if typ == 'Number':
        return repr(round(rng.uniform(-1000, 1000), 3))
    if typ == 'String':
        return ''.join(rng.choice('abcdefghij') for _ in range(rng.randint(1, 5)))
    if typ == 'Boolean':
        return rng.choice(['true', 'false'])
    if typ == 'Date':
        return _ds(*_date(rng, 1900, 2100))
    if typ == 'Time_Period':
        y = rng.randint(1900, 2100)
        return rng.choice(['%04d' % y, '%04dQ%d' % (y, rng.randint(1, 4)), '%04dM%d' % (y, rng.randint(1, 12)), '%04d-M%02d' % (y, rng.randint(1, 12)),
                           '%04dS%d' % (y, rng.randint(1, 2)), '%04dW%02d' % (y, rng.randint(1, 52)), '%04dD%03d' % (y, rng.randint(1, 365))])
    if typ == 'Time':
        a = datetime.date(*_date(rng, 1900, 2100))
        return a.isoformat() + '/' + (a + datetime.timedelta(days=rng.randint(0, 500))).isoformat()
    return rng.choice('ASQMWD')


# structural cases use types whose values behave alike in every loader, so that a structural key is about structure
STRUCT_TYPES = ['Integer', 'String', 'Number', 'Time_Period']


def random_structure(rng, n_ids=None, with_nn=False, types=None):
    n_ids = rng.randint(0, 3) if n_ids is None else n_ids
    comps = []
    idt = types or ['Integer', 'String', 'Date', 'Time_Period', 'Boolean', 'Duration', 'Time', 'Number']
    for i in range(n_ids):
        comps.append(comp('Id_%d' % (i + 1), rng.choice(idt[:rng.choice([2, 4, len(idt)])]), 'Identifier'))
    for i in range(rng.randint(1, 3)):
        comps.append(comp('Me_%d' % (i + 1), rng.choice(types or TYPES), 'Measure', nullable=not (with_nn and i == 0)))
    if rng.random() < 0.4:
        comps.append(comp('At_1', rng.choice(types or TYPES), 'Attribute', nullable=rng.random() < 0.7))
    return comps


def _same_key_respelled(rng, typ, text):
    """another spelling of the same value (duplicates must be found on denoted values)"""
    if typ == 'Integer':
        return rng.choice([text + '.0', ' ' + text, text + ' '])
    if typ == 'Time_Period' and 'Q' in text:
        return text.replace('Q', '-Q')
    if typ == 'Time_Period' and 'M' in text and '-' not in text:
        yy, mm = text.split('M')
        return '%s-%02d' % (yy, int(mm))
    if typ == 'Boolean':
        return {'true': rng.choice(['1', 'TRUE']), 'false': rng.choice(['0', 'False'])}[text]
    if typ == 'Date':
        return text + rng.choice(['', ' 00:00:00', 'T00:00:00'])
    return text



RESPELLED_PAIRS = {
    'Time_Period': [('2020M1', '2020-01'), ('2020Q1', '2020-Q1'), ('2020', '2020A'), ('2020D32', '2020-02-01'), ('2020M01', '2020M1'),
                    ('2020-M01', '2020M1'), ('2020W05', '2020-W05'), ('2020S1', '2020-S1')],
    'Integer': [('7', '07'), ('1', '1.0'), ('7', '+7'), ('7', ' 7')],
    'Number': [('1.5', '1.50'), ('1', '1.0'), ('100', '1e2'), ('0.5', '.5')],
    'Boolean': [('true', 'True'), ('true', 'TRUE'), ('false', 'False')],
    'Date': [('2020-01-01', '2020-01-01 00:00:00'), ('2020-01-01', '2020-01-01T00:00:00')],
}


def respelled_duplicate_cases():
    """one identifier of each type whose two rows spell the SAME value in two documented ways (plus an Integer
    identifier that is equal): duplicates are to be found on denoted values, in every input form"""
    out = []
    for typ, pairs in RESPELLED_PAIRS.items():
        for a, b in pairs:
            struct = [comp('Id_1', 'Integer', 'Identifier', False), comp('Id_2', typ, 'Identifier', False), comp('Me_1', 'Number', 'Measure', True)]
            out.append({'struct': struct, 'columns': [c['name'] for c in struct], 'rows': [['1', a, '1.5'], ['1', b, '2.5']],
                        'kind': 'duplicate-key-respelled:%s:%s~%s' % (typ, a, b)})
    return out


def structural_case(rng, kind):
    """A random well-formed table with one injected structural violation (or none for kind 'valid')."""
    n_ids = 0 if kind in ('no-ids-two-rows', 'no-ids-one-row', 'no-ids-zero-rows') else rng.randint(1, 3)
    struct = random_structure(rng, n_ids, with_nn=(kind in ('missing-non-nullable-column', 'null-in-non-nullable', 'missing-non-nullable-column-zero-rows')), types=STRUCT_TYPES)
    if kind in ('missing-nullable-column',):
        struct = [c for c in struct if c['role'] != 'Attribute'] + [comp('At_9', rng.choice(STRUCT_TYPES), 'Attribute', True)]
    ids = [c for c in struct if c['role'] == 'Identifier']
    nrows = {'no-ids-two-rows': rng.randint(2, 4), 'no-ids-one-row': 1, 'no-ids-zero-rows': 0, 'zero-rows': 0,
             'missing-non-nullable-column-zero-rows': 0}.get(kind, rng.randint(1, 5))
    rows, seen = [], set()
    tries = 0
    while len(rows) < nrows and tries < 200:
        tries += 1
        r = [valid_value(rng, c['type']) if (c['role'] == 'Identifier' or not c['nullable'] or rng.random() < 0.8) else None for c in struct]
        k = tuple(r[i] for i, c in enumerate(struct) if c['role'] == 'Identifier')
        if ids and k in seen:
            continue
        # identifiers of type Boolean / Duration have few values: fine, loop ends by tries
        seen.add(k); rows.append(r)
    cols = [c['name'] for c in struct]
    case = {'struct': struct, 'columns': cols, 'rows': rows, 'kind': kind}
    if kind == 'duplicate-key' and rows:
        src = rng.choice(rows)
        dup = list(src)
        for i, c in enumerate(struct):
            if c['role'] != 'Identifier' and rng.random() < 0.5:
                dup[i] = valid_value(rng, c['type'])
        rows.insert(rng.randint(0, len(rows)), dup)
    elif kind == 'duplicate-key-respelled' and rows:
        src = rng.choice(rows)
        dup = list(src)
        for i, c in enumerate(struct):
            if c['role'] == 'Identifier':
                dup[i] = _same_key_respelled(rng, c['type'], src[i])
        rows.append(dup)
    elif kind == 'null-identifier' and rows:
        i = rng.choice([i for i, c in enumerate(struct) if c['role'] == 'Identifier'])
        rng.choice(rows)[i] = None
    elif kind == 'null-in-non-nullable' and rows:
        i = [i for i, c in enumerate(struct) if c['role'] != 'Identifier' and not c['nullable']][0]
        rng.choice(rows)[i] = None
    elif kind == 'missing-identifier-column':
        i = rng.choice([i for i, c in enumerate(struct) if c['role'] == 'Identifier'])
        case['columns'] = cols[:i] + cols[i + 1:]
        case['rows'] = [r[:i] + r[i + 1:] for r in rows]
    elif kind in ('missing-non-nullable-column', 'missing-non-nullable-column-zero-rows'):
        i = [i for i, c in enumerate(struct) if c['role'] != 'Identifier' and not c['nullable']][0]
        case['columns'] = cols[:i] + cols[i + 1:]
        case['rows'] = [r[:i] + r[i + 1:] for r in rows]
    elif kind == 'missing-nullable-column':
        i = len(struct) - 1
        case['columns'] = cols[:i]
        case['rows'] = [r[:i] for r in rows]
    elif kind == 'extra-column':
        case['columns'] = cols + ['Zz_extra']
        case['rows'] = [r + [rng.choice(['x', None, '1'])] for r in rows]
    elif kind == 'reordered-columns':
        perm = list(range(len(cols)))
        rng.shuffle(perm)
        case['columns'] = [cols[i] for i in perm]
        case['rows'] = [[r[i] for i in perm] for r in rows]
    elif kind == 'permuted-rows':
        rng.shuffle(rows)
    elif kind == 'bad-value' and rows:
        P = pools(rng)
        i = rng.randrange(len(struct))
        bad = {'Integer': '3.5x', 'Number': 'abc', 'String': None, 'Boolean': 'maybe', 'Date': '2020-02-31', 'Time_Period': '2020Q9',
               'Time': '2020-01-01', 'Duration': 'ZZ'}[struct[i]['type']]
        if bad is not None:
            rng.choice(rows)[i] = bad
    return case


STRUCT_KINDS = ['valid', 'valid', 'duplicate-key', 'duplicate-key-respelled', 'null-identifier', 'null-in-non-nullable', 'missing-identifier-column',
                'missing-non-nullable-column', 'missing-non-nullable-column-zero-rows', 'missing-nullable-column', 'extra-column', 'reordered-columns',
                'permuted-rows', 'no-ids-two-rows', 'no-ids-one-row', 'no-ids-zero-rows', 'zero-rows', 'bad-value']

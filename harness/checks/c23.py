#!/venv/bin/python
"""C23 — parser robustness (PARTIAL).     ./check C23 --tier quick|thorough [--replay path]

  (a) T  translate/parser_state.py transcribes `struct ParserState`, the statements of `do_parse`, the
         listener and `create_ast`'s column expression into Gen/ParserState.lean; Props/C23.lean proves
         `doParse_history_free`, `first_error_kept`, ... over that list (lake build + axiom audit).
  (b) K  the C++ text of `extract_source_line_expanded` is cut out of bindings.cpp, compiled alone with g++
         and compared with the Lean function `Text.SrcLine.extract` (driver TextParser) on random and
         adversarial byte texts; `VTLSyntaxError`'s message is compared with the Lean `message`.
         The property predicate (caret inside the echoed line) is evaluated on the C++ outputs.
  (c)    TEST of the repo's Python layer (create_ast, ASTConstructor, DAGAnalyzer.create_dag,
         VTLSyntaxError, create_ast_with_comments) under the stand-in parser: every text gives an AST or a
         VTLEngineException; syntax-error positions lie inside the text; a parse after any history equals
         a fresh parse.
  Residual, NOT covered: memory safety, termination and error recovery of the C++ ANTLR runtime and of
  the generated Vtl.cpp (the extension cannot be built here).
"""
import sys, os, json, re, time, glob, hashlib, signal, traceback, subprocess, dataclasses, enum, collections

sys.path.insert(0, os.path.join(os.path.dirname(os.path.abspath(__file__)), '..'))
sys.path.insert(0, os.path.join(os.path.dirname(os.path.abspath(__file__)), '..', 'translate'))
import vlib

REPO = vlib.REPO
NEST_OK = 200          # nesting depth the Python layer must handle under CPython's default recursion limit
NEST_PROBE = 500       # nesting depth probed for a RecursionError escaping create_ast (known finding)
DEFAULT_RECURSION = 1000
CALL_BUDGET_S = 10

# ===================================================================== (c) workers
_W = {}


class _Timeout(BaseException):
    pass


def _alarm(sig, frm):
    raise _Timeout()


def winit():
    import eng  # noqa: F401  (installs the stand-in parser, boots vtlengine from VERIF_REPO)
    import vtlstub
    from vtlengine.API import create_ast
    from vtlengine.AST.ASTComment import create_ast_with_comments
    from vtlengine.Exceptions import VTLEngineException, VTLSyntaxError
    from vtlengine.AST.Grammar._cpp_parser import vtl_cpp_parser
    _W.update(create_ast=create_ast, cawc=create_ast_with_comments, VE=VTLEngineException, SE=VTLSyntaxError,
              p=vtl_cpp_parser, stub=vtlstub, orig_parse=vtl_cpp_parser.parse)
    signal.signal(signal.SIGALRM, _alarm)


def dump(x):
    if dataclasses.is_dataclass(x) and not isinstance(x, type):
        return (type(x).__name__,) + tuple((f.name, dump(getattr(x, f.name))) for f in dataclasses.fields(x))
    if isinstance(x, (list, tuple)):
        return tuple(dump(y) for y in x)
    if isinstance(x, dict):
        return tuple(sorted((str(k), dump(v)) for k, v in x.items()))
    if isinstance(x, enum.Enum):
        return ('enum', type(x).__name__, x.name)
    if isinstance(x, (str, int, float, bool)) or x is None:
        return x
    if isinstance(x, type):
        return ('type', x.__name__)
    return ('obj', type(x).__name__)


def digest(x):
    return hashlib.sha1(repr(x).encode('utf-8', 'surrogatepass')).hexdigest()[:16]


def site_of(tb):
    """(last frame inside vtlengine as 'file:function', deepest frame is inside the stand-in parser?)
    walks the traceback by hand (no source lookups: tracebacks of deep recursions have 10^4 frames)"""
    last, deepest = None, ''
    while tb is not None:
        co = tb.tb_frame.f_code
        if co.co_name != '_alarm':
            deepest = co.co_filename
            if '/vtlengine/' in co.co_filename:
                last = '%s:%s' % (co.co_filename.split('/vtlengine/')[-1], co.co_name)
        tb = tb.tb_next
    return last, ('vtlstub' in deepest)


def winit_slow():
    winit()
    _W['budget'] = 12 * CALL_BUDGET_S


def outcome(fn, text, budget=None):
    """('ok', digest) | ('vtl', class, lino, colno, msg) | ('raw', class, site, msg) | ('stub_limit', what)"""
    budget = budget or _W.get('budget', CALL_BUDGET_S)
    try:
        return _outcome(fn, text, budget)
    except _Timeout:            # the alarm fired while an exception handler below was still running
        signal.alarm(0)
        return ('stub_limit', 'timeout')
    finally:
        signal.alarm(0)


def _outcome(fn, text, budget):
    signal.alarm(budget)
    try:
        r = fn(text)
        signal.alarm(0)
        return ('ok', digest(dump(r)))
    except _W['VE'] as e:
        signal.alarm(0)
        return ('vtl', type(e).__name__, e.lino, e.colno, str(e))
    except _Timeout as e:
        signal.alarm(0)
        s, instub = site_of(e.__traceback__)
        return ('stub_limit', 'timeout') if instub else ('raw', 'Timeout', s, 'no answer within %ds' % budget)
    except RecursionError as e:
        signal.alarm(0)
        s, instub = site_of(e.__traceback__)
        return ('stub_limit', 'RecursionError') if instub else ('raw', 'RecursionError', s, '')
    except MemoryError:
        signal.alarm(0)
        return ('stub_limit', 'MemoryError')
    except BaseException as e:  # noqa: BLE001
        signal.alarm(0)
        s, instub = site_of(e.__traceback__)
        if instub and s is None:
            return ('stub_limit', type(e).__name__)
        return ('raw', type(e).__name__, s or '?', str(e)[:160])


def check_position(text, o):
    """predicate of the property on a VTLSyntaxError outcome; returns None or a description"""
    if o[0] != 'vtl' or o[1] != 'VTLSyntaxError':
        return None
    try:
        line, col = int(o[2]), int(o[3])
    except (TypeError, ValueError):
        return 'lino/colno not integers: %r %r' % (o[2], o[3])
    lines = (text + '\n').split('\n')
    if not (1 <= line <= len(lines)):
        return 'line %d outside 1..%d' % (line, len(lines))
    if not (1 <= col <= len(lines[line - 1]) + 1):
        return 'column %d outside 1..%d (line %d)' % (col, len(lines[line - 1]) + 1, line)
    if not o[4].startswith('VTL syntax error at line %d, column %d: ' % (line, col)):
        return 'message header does not carry the position'
    return None


def task_history(texts):
    """parse the texts one after the other in this process; per text: create_ast outcome, comments seen,
    create_ast_with_comments outcome"""
    res = []
    for t in texts:
        o = outcome(_W['create_ast'], t)
        try:
            com = digest(_W['p'].get_comments())
        except BaseException as e:  # noqa: BLE001
            com = 'ERR ' + type(e).__name__
        o2 = outcome(_W['cawc'], t)
        res.append((o, com, o2, check_position(t, o)))
    return res


def task_history_light(texts):
    """second history: create_ast + comments only"""
    res = []
    for t in texts:
        o = outcome(_W['create_ast'], t)
        try:
            com = digest(_W['p'].get_comments())
        except BaseException as e:  # noqa: BLE001
            com = 'ERR ' + type(e).__name__
        res.append((o, com, ('skipped',), None))
    return res


def task_default_limit(text):
    """create_ast under CPython's default recursion limit for the repo's Python layer (the stand-in parser
    itself gets a high limit)"""
    import inspect
    orig = _W['orig_parse']

    def parse_hi(t):
        old = sys.getrecursionlimit()
        sys.setrecursionlimit(400000)
        try:
            return orig(t)
        finally:
            sys.setrecursionlimit(old)
    _W['p'].parse = parse_hi
    old = sys.getrecursionlimit()
    try:
        sys.setrecursionlimit(len(inspect.stack(0)) + DEFAULT_RECURSION)
        return outcome(_W['create_ast'], text, budget=12 * CALL_BUDGET_S)
    finally:
        sys.setrecursionlimit(old)
        _W['p'].parse = orig


HIER_DEF = 'define hierarchical ruleset %s (variable rule Id_2) is A = B + C end hierarchical ruleset;'
HIER_USE = 'r := hierarchy(DS_1, %s);'
_probe_n = [0]


def task_hier_probe(_):
    """the same text before and after an unrelated script that defines a hierarchical ruleset of the same name"""
    _probe_n[0] += 1
    name = 'hr_c23_%d_%d' % (os.getpid(), _probe_n[0])
    before = task_history([HIER_USE % name])[0]
    after = task_history([HIER_DEF % name, HIER_USE % name])[1]
    return name, before, after


def hist_key(text):
    return 'C23/py/history-dependence/hierarchical-ruleset-registry' if 'hierarchy' in text else 'C23/py/history-dependence'


def task_fresh(text):
    return task_history([text])[0]


# ===================================================================== generators (parent side)
NEST = {
    'paren': lambda n: 'a := ' + '(' * n + '1' + ')' * n + ';',
    'negparen': lambda n: 'a := ' + '-(' * n + '1' + ')' * n + ';',
    'neg': lambda n: 'a := ' + '- ' * n + '1;',
    'chain': lambda n: 'a := ' + ' + '.join(['b'] * n) + ';',
    'not': lambda n: 'a := ' + 'not ' * n + 'b;',
    'if': lambda n: 'a := ' + 'if c then b else ' * n + 'b;',
    'abs': lambda n: 'a := ' + 'abs(' * n + 'b' + ')' * n + ';',
    'clause': lambda n: 'a := b' + '[filter c]' * n + ';',
    'unclosed': lambda n: 'a := ' + '(' * n + '1;',
}


class Gens:
    def __init__(self, rng):
        import vtlstub
        self.rng, self.stub = rng, vtlstub
        self.lits = [l for _, l in vtlstub.LITS]
        self.LIT = dict(vtlstub.LITS)
        corpus = sorted(glob.glob(REPO + '/tests/**/*.vtl', recursive=True))
        self.small = [p for p in corpus if os.path.getsize(p) < 3000]
        self._min()

    # ---- grammar-driven sentences
    SAMPLES = {
        'INTEGER_CONSTANT': ['0', '1', '42', '99999999999999999999'],
        'NUMBER_CONSTANT': ['1.5', '0.0', '3.14'],
        'BOOLEAN_CONSTANT': ['true', 'false'],
        'STRING_CONSTANT': ['"a"', '""', '"2020-01-01"', '"é\tx"', '"A"', '"M"', '"yyyy"'],
        'IDENTIFIER': ['a', 'b', 'DS_1', 'Me_1', 'Id_1', "'q x'", 'r1', 'sc:DS(1.0)', 'f'],
        'EOF': [''],
    }

    def _min(self):
        INF = 10 ** 9
        st = self.stub
        mr = {n: INF for n, _ in st.RULES}

        def seq_cost(seq):
            c = 0
            for atom, suf in seq:
                if suf in ('?', '*', '*?', '??'):
                    continue
                c = max(c, atom_cost(atom))
            return c

        def atom_cost(atom):
            k, v = atom
            if k == 'tok':
                return 0
            if k == 'rule':
                return mr[v] + 1 if mr[v] < INF else INF
            return min(seq_cost(s) for _, s in v)
        ch = True
        while ch:
            ch = False
            for n, alts in st.RULES:
                c = min(seq_cost(s) for _, s in alts)
                if c < mr[n]:
                    mr[n] = c; ch = True
        self.seq_cost, self.atom_cost = seq_cost, atom_cost

    def sentence(self, rule, maxdepth, rep):
        rng, st, out = self.rng, self.stub, []
        seq_cost, atom_cost = self.seq_cost, self.atom_cost

        def pick(alts, d):
            ok = [s for _, s in alts if seq_cost(s) + d <= maxdepth]
            if not ok:
                m = min(seq_cost(s) for _, s in alts)
                ok = [s for _, s in alts if seq_cost(s) == m]
            return rng.choice(ok)

        def g_seq(seq, d):
            for atom, suf in seq:
                if suf == '':
                    k = 1
                elif suf in ('?', '??'):
                    k = rng.randrange(2)
                elif suf in ('*', '*?'):
                    k = rng.randrange(rep + 1)
                else:
                    k = 1 + rng.randrange(rep)
                if k and atom_cost(atom) + d > maxdepth and suf in ('?', '*', '*?', '??'):
                    k = 0
                for _ in range(k):
                    kind, v = atom
                    if kind == 'tok':
                        out.append(self.LIT[v] if v in self.LIT else rng.choice(self.SAMPLES.get(v, ['x'])))
                    elif kind == 'rule':
                        g_seq(pick(st.RULE_ALTS[v], d + 1), d + 1)
                    else:
                        g_seq(pick(v, d), d)
        g_seq(pick(st.RULE_ALTS[rule], 0), 0)
        return ' '.join(x for x in out if x)

    # ---- one sentence per alternative of every grammar rule (construct coverage)
    def _refs(self, seq):
        for atom, _ in seq:
            k, v = atom
            if k == 'rule':
                yield v
            elif k == 'group':
                for _, s2 in v:
                    yield from self._refs(s2)

    def cover_targets(self):
        st = self.stub
        parent, order = {'start': None}, ['start']
        for r in order:
            for k, (_, seq) in enumerate(st.RULE_ALTS[r]):
                for q in self._refs(seq):
                    if q not in parent:
                        parent[q] = (r, k)
                        order.append(q)
        self.parent = parent
        return [(r, k) for r in order for k in range(len(st.RULE_ALTS[r]))]

    def cover(self, rule, alt, maxdepth=4):
        """a whole script whose derivation uses alternative `alt` of `rule`"""
        rng, st, out = self.rng, self.stub, []
        forced = {rule: alt}
        r = rule
        while self.parent.get(r):
            pr, k = self.parent[r]
            forced.setdefault(pr, k)
            r = pr
        seq_cost, atom_cost = self.seq_cost, self.atom_cost

        def wanted(seq):
            return any(q in forced for q in self._refs(seq))

        def pick(alts, d):
            ok = [s for _, s in alts if seq_cost(s) + d <= maxdepth]
            if not ok:
                m = min(seq_cost(s) for _, s in alts)
                ok = [s for _, s in alts if seq_cost(s) == m]
            return rng.choice(ok)

        def g_rule(v, d):
            if v in forced:
                g_seq(st.RULE_ALTS[v][forced.pop(v)][1], d + 1)
            else:
                g_seq(pick(st.RULE_ALTS[v], d + 1), d + 1)

        def g_seq(seq, d):
            for atom, suf in seq:
                kind, v = atom
                need = (kind == 'rule' and v in forced) or (kind == 'group' and any(wanted(s2) for _, s2 in v))
                if suf == '' or suf in ('+', '+?'):
                    k = 1
                else:
                    k = 1 if need else (rng.randrange(2) if atom_cost(atom) + d <= maxdepth else 0)
                for _ in range(k):
                    if kind == 'tok':
                        out.append(self.LIT[v] if v in self.LIT else rng.choice(self.SAMPLES.get(v, ['x'])))
                    elif kind == 'rule':
                        g_rule(v, d)
                    else:
                        w = [s2 for _, s2 in v if wanted(s2)]
                        g_seq(w[0] if w else pick(v, d), d)
        g_rule('start', 0)
        return ' '.join(x for x in out if x)

    def gram(self):
        rng = self.rng
        r, d, rep = rng.random(), rng.randrange(2, 10), rng.choice([1, 2, 2])
        if r < 0.35:
            return self.sentence('statement', d, rep) + ';'
        if r < 0.6:
            return 'a := ' + self.sentence('expr', d, rep) + ';'
        if r < 0.75:
            return 'a := b [ calc c := ' + self.sentence('exprComponent', d, rep) + ' ];'
        if r < 0.9:
            return self.sentence('defOperators', d, rep) + ';'
        return 'a := ' + self.sentence(rng.choice([n for n, _ in self.stub.RULES]), d, rep) + ';'

    # ---- token level
    def ident(self): return self.rng.choice(['a', 'b', 'DS_1', 'Me_1', 'Id_1', "'x y'", 'DS_r', 'x1', 'sc:DS(1.0)'])
    def const(self): return self.rng.choice(['1', '0', '2.5', '"s"', 'true', 'false', 'null', '""', '1.0e3', '99999999999999999999'])
    def ws(self): return self.rng.choice([' ', ' ', ' ', '\n', '\t', '\r\n', '  ', ''])

    def tok(self):
        r = self.rng.random()
        if r < 0.55: return self.rng.choice(self.lits)
        if r < 0.75: return self.ident()
        if r < 0.9: return self.const()
        return self.rng.choice(['/* c */', '// c\n', '@', '$', '"unterminated', "'unt", '/* open', 'é', '\x00', '/* multi\nline */'])

    def latin1(self):
        return bytes(self.rng.randrange(256) for _ in range(self.rng.randrange(0, 120))).decode('latin-1')

    def unicode(self):
        rng = self.rng

        def cp():
            r = rng.random()
            if r < 0.4: return rng.randrange(32, 127)
            if r < 0.5: return rng.choice([9, 10, 13, 12, 0, 0x85, 0x2028, 0xFEFF])
            if r < 0.7: return rng.randrange(0x80, 0x800)
            if r < 0.85: return rng.randrange(0x800, 0xD800)
            if r < 0.9: return rng.randrange(0xD800, 0xE000)
            return rng.randrange(0x10000, 0x110000)
        return ''.join(chr(cp()) for _ in range(rng.randrange(0, 80)))

    def soup(self):
        return ''.join(self.tok() + self.ws() for _ in range(self.rng.randrange(1, 40)))

    def stmt_soup(self):
        rng = self.rng
        return ''.join('%s := %s;%s' % (self.ident(), ' '.join(self.tok() for _ in range(rng.randrange(1, 12))), self.ws())
                       for _ in range(rng.randrange(1, 4)))

    def corpus(self):
        try:
            return open(self.rng.choice(self.small), encoding='utf-8').read()
        except Exception:
            return ''

    def mutate(self):
        rng = self.rng
        src = self.corpus()
        toks = self.stub.lex(src)[0][:-1]
        if not toks:
            return src
        k = rng.randrange(7)
        i = rng.randrange(len(toks)); t = toks[i]
        if k == 0: return src[:t.start] + src[t.stop + 1:]
        if k == 1: return src[:t.stop + 1] + ' ' + t.text + src[t.stop + 1:]
        if k == 2:
            u = toks[rng.randrange(len(toks))]
            if u is t: return src
            a, b = (t, u) if t.start < u.start else (u, t)
            return src[:a.start] + b.text + src[a.stop + 1:b.start] + a.text + src[b.stop + 1:]
        if k == 3:
            ps = [x for x in toks if x.text in ('(', ')', '[', ']', '{', '}')]
            if not ps: return src
            t = rng.choice(ps); return src[:t.start] + src[t.stop + 1:]
        if k == 4: return src[:rng.randrange(len(src) + 1)]
        if k == 5: return src[:t.start] + self.tok() + ' ' + src[t.start:]
        return src[:t.start] + self.tok() + src[t.stop + 1:]

    def nest(self):
        rng = self.rng
        f = rng.choice(sorted(NEST))
        n = rng.choice([5, 20, 50, 100, 200])
        return NEST[f](n)

    FAMILIES = [('gram', 30), ('mutate', 25), ('corpus', 8), ('soup', 8), ('stmt_soup', 10), ('latin1', 6), ('unicode', 6), ('nest', 2)]

    def draw(self):
        tot = sum(w for _, w in self.FAMILIES)
        r = self.rng.randrange(tot)
        for f, w in self.FAMILIES:
            if r < w:
                return f, getattr(self, f)()
            r -= w


# ===================================================================== (b) C++ harness
CPP_MAIN = r'''
#include <string>
#include <iostream>
#include <cstdio>
struct { std::string input_text; } g_state;
%s
static int hv(char c) { return c <= '9' ? c - '0' : c - 'a' + 10; }
int main() {
    std::string hx; long line, col;
    while (std::cin >> hx >> line >> col) {
        std::string t;
        if (hx != "-") for (size_t i = 0; i + 1 < hx.size(); i += 2) t.push_back((char)(hv(hx[i]) * 16 + hv(hx[i + 1])));
        g_state.input_text = t;
        int c = (int)col;
        std::string out = extract_source_line_expanded((int)line, c);
        if (out.empty()) std::fputs("-", stdout);
        for (unsigned char ch : out) std::printf("%%02x", ch);
        std::printf(" %%d\n", c);
    }
    return 0;
}
'''


def build_cpp(seg):
    src = CPP_MAIN % seg
    h = hashlib.sha1(src.encode()).hexdigest()[:12]
    d = '/tmp/verif_srcline_%s' % h
    exe = os.path.join(d, 'srcline')
    if not os.path.exists(exe):
        os.makedirs(d, exist_ok=True)
        open(os.path.join(d, 'main.cpp'), 'w').write(src)
        rc, out = vlib.sh(['g++', '-O1', '-std=c++17', '-o', exe + '.tmp', os.path.join(d, 'main.cpp')], timeout=300)
        if rc != 0:
            raise vlib.ShapeError('g++ could not compile the cut-out function: ' + out[-600:])
        os.replace(exe + '.tmp', exe)
    return exe


def run_cpp(exe, cases):
    inp = ''.join('%s %d %d\n' % (hx(t), l, c) for t, l, c in cases)
    p = subprocess.run([exe], input=inp, capture_output=True, text=True, timeout=600)
    if p.returncode != 0:
        return None, 'exit code %d: %s' % (p.returncode, p.stderr[-300:])
    res = []
    for ln in p.stdout.split('\n'):
        if ln:
            a, b = ln.split(' ')
            res.append((unhx(a), int(b)))
    if len(res) != len(cases):
        return None, '%d answers for %d requests' % (len(res), len(cases))
    return res, None


def hx(b: bytes):
    return b.hex() if b else '-'


def unhx(s):
    return b'' if s == '-' else bytes.fromhex(s)


def srcline_cases(rng, n):
    """(text bytes, line, col): random and adversarial"""
    alph = [b'\t', b'\t', b'\r', b'\n', b'\n', b' ', b'a', b'b', b';', b'(', b'"', b'\xc3\xa9', b'\xe2\x82\xac', b'\xf0\x9f\x98\x80', b'\xff', b'\x00', b'\r\n']
    fixed = [b'', b'\n', b'\n\n', b'a', b'a\n', b'\t', b'\r', b'\r\n', b'a\r\n', b'\ta\tb', b'a\r', b'\t\ta := b +;\n', b'x\n\ny', b'\xc3\xa9\xc3\xa9\t;',
             'a := "éééé"\r\r\r\rb;\n'.encode(), b'\n' * 50, b'\t' * 40, b'ab' * 1500 + b'\n' + b'\t;' * 700]
    out = []
    for t in fixed:
        nl = t.count(b'\n') + 1
        for l in range(-1, nl + 3):
            for c in (-3, 0, 1, 2, 3, 4, 5, 9, len(t), len(t) + 1, len(t) + 2, 10 ** 9):
                out.append((t, l, c))
    while len(out) < n:
        k = rng.choice([0, 1, 2, 3, 5, 8, 13, 30, 80, 200])
        t = b''.join(rng.choice(alph) if rng.random() < 0.8 else bytes([rng.randrange(256)]) for _ in range(k))
        lines = t.split(b'\n')
        r = rng.random()
        l = rng.randrange(1, len(lines) + 1) if r < 0.75 else rng.choice([0, -1, -7, len(lines) + 1, len(lines) + 2, len(lines) + 100, 2 ** 31 - 1, -2 ** 31])
        ll = len(lines[l - 1]) if 1 <= l <= len(lines) else 3
        r = rng.random()
        c = rng.randrange(1, ll + 2) if r < 0.7 else rng.choice([0, -1, ll + 2, ll + 3, ll + 50, 10 ** 9, 2 ** 31 - 1, -2 ** 31, 1])
        out.append((t, l, c))
    return out


def pos_of(text: bytes, k: int):
    """ANTLR's (line, charPositionInLine) of BYTE offset k (independent Python statement of the contract)"""
    pre = text[:k]
    return pre.count(b'\n') + 1, len(pre) - (pre.rfind(b'\n') + 1)


def cp_len(b: bytes):
    return sum(1 for x in b if not 128 <= x < 192)


# ===================================================================== main
_T0 = time.time()


def trace(msg):
    if os.environ.get('VERIF_C23_TRACE'):
        print('[c23 %6.1fs] %s' % (time.time() - _T0, msg), file=sys.stderr, flush=True)


def pmap(pool, fn, args, limit_s=3 * 3600):
    """pool.map that cannot wait for ever when a worker process died (-> harness error, exit 2)"""
    return pool.map_async(fn, args, chunksize=1).get(timeout=limit_s)


def main(ck):
    import resource
    try:
        soft, hard = resource.getrlimit(resource.RLIMIT_STACK)
        want = 512 * 1024 * 1024
        resource.setrlimit(resource.RLIMIT_STACK, (want if hard == resource.RLIM_INFINITY else min(want, hard), hard))
    except Exception:
        pass
    import multiprocessing as mp
    import parser_state as tr
    quick = ck.quick()
    rng = ck.rng
    notes = {}
    problems = []          # (kind, name, why, detail): broken obligations / disagreements to resolve by the search
    ck.assumptions += [
        "ANTLR's position contract: a syntax error is located at a character offset of the parsed text that is not a newline, or at the end of the text; line = 1 + newlines before it, charPositionInLine = distance from the start of that line (units: bytes in the theorems; ANTLR's C++ runtime counts code points, equal for ASCII texts)",
        "RESIDUAL, not covered: memory safety, termination (no hang / stack exhaustion on deep nesting) and error recovery of the C++ ANTLR runtime and of the generated Vtl.cpp / VtlTokens.cpp; pybind11's str -> std::string conversion (e.g. lone surrogates). The extension cannot be built or run in this sandbox",
        "int is modelled by unbounded Int: texts with >= 2^31 bytes or lines are outside the model",
        "the step semantics of Text/ParserState.lean abstracts pointer graphs by values (an object captures the VALUES of the objects it was constructed from)",
        "(c) runs the repo's Python layer on top of the stand-in parser (harness/vtlstub), which accepts the language of Vtl.g4; its error positions are the stub's, not ANTLR's",
    ]
    ck.trusted('translator harness/translate/parser_state.py (regexes / brace matching over bindings.cpp, Python ast over API/__init__.py)',
               'g++ (compiles the cut-out C++ function for the correspondence run)',
               'stand-in parser harness/vtlstub for part (c)',
               'correspondence harness harness/checks/c23.py and Lean driver Drivers/TextParser.lean (lean --run)')

    trace('translator')
    # ---------------------------------------------------------------- 1. translator
    info = None
    try:
        info = tr.read(REPO)
        ck.gen('ParserState', tr.emit(info))
        notes['translated'] = {'fields': info['fields'], 'steps': len(info['steps']), 'listener': info['listener'],
                               'tabWidth': info['tabWidth'], 'columnOffset': info['columnOffset']}
    except vlib.ShapeError as e:
        problems.append(('translator', 'translator:parser_state', 'source no longer has the transcribed shape: %s' % e, None))
    col_in = info['listener']['colIn'] if info else 1
    tabw = info['tabWidth'] if info else 4
    col_fix = (info['listener']['colOut'] + info['columnOffset']) if info else 0

    trace('proof')
    # ---------------------------------------------------------------- 2. proof
    pr = ck.proof('C23')
    if not pr['ok']:
        for t in (pr['failed'] or ['<build>']):
            problems.append(('proof', t, 'theorem no longer checks against the regenerated Gen/ParserState.lean', pr['log'][-1500:]))
        for f in pr['forbidden'] + pr['bad_axioms']:
            problems.append(('proof', 'audit', f, None))

    trace('c++ function')
    # ---------------------------------------------------------------- 3. the C++ function, compiled from the source
    scale = float(os.environ.get('VERIF_C23_SCALE') or 1)      # < 1 only for mutation runs on an overloaded machine
    notes['scale'] = scale
    n_src = int((2500 if quick else 52000) * scale)
    cases, cpp, exe = [], None, None
    pred_meta, pred_res = [], None
    try:
        exe = build_cpp(tr.srcline_cpp(REPO))
        cases = srcline_cases(rng, n_src)
        cpp, err = run_cpp(exe, cases)
        if cpp is None:
            ck.violation('C23/bindings.cpp:extract_source_line_expanded/crash', {'kind': 'srcline-crash', 'why': err},
                         'the compiled extract_source_line_expanded aborted on the test inputs: %s' % err)
        # the property's own predicate on the IMPLEMENTATION output, positions per ANTLR's contract
        n_pred = int((3000 if quick else 30000) * scale)
        pcs = []
        alph = [b'\t', b'\r', b' ', b'a', b'b', b';', b'(', b'\n', b'\n', b'x', b'\r\n']
        alph8 = alph + [b'\xc3\xa9', b'\xe2\x82\xac', b'\xf0\x9f\x98\x80']
        fixed = [('a := "éééé"\r\r\r\rb;'.encode(), 19), (b'\t\ta := b +;', 10), (b'a :=', 5), (b'', 0)]
        for i in range(n_pred):
            if i < len(fixed):
                body, k = fixed[i]
                t = body + b'\n'
            else:
                t = b''.join(rng.choice(alph if rng.random() < 0.7 else alph8) for _ in range(rng.choice([0, 1, 3, 8, 20, 60]))) + b'\n'
                offs = [j for j in range(len(t)) if t[j:j + 1] != b'\n' and not 128 <= t[j] < 192] + [len(t)]
                k = rng.choice(offs)
            line, bcol = pos_of(t, k)
            cpcol = cp_len(t[k - bcol:k])           # what ANTLR's runtime reports: code points
            pcs.append((t, line, cpcol + col_in))
            pred_meta.append((t, k, line, cpcol, all(x < 128 for x in t)))
        pred_res, err = run_cpp(exe, pcs)
        if pred_res is None:
            ck.violation('C23/bindings.cpp:extract_source_line_expanded/crash', {'kind': 'srcline-crash', 'why': err},
                         'the compiled extract_source_line_expanded aborted on the test inputs: %s' % err)
    except vlib.ShapeError as e:
        problems.append(('translator', 'correspondence:extract_source_line_expanded', 'cannot cut / compile the function: %s' % e, None))

    n_bad = 0
    for (t, k, line, cpcol, is_ascii), (out, oc) in zip(pred_meta, pred_res or []):
        col = oc + col_fix
        raw = t.split(b'\n')[line - 1]
        exp = raw.replace(b'\t', b' ' * tabw).replace(b'\r', b'')
        ck.count(('srcpred', t, k))
        bad = None
        if out != exp:
            bad = 'echoed line is not the line with tabs expanded to TAB_WIDTH=%d spaces and CR dropped' % tabw
        elif not (1 <= col <= cp_len(out) + 1):
            bad = 'reported column %d outside 1..%d (length of the echoed line + 1)' % (col, cp_len(out) + 1)
        if bad:
            n_bad += 1
            key = 'C23/bindings.cpp:extract_source_line_expanded/' + ('byte-vs-codepoint-column' if not is_ascii else 'caret-outside-echoed-line')
            ck.violation(key, {'kind': 'srcline', 'text_hex': hx(t), 'offset': k, 'line': line, 'charPositionInLine': cpcol,
                               'cpp_source_line_hex': hx(out), 'reported_column': col},
                         'extract_source_line_expanded (compiled from the source) with ANTLR position line %d, column %d of %r: %s' % (line, cpcol, t[:60], bad))
    notes['srcline_predicate'] = {'cases': len(pred_meta), 'failing': n_bad, 'non_ascii_cases': sum(1 for m in pred_meta if not m[4])}

    trace('lean driver')
    # ---------------------------------------------------------------- 4. ONE run of the Lean driver: model checks + witness, extract, message
    bad_t, good_t = b'a @ b @'.hex(), b'a'.hex()
    fields = 'input_text,comments,syntax_error,%ret'
    req_model = ['(checks)', '(parseseq %s %s %s)' % (fields, bad_t, good_t), '(fresh %s %s)' % (fields, good_t),
                 '(parseseq comments %s %s)' % (good_t, good_t), '(fresh comments %s)' % good_t]
    req_src = ['(srcline %s %d %d)' % (hx(t), l, c) for t, l, c in cases] if cpp is not None else []
    mcases = []
    for _ in range(300 if quick else 3000):
        sl = ''.join(rng.choice(' ab;\t\xe9') for _ in range(rng.choice([0, 0, 1, 5, 30])))
        det = ''.join(rng.choice(" ab';<EOF>\n") for _ in range(rng.randrange(0, 20)))
        mcases.append((rng.choice([-1, 0, 1, 2, 17, 100000]), rng.choice([-2, 0, 1, 2, len(sl), len(sl) + 1, 500]), rng.choice([-1, 0, 1, 2, 7]), sl, det))
    req_msg = ['(synmsg %d %d %d %s %s)' % (l, c, u, hx(sl.encode('latin-1')), hx(d.encode('latin-1'))) for l, c, u, sl, d in mcases]
    model, lean_src, lean_msg = {}, None, None
    try:
        ans = ck.driver('TextParser', req_model + req_src + req_msg)
        am, lean_src, lean_msg = ans[:len(req_model)], ans[len(req_model):len(req_model) + len(req_src)], ans[len(req_model) + len(req_src):]
        model['checks'] = am[0]
        after_bad = am[1].split(' ;; ')[1]
        model['witness_stale_error'] = None if after_bad == am[2] else {'history': ['a @ b @', 'a'], 'second_parse': after_bad, 'fresh_parse': am[2]}
        twice = am[3].split(' ;; ')[1]
        model['witness_comments'] = None if twice == am[4] else {'history': ['a', 'a'], 'second_parse': twice, 'fresh_parse': am[4]}
        ck.count(('model', 'parseseq'), n=2)
        if 'historyFree=true' not in am[0] or model['witness_stale_error'] or model['witness_comments']:
            problems.append(('model', 'doParse_history_free', 'the transcribed step list fails the history-freedom check: %s' % am[0], model))
        if 'errDiscipline=true' not in am[0] or 'guarded=true' not in am[0]:
            problems.append(('model', 'first_error_kept', 'the transcribed listener / step list fails the first-error discipline: %s' % am[0], model))
    except vlib.DriverError as e:
        problems.append(('driver', 'driver:TextParser', str(e)[-400:], None))
    notes['model'] = model
    if lean_src is not None and cpp is not None:
        dis = []
        for (t, l, c), (o, oc), la in zip(cases, cpp, lean_src):
            a2, b2 = la.split(' ')
            ck.count(('srcline', t, l, c))
            if (unhx(a2), int(b2)) != (o, oc):
                dis.append({'text_hex': hx(t), 'line': l, 'col': c, 'cpp': [hx(o), oc], 'lean': [a2, int(b2)]})
        ck.cov['traces_validated_against_impl'] += len(cases)
        notes['srcline'] = {'cases': len(cases), 'disagreements': len(dis),
                            'lines_outside_text': sum(1 for t, l, c in cases if not 1 <= l <= t.count(b'\n') + 1),
                            'with_tab': sum(1 for t, l, c in cases if b'\t' in t), 'with_cr': sum(1 for t, l, c in cases if b'\r' in t),
                            'non_ascii': sum(1 for t, l, c in cases if any(x > 127 for x in t))}
        j = len(cases) // 2
        ck.sample({'srcline': {'text': cases[j][0][:60].decode('latin-1'), 'line': cases[j][1], 'col': cases[j][2], 'cpp': [cpp[j][0][:60].decode('latin-1'), cpp[j][1]]}})
        if dis:
            problems.append(('corr', 'correspondence:extract_source_line_expanded',
                             '%d of %d cases differ between the compiled C++ function and Text.SrcLine.extract' % (len(dis), len(cases)), dis[:5]))

    trace('python layer')
    # ---------------------------------------------------------------- 5. Python layer under the stand-in parser
    G = Gens(rng)
    known_examples = [(k['key'], k['example']['text']) for k in vlib.load_known()
                      if k.get('property') == 'C23' and isinstance(k.get('example'), dict) and 'text' in k['example']]
    n_txt = int((3000 if quick else 60000) * scale)
    items = [('regression', t) for _, t in known_examples]
    edge = ['', ' ', '\n', ';', 'a', 'a :=', 'a := 1', 'a := 1;', '/* c */', '// c', 'a := 1; /* c */ b := a; // d', '\ta := ;', '@', 'a := "x', "a := 'x", '/* open',
            'a := b; a := c;', 'a := 1;\r\nb := ;\r\n', '﻿a := 1;', 'a := 1;' * 300]
    items += [('edge', t) for t in edge]
    targets = G.cover_targets()
    for _ in range(1 if quick else 4):
        items += [('cover', G.cover(r, k)) for r, k in targets]
    notes['cover_targets'] = len(targets)
    while len(items) < n_txt:
        items.append(G.draw())
    for f, n in (('chain', 2000), ('paren', 2000), ('neg', 2000), ('if', 1000)):
        items.append(('nest', NEST[f](n)))
    if not quick:
        items.append(('huge', bytes(rng.randrange(256) for _ in range(100000)).decode('latin-1')))
        items.append(('huge', 'a := b;\n' * 5000))
    texts, fam_of = [], {}
    for f, t in items:
        if t not in fam_of:
            fam_of[t] = f
            texts.append(t)

    def histories(size=25):
        idx = list(range(len(texts)))
        rng.shuffle(idx)
        return [idx[i:i + size] for i in range(0, len(idx), size)]
    hA, hB = histories(), histories()
    ctx = mp.get_context('fork')
    t0 = time.time()
    with ctx.Pool(16, initializer=winit) as pool:
        rA = pmap(pool, task_history, [[texts[i] for i in h] for h in hA])
        rB = pmap(pool, task_history_light, [[texts[i] for i in h] for h in hB])
        nest_cases = [(f, n, NEST[f](n)) for f in ('paren', 'chain', 'neg', 'not', 'if') for n in (NEST_OK, NEST_PROBE)]
        rN = pmap(pool, task_default_limit, [c[2] for c in nest_cases])
        rH = pmap(pool, task_hier_probe, [0])
    n_fresh = max(4, int((16 if quick else 96) * scale))
    fresh_idx = rng.sample(range(len(texts)), min(n_fresh, len(texts)))
    with ctx.Pool(16, initializer=winit, maxtasksperchild=1) as pool:
        rF = pmap(pool, task_fresh, [texts[i] for i in fresh_idx])
    notes['py_wall_s'] = round(time.time() - t0, 1)

    resA, resB, prevA, prevB = {}, {}, {}, {}
    for hs, rs, res, prev in ((hA, rA, resA, prevA), (hB, rB, resB, prevB)):
        for h, r in zip(hs, rs):
            for j, (i, x) in enumerate(zip(h, r)):
                res[i] = x
                prev[i] = h[j - 1] if j else None

    def limited(*rs):
        return any(r[0][0] == 'stub_limit' or r[2][0] == 'stub_limit' or (r[0][0] == 'raw' and r[0][1] in ('Timeout', 'RecursionError'))
                   or (r[2][0] == 'raw' and r[2][1] in ('Timeout', 'RecursionError')) for r in rs)

    def show(r):
        return [list(map(str, x))[:5] if isinstance(x, tuple) else x for x in r[:3]]
    hist = collections.Counter()
    stub_limit = 0
    raw_sites, slow = {}, []
    for i, t in enumerate(texts):
        o, com, o2, posbad = resA[i]
        hist['%s/%s' % (fam_of[t], o[0] if o[0] != 'vtl' else o[1])] += 1
        ck.count(('py', t))
        if o[0] == 'stub_limit' or o2[0] == 'stub_limit':
            stub_limit += 1
        for which, oo in (('create_ast', o), ('create_ast_with_comments', o2)):
            if oo[0] == 'raw' and oo[1] == 'Timeout':
                slow.append((which, t, oo))
            elif oo[0] == 'raw':
                key = 'C23/py/RecursionError/deep-nesting' if oo[1] == 'RecursionError' else 'C23/py/%s@%s' % (oo[1], oo[2])
                if key not in raw_sites or len(t) < len(raw_sites[key][1]):
                    raw_sites[key] = (which, t, oo)
        if posbad:
            ck.violation('C23/py/create_ast/syntax-error-position-outside-text', {'kind': 'py', 'text': t, 'outcome': list(o)},
                         'create_ast(%r) under the stand-in parser: %s' % (t[:80], posbad))
        # history independence: same text, two different histories
        if resA[i][:2] != resB[i][:2] and not limited(resA[i], resB[i]):
            ck.violation(hist_key(t), {'kind': 'py-history', 'text': t, 'after_A': texts[prevA[i]] if prevA[i] is not None else None,
                                                        'after_B': texts[prevB[i]] if prevB[i] is not None else None,
                                                        'outcome_A': show(resA[i]), 'outcome_B': show(resB[i])},
                         'parsing %r gives different results after different earlier parses (Python layer under the stand-in parser)' % t[:80])
    for i, x in zip(fresh_idx, rF):             # ... and a fresh process for a subset
        ck.count(('py-fresh', texts[i]))
        if x[:3] != resA[i][:3] and not limited(x, resA[i]):
            ck.violation(hist_key(texts[i]), {'kind': 'py-history', 'text': texts[i], 'after_A': texts[prevA[i]] if prevA[i] is not None else None,
                                                        'outcome_fresh_process': show(x), 'outcome_A': show(resA[i])},
                         'parsing %r in a fresh process differs from parsing it after other texts' % texts[i][:80])
    for name, before, after in rH:
        ck.count(('py-hier-probe',))
        if before[:3] != after[:3]:
            ck.violation(hist_key(HIER_USE % name), {'kind': 'py-history', 'text': HIER_USE % name, 'after_A': None, 'after_B': HIER_DEF % name,
                                                     'outcome_A': show(before), 'outcome_B': show(after)},
                         'create_ast(%r) gives a different AST after an unrelated earlier create_ast(%r): the module-level registry '
                         'AST/ASTDataExchange.py:de_ruleset_elements is never cleared' % (HIER_USE % name, HIER_DEF % name))
    # a timeout inside the repo's Python layer counts only when it persists alone with a 12x budget (the machine is shared)
    if slow:
        with ctx.Pool(4, initializer=winit_slow) as pool:
            again = pmap(pool, task_fresh, [t for _, t, _ in slow[:8]])
        for (which, t, oo), x in zip(slow, again):
            for oo2 in (x[0], x[2]):
                if oo2[0] == 'raw' and oo2[1] == 'Timeout':
                    raw_sites['C23/py/Timeout@%s' % oo2[2]] = (which, t, oo2)
    notes['py_slow_retried'] = len(slow)
    for key, (which, t, oo) in sorted(raw_sites.items()):
        ck.violation(key, {'kind': 'py', 'text': t if len(t) < 5000 else t[:5000], 'entry': which, 'exception': oo[1], 'site': oo[2], 'message': oo[3]},
                     '%s(%r) raises %s (not a VTLEngineException) at %s: %s' % (which, t[:100], oo[1], oo[2], oo[3][:80]))
    # nesting under the default recursion limit
    nest_out = {}
    for (f, n, t), o in zip(nest_cases, rN):
        ck.count(('nest-default', f, n))
        nest_out['%s/%d' % (f, n)] = o[0] if o[0] != 'raw' else '%s@%s' % (o[1], o[2])
        if o[0] != 'raw' or o[1] == 'Timeout':
            continue
        if n <= NEST_OK:
            ck.violation('C23/py/%s/nesting<=%d-default-recursion-limit' % (o[1], NEST_OK), {'kind': 'py-nest', 'family': f, 'depth': n, 'site': o[2]},
                         'create_ast of a %s expression nested %d deep raises %s under the default recursion limit' % (f, n, o[1]))
        else:
            ck.violation('C23/py/RecursionError/deep-nesting' if o[1] == 'RecursionError' else 'C23/py/%s@%s' % (o[1], o[2]),
                         {'kind': 'py-nest', 'family': f, 'depth': n, 'site': o[2]},
                         'create_ast of a %s expression nested %d deep raises %s (not a VTLEngineException) under CPython\'s default recursion limit' % (f, n, o[1]))
    notes['nesting_default_limit'] = nest_out
    notes['py'] = {'texts': len(texts), 'histories': len(hA) + len(hB), 'fresh_process_parses': len(fresh_idx), 'outcomes': dict(sorted(hist.items())),
                   'stub_limit': stub_limit, 'non_vtl_exception_sites': sorted(raw_sites)}
    for i in rng.sample(range(len(texts)), 3):
        ck.sample({'py': {'family': fam_of[texts[i]], 'text': texts[i][:100], 'outcome': [str(x)[:100] for x in resA[i][0][:4]]}})

    trace('message')
    # ---------------------------------------------------------------- 6. K: VTLSyntaxError message vs Lean `message`
    if lean_msg is not None:
        import eng  # noqa: F401
        from vtlengine.Exceptions import VTLSyntaxError
        md = []
        for (l, c, u, sl, d), a2 in zip(mcases, lean_msg):
            e = VTLSyntaxError(line=l, column=c, detail=d, source_line=sl, underline_length=u)
            ck.count(('synmsg', l, c, u, sl, d))
            if str(e).encode('latin-1') != unhx(a2) or e.lino != str(l) or e.colno != str(c):
                md.append({'args': [l, c, u, sl, d], 'python': str(e), 'lean': unhx(a2).decode('latin-1')})
        notes['synmsg'] = {'cases': len(mcases), 'disagreements': len(md)}
        if md:
            problems.append(('corr', 'correspondence:VTLSyntaxError.message', '%d of %d messages differ from Text.SrcLine.message' % (len(md), len(mcases)), md[:3]))

    trace('verdict')
    # ---------------------------------------------------------------- 7. verdict for broken obligations / disagreements
    # The failing-input search already ran: (3) evaluated the caret predicate on the compiled C++ function,
    # (5) evaluated "AST or VTL error", the position predicate and history independence on the Python layer.
    # A concrete failing input was reported above as a violation; what remains is reported as unproved.
    found_concrete = [v[0] for v in ck.viol if not v[3]]
    state_names = ('doParse_history_free', 'doParse_events_history_free', 'first_error_kept', 'listener_installed', 'statics_accounted',
                   'getters_covered', 'translator:parser_state')
    for kind, name, why, detail in problems:
        extra = ''
        if name in state_names or name.startswith('<'):
            extra = (' — the module state lives in the C++ extension, which cannot be built or run here, so no failing input can be exhibited on the'
                     ' implementation (the Python-layer history test under the stand-in parser cannot observe C++ state); model witness: %s'
                     % json.dumps({k: v for k, v in model.items() if v}, ensure_ascii=False)[:700])
        if found_concrete:
            extra += ' (concrete violations found by the search are reported separately: %s)' % found_concrete
        ck.unproved(name, why + extra, detail={'detail': detail, 'model': model})
    for k, v in notes.items():
        ck.note(k, v)


def replay(ck, path):
    d = json.load(open(path))
    rp = d.get('replay') or {}
    kind = rp.get('kind')
    print('replaying %s (%s)' % (path, d.get('key') or d.get('no_longer_checks')))
    if kind in ('py', 'py-history', 'py-nest'):
        winit()
        if kind == 'py':
            r = task_history([rp['text']])[0]
            print('create_ast:', r[0]); print('create_ast_with_comments:', r[2]); print('position predicate:', r[3])
            if r[0][0] == 'raw' or r[2][0] == 'raw' or r[3]:
                ck.violation(d['key'], rp, d['what'])
        elif kind == 'py-nest':
            o = task_default_limit(NEST[rp['family']](rp['depth']))
            print(o[:3])
            if o[0] == 'raw':
                ck.violation(d['key'], rp, d['what'])
        else:
            a = task_history([x for x in (rp.get('after_A'), rp['text']) if x is not None])[-1]
            b = task_history([x for x in (rp.get('after_B'), rp['text']) if x is not None])[-1]
            print(a[:3]); print(b[:3])
            if a[:3] != b[:3]:
                ck.violation(d['key'], rp, d['what'])
    elif kind == 'srcline':
        import parser_state as tr
        exe = build_cpp(tr.srcline_cpp(REPO))
        t = unhx(rp['text_hex'])
        res, err = run_cpp(exe, [(t, rp['line'], rp['charPositionInLine'] + 1)])
        print('text %r line %d charPositionInLine %d -> %r' % (t, rp['line'], rp['charPositionInLine'], res))
        if res and not (1 <= res[0][1] <= cp_len(res[0][0]) + 1):
            ck.violation(d['key'], rp, d['what'])
    else:
        pr = ck.proof('C23')
        print('proof ok' if pr['ok'] else 'proof still fails: %s' % pr['failed'])
        if not pr['ok']:
            ck.unproved(d.get('no_longer_checks', 'C23'), d.get('why', ''))


def entry(ck):
    if ck.replay_path:
        replay(ck, ck.replay_path)
    else:
        main(ck)


if __name__ == '__main__':
    vlib.run_check('C23', entry)

"""C13 — the dataset load/release schedule is safe and results are selected correctly.

Proof: lean/VtlModel/Props/C13.lean (schedule_safe, results_eq, final_pass_empty over
lean/VtlModel/Dag/{Schedule,Store}.lean).
Tie (correspondence): (a) Lean `usage` == real `DAGAnalyzer.ds_structure` (insertion, deletion,
global_inputs, persistent; exact lists) on every generated shape in the order the real engine chose;
(b) hook event traces of real `run()` calls replayed through the Lean `Store` machine, compared event
by event with the Lean `replay`, and compared at every hook point with the actual DuckDB catalog;
(c) directly on the real run: every table a statement's SQL reads is in the catalog, nothing is left
in the catalog at the end, the returned keys are the persistent / all assignments.
"""
import os
import sys

sys.path.insert(0, os.path.join(os.path.dirname(os.path.abspath(__file__)), '..'))
import vlib  # noqa: E402
import dag_common as dc  # noqa: E402


def valid_shapes(pop):
    for label, shapes in pop.items():
        if label.startswith('general'): continue
        for s in shapes:
            yield label, s


def usage_level(ck, eng, pop):
    """Lean `usage` vs real ds_structure, on the order the real engine chose"""
    quick = ck.quick()
    cases = []
    for label, shape in valid_shapes(pop):
        perms = dc.permutations_of(ck.rng, shape, 2)
        for p in perms[:(2 if quick or len(shape) <= 3 else 1)]:
            cases.append((label, shape, dc.apply_perm(shape, p)))
    real = eng.map(dc.dag_case, [dc.render(c[2]) for c in cases], chunk=64)
    reqs, keep = [], []
    for (label, shape, ps), r in zip(cases, real):
        if r.get('kind') == 'timeout': raise RuntimeError('engine timeout')
        if not r.get('ok') or sorted(r['order']) != sorted(dc.out_name(s[0]) for s in ps):
            continue   # C12's business (valid script rejected / statements lost)
        ro = dc.shape_in_order(ps, r['order'])
        keep.append((ps, ro, r))
        reqs += ['usage ' + dc.lean_script(ro), 'valid ' + dc.lean_script(ro),
                 'replay 1 ' + dc.lean_script(ro), 'replay 0 ' + dc.lean_script(ro)]
    ans = ck.driver('Dag', reqs)
    dis = []
    for i, (ps, ro, r) in enumerate(keep):
        u, valid, rp1, rp0 = ans[4 * i], ans[4 * i + 1], dc.parse_replay(ans[4 * i + 2]), dc.parse_replay(ans[4 * i + 3])
        ck.count(('usage', dc.lean_script(ro)))
        lean_u = dc.parse_usage(u)
        real_u = {k: r['sched'][k] for k in ('insertion', 'deletion', 'global_inputs', 'persistent')}
        real_u['insertion'] = {k: v for k, v in real_u['insertion'].items() if v}
        real_u['deletion'] = {k: v for k, v in real_u['deletion'].items() if v}
        if lean_u != real_u:
            dis.append(('usage-differs-from-ds_structure', dc.render(ro), lean_u, real_u))
        if valid == 'true':
            # executed instances of the theorems (must hold, by schedule_safe / results_eq)
            for rp in (rp1, rp0):
                if not rp['safe'] or sorted(rp['fetched']) != sorted(rp['expected']):
                    dis.append(('lean-replay-unsafe-on-valid-order', dc.render(ro), rp))
        if i % 1499 == 0:
            ck.sample({'script_in_engine_order': dc.render(ro), 'ds_structure': real_u, 'lean_usage': u})
    ck.note('usage_cases', len(keep))
    return dis


def trace_level(ck, eng, pop):
    quick = ck.quick()
    rng = ck.rng
    pick = []
    for label, shapes in pop.items():
        if label.startswith('general'): continue
        k = {'acyclic_exhaustive_n<=3': 60 if quick else 250}.get(label, 30 if quick else 150)
        pick += [(label, s) for s in rng.sample(shapes, min(k, len(shapes)))]
    jobs = []
    for label, shape in pick:
        p = dc.permutations_of(rng, shape, 3)[-1]
        ps = dc.apply_perm(shape, p)
        for rop in (True, False):
            jobs.append((dc.render(ps), dc.inputs_of(shape), rop, True))
    res = eng.map(dc.run_case, jobs)
    # order the engine used = order of the stmt events
    reqs, meta = [], []
    for (script, inputs, rop, _), r, (label, shape) in zip(jobs, res, [x for x in pick for _ in (0, 1)]):
        if r.get('kind') == 'timeout': raise RuntimeError('engine timeout on ' + script)
        evs, results = dc.trace_to_events(r.get('trace') or [])
        order = [t[1] for t in (r.get('trace') or []) if t[0] == 'stmt']
        ro = dc.shape_in_order(shape, order) if sorted(order) == sorted(dc.out_name(s[0]) for s in shape) else None
        meta.append((script, inputs, rop, r, shape, evs, results, ro))
        reqs.append('safe ' + ' '.join(t for t, _ in evs))
        reqs.append('replay %d %s' % (1 if rop else 0, dc.lean_script(ro)) if ro else 'usage -')
    ans = ck.driver('Dag', reqs)
    dis, validated, hist = [], 0, {'events': 0, 'loads': 0, 'drops': 0, 'fetches': 0}
    for i, (script, inputs, rop, r, shape, evs, results, ro) in enumerate(meta):
        safe_ans, rp_ans = ans[2 * i], ans[2 * i + 1]
        ck.count(('trace', script, rop))
        toks = [t for t, _ in evs]
        for t in toks:
            hist['events'] += 1
            if t[0] == 'L': hist['loads'] += 1
            if t[0] == 'D': hist['drops'] += 1
            if t[0] == 'F': hist['fetches'] += 1
        rep = {'script': script, 'inputs': [dc.in_name(k) for k in inputs], 'return_only_persistent': rop,
               'entry': 'run(script, structures, datapoints DS_k: Id_1=1..3, Me_1=5**k*Id_1, return_only_persistent=%s)' % rop,
               'events': toks, 'outcome': {k: v for k, v in r.items() if k != 'trace'}}
        expected = sorted(dc.out_name(s[0]) for s in shape if s[2] or not rop)
        # ---- the property itself, evaluated on the real run
        probs, live_end = dc.py_live_check(evs)
        bad = False
        if not r.get('ok'):
            msg = (r.get('msg') or '')
            if 'does not exist' in msg or 'Catalog Error' in msg or r.get('cls', '').endswith('CatalogException'):
                ck.violation('c13:execute_queries:table-read-after-release-or-before-load', rep, 'run() of a valid script fails in DuckDB: %s' % msg[:160])
            else:
                ck.violation('c13:run:valid-script-fails', rep, 'run() of a valid script fails: %s %s' % (r.get('code') or r.get('cls'), msg[:160]))
            continue
        for pr in probs:
            bad = True
            ck.violation('c13:execute_queries:' + pr[0], dict(rep, problem=pr), 'unsafe history of a real run(): %s at event %s (%s)' % (pr[0], pr[1], pr[2]))
        if results is not None and isinstance(results[1], list) and results[1]:
            bad = True
            ck.violation('c13:execute_queries:tables-left-in-catalog', dict(rep, left=results[1]), 'tables never released: %s' % results[1])
        if sorted(r['results']) != expected:
            bad = True
            ck.violation('c13:run:result-keys', dict(rep, expected=expected), 'run() returns %s, expected %s' % (sorted(r['results']), expected))
        oracle = dc.oracle_values(shape)
        for k, rows in r['results'].items():
            if k in oracle and (rows is None or [round(x[1], 6) for x in rows] != [round(v, 6) for v in oracle[k]]):
                bad = True
                ck.violation('c13:run:result-not-computed-from-full-script', dict(rep, dataset=k, got=rows, expected=oracle[k]), 'returned dataset differs from the evaluation of the full script')
        # ---- replay through the Lean store and comparison with the Lean replay of execute_queries
        if not safe_ans.startswith('ok=true'):
            if not bad:
                dis.append(('lean-store-rejects-real-trace', script, rop, safe_ans, toks))
            continue
        if ro is None:
            dis.append(('stmt-events-not-a-permutation', script, rop, toks)); continue
        rp = dc.parse_replay(rp_ans)
        if dc.norm_events(rp['events']) != dc.norm_events(toks):
            dis.append(('trace-differs-from-lean-replay', script, rop, dc.norm_events(rp['events']), dc.norm_events(toks)))
            continue
        validated += 1
        if i % 211 == 0:
            ck.sample({'script': script, 'rop': rop, 'real_events': ' '.join(toks), 'lean_store': safe_ans, 'returned': sorted(r['results'])})
    ck.cov['traces_validated_against_impl'] = validated
    ck.note('trace_histogram', dict(hist, traces=len(meta)))
    return dis


def search(ck, eng, dis):
    """a disagreement was found but no run of the population violated the property: targeted search
    around the disagreeing scripts (all permutations, both rop values)"""
    import re
    seen = 0
    for d in dis[:30]:
        script = d[1]
        lines = [l for l in script.split('\n') if l.strip()]
        ins = sorted({int(x) for x in re.findall(r'DS_(\d+)', script)})
        import itertools
        perms = list(itertools.permutations(lines))[:24]
        jobs = [('\n'.join(p), ins, rop, True) for p in perms for rop in (True, False)]
        for job, r in zip(jobs, eng.map(dc.run_case, jobs)):
            seen += 1
            evs, results = dc.trace_to_events(r.get('trace') or [])
            probs, _ = dc.py_live_check(evs)
            rep = {'script': job[0], 'inputs': [dc.in_name(k) for k in ins], 'return_only_persistent': job[2],
                   'events': [t for t, _ in evs], 'outcome': {k: v for k, v in r.items() if k != 'trace'}}
            outs_all = sorted(set(re.findall(r'^(DS_r\d+) ', job[0], re.M)))
            pers = sorted(set(re.findall(r'^(DS_r\d+) <-', job[0], re.M)))
            if not r.get('ok'):
                ck.violation('c13:run:valid-script-fails', rep, 'run() fails: %s' % (r.get('msg') or '')[:160])
            elif probs:
                ck.violation('c13:execute_queries:' + probs[0][0], dict(rep, problem=probs[0]), 'unsafe history of a real run()')
            elif results is not None and isinstance(results[1], list) and results[1]:
                ck.violation('c13:execute_queries:tables-left-in-catalog', dict(rep, left=results[1]), 'tables never released')
            elif sorted(r['results']) != (pers if job[2] else outs_all):
                ck.violation('c13:run:result-keys', rep, 'wrong result keys %s' % sorted(r['results']))
    ck.note('search_runs', seen)


def replay(ck, path):
    import json
    import re
    rp = json.load(open(path))['replay']
    s = rp['script']
    dc._init_worker()
    ins = sorted({int(x) for x in re.findall(r'DS_(\d+)', s)})
    print('--- script:\n' + s)
    d = dc.dag_case(s)
    print('ds_structure:', d.get('sched') or d)
    for rop in (True, False):
        r = dc.run_case((s, ins, rop, True))
        evs, results = dc.trace_to_events(r.pop('trace', []))
        print('run(rop=%s): %s' % (rop, {k: (sorted(v) if k == 'results' else v) for k, v in r.items()}))
        print('  events :', ' '.join(t for t, _ in evs))
        print('  problems:', dc.py_live_check(evs)[0], 'catalog at end:', results[1] if results else None)



# external scalar inputs (xsc_k = k + 1) mixed with datasets; DS_k holds Me_1 = 5**k * Id_1 for Id_1 = 1..3
EXTERNAL_SCALAR_SCRIPTS = [
    ('DS_r1 <- xsc_1 + DS_1;', [1], lambda i: 2 + 5 * i),
    ('DS_r1 <- DS_1 + xsc_1;', [1], lambda i: 5 * i + 2),
    ('DS_r2 := DS_1 * 2; DS_r1 <- xsc_1 * DS_r2 + DS_2;', [1, 2], lambda i: 2 * (10 * i) + 25 * i),
    ('DS_r1 <- xsc_1 * DS_1 + xsc_2 * DS_2;', [1, 2], lambda i: 2 * 5 * i + 3 * 25 * i),
    ('DS_r1 <- DS_1[calc Me_1 := Me_1 + xsc_1] + DS_2;', [1, 2], lambda i: 5 * i + 2 + 25 * i),
    ('DS_r2 := xsc_2 - DS_2; DS_r1 <- DS_1 + DS_r2;', [1, 2], lambda i: 5 * i + 3 - 25 * i),
    ('DS_r1 <- xsc_1 + DS_1; DS_r2 <- xsc_1 + DS_2;', [1, 2], lambda i: 2 + 5 * i),
]


def external_scalar_level(ck, eng):
    """a statement's load list also names the external SCALARS it reads: they are not tables, and every dataset of the
    list must still be loaded before the statement runs (the schedule is executed by load_scheduled_datasets)."""
    jobs = [(s, inp, True, False) for s, inp, _ in EXTERNAL_SCALAR_SCRIPTS]
    res = eng.map(dc.run_case, jobs)
    for (script, inp, f), r in zip(EXTERNAL_SCALAR_SCRIPTS, res):
        ck.count(('external-scalars', script))
        rep = {'script': script, 'inputs': [dc.in_name(k) for k in inp], 'scalar_values': 'xsc_k = k + 1',
               'entry': 'run(script, structures + scalars, datapoints DS_k: Id_1=1..3, Me_1=5**k*Id_1, scalar_values)',
               'outcome': {k: v for k, v in r.items() if k != 'trace'}}
        if r.get('kind') == 'timeout':
            raise RuntimeError('engine timeout on ' + script)
        if not r.get('ok'):
            ck.violation('c13:external-scalars:valid-script-fails', rep,
                         'run() of a valid script that reads an external scalar fails: %s' % (r.get('code') or r.get('msg')))
            continue
        got = r['results'].get('DS_r1')
        exp = [(i, float(f(i))) for i in (1, 2, 3)]
        if got is None or len(got) != 3 or any(a[0] != b[0] or a[1] is None or abs(a[1] - b[1]) > 1e-9 * max(1.0, abs(b[1])) for a, b in zip(got, exp)):
            ck.violation('c13:external-scalars:wrong-result', dict(rep, expected=exp), 'DS_r1 differs from the value of the script')
    ck.note('external_scalar_level', {'scripts': len(EXTERNAL_SCALAR_SCRIPTS)})


def main(ck):
    if ck.replay_path:
        replay(ck, ck.replay_path); return
    pr = ck.proof('C13')
    ck.trusted('hook events of src/vtlengine/_verif.py (load / stmt / drop / fetch / results) and the DuckDB catalog read through duckdb_tables() at every hook point',
               'duckdb get_table_names(sql) for the tables a statement reads',
               'stand-in parser harness/vtlstub for the generated scripts',
               'hand-written models lean/VtlModel/Dag/Schedule.lean (usage) and Store.lean (replay) tied by correspondence')
    ck.assumptions.append('one SQL query per top-level statement, executed in the order of the sorted AST (checked: stmt events are a permutation of the assignments)')
    ck.assumptions.append('every global input is declared in data_structures (otherwise run() fails before execute_queries)')
    pop = dc.gen_shapes(ck, ck.quick())
    ck.note('population', {k: len(v) for k, v in pop.items()})
    eng = dc.Engine()
    import time
    try:
        t0 = time.time()
        dis = usage_level(ck, eng, pop)
        t1 = time.time()
        dis += trace_level(ck, eng, pop)
        external_scalar_level(ck, eng)
        t2 = time.time()
        if dis and not ck.viol:
            search(ck, eng, dis)
        ck.note('phase_seconds', {'usage_level': round(t1 - t0, 1), 'trace_level': round(t2 - t1, 1), 'search': round(time.time() - t2, 1)})
        if not pr['ok'] and not ck.viol:
            ck.unproved('lake build VtlModel.Props.C13', 'proof / audit failed: %s %s %s' % (pr['failed'], pr['forbidden'], pr['bad_axioms']), pr['log'][-1500:])
        if dis and not ck.viol:
            ck.unproved('correspondence:' + dis[0][0], '%d disagreements, first: %r' % (len(dis), dis[0]), dis[:5])
        elif dis:
            ck.note('disagreements', sorted({d[0] for d in dis}))
    finally:
        eng.close()


vlib.run_check('C13', main)

"""C30 — numeric precision settings are validated and applied as documented.

Proof: lean/VtlModel/Props/C30.lean over Gen/ConfigBounds.lean (regenerated here: constants, the body of
       set_decimal_config transcribed from its Python ast, get_decimal_type, the documented ranges).
Tie:   translator + correspondence:
       * every pair in (-5..45 ∪ unset)² against the real set_decimal_config (globals restored between calls),
         plus random call sequences WITHOUT restoring (what a failed / earlier call leaves behind);
       * generated Number literals (all digits used, ties, overflow) loaded through real DuckDB with
         get_decimal_type(), and through run() (CSV input, CSV output = exact decimal text), sums and differences.
"""
import json
import os
import signal
import sys
import tempfile
import time
from decimal import Decimal, getcontext

getcontext().prec = 400

sys.path.insert(0, os.path.join(os.path.dirname(os.path.abspath(__file__)), '..'))
sys.path.insert(0, os.path.join(os.path.dirname(os.path.abspath(__file__)), '..', 'translate'))
import vlib
import config_bounds

WVAR, SVAR = 'VTL_DUCKDB_DECIMAL_WIDTH', 'OUTPUT_NUMBER_SIGNIFICANT_DIGITS'


class Timeout(Exception):
    pass


def guarded(fn, secs=120):
    def h(sig, frm): raise Timeout()
    old = signal.signal(signal.SIGALRM, h)
    signal.alarm(secs)
    try:
        return fn()
    finally:
        signal.alarm(0); signal.signal(signal.SIGALRM, old)


# ----------------------------------------------------------------------------- real set_decimal_config
def set_env(w, s):
    for k, v in ((WVAR, w), (SVAR, s)):
        if v is None: os.environ.pop(k, None)
        else: os.environ[k] = str(v)


def call_real(C, w, s, before=None):
    """one call of the real set_decimal_config; `before` = module globals to start from (None = leave as is).
    returns (w', s', 'ok' | ('err', env_var, value-from-message, code), type string)"""
    from vtlengine.Exceptions import RunTimeError
    if before is not None:
        C.DECIMAL_WIDTH, C.DECIMAL_SCALE = before
    set_env(w, s)
    try:
        C.set_decimal_config()
        res = 'ok'
    except RunTimeError as e:
        msg = str(e.args[0]) if e.args else str(e)
        code = e.args[1] if len(e.args) > 1 else None
        res = ('err', msg, code)
    except Exception as e:  # noqa
        res = ('raw', type(e).__name__, str(e)[:200])
    finally:
        set_env(None, None)
    return C.DECIMAL_WIDTH, C.DECIMAL_SCALE, res, C.get_decimal_type()


def fmt_opt(v): return '_' if v is None else str(v)


def lead0(t):
    """DuckDB prints DECIMAL(w,w) values without the leading zero ('.5', '-.5'); canonical text has it"""
    if t is None: return t
    if t.startswith('.'): return '0' + t
    if t.startswith('-.'): return '-0' + t[1:]
    return t


# ----------------------------------------------------------------------------- run() worker (subprocess pool)
_W = {}


def _winit(repo):
    os.environ['VERIF_REPO'] = repo
    sys.path.insert(0, os.path.join(os.path.dirname(os.path.abspath(__file__)), '..'))
    import eng
    from vtlengine import run
    from vtlengine.duckdb_transpiler.Config import config as C
    _W.update(eng=eng, run=run, C=C)


def _wtask(task):
    """task = (w, s, rows [(lit1, lit2)], script) -> (outcome kind, detail, {id: [cells]})"""
    w, s, rows, script = task[:4]
    form = task[4] if len(task) > 4 else 'csv'
    eng, run, C = _W['eng'], _W['run'], _W['C']
    C.DECIMAL_WIDTH, C.DECIMAL_SCALE = C.DEFAULT_DECIMAL_WIDTH, C.DEFAULT_DECIMAL_SCALE
    set_env(w, s)
    d = tempfile.mkdtemp(prefix='c30_')
    try:
        p = os.path.join(d, 'DS_1.csv')
        with open(p, 'w') as f:
            f.write('Id_1,Me_1,Me_2\n' + ''.join('%d,%s,%s\n' % (i, a, b) for i, (a, b) in enumerate(rows)))
        out = os.path.join(d, 'out'); os.mkdir(out)
        ds = eng.structures(eng.structure('DS_1', [eng.comp('Id_1', 'Integer', 'Identifier'), eng.comp('Me_1', 'Number', 'Measure'),
                                                   eng.comp('Me_2', 'Number', 'Measure')]))
        signal.alarm(150)
        try:
            if form == 'df':       # the same numbers as a float64 DataFrame column
                import pandas as pd
                dp = {'DS_1': pd.DataFrame({'Id_1': list(range(len(rows))), 'Me_1': [float(a) for a, _ in rows], 'Me_2': [float(b) for _, b in rows]})}
            else:
                dp = {'DS_1': p}
            r = eng.outcome(run, script, ds, dp, output_folder=out)
        finally:
            signal.alarm(0)
        cells = {}
        fp = os.path.join(out, 'DS_r.csv')
        if r[0] == 'ok' and os.path.exists(fp):
            lines = open(fp).read().strip().split('\n')
            hdr = lines[0].split(',')
            for ln in lines[1:]:
                parts = ln.split(',')
                cells[int(parts[0])] = dict(zip(hdr[1:], [lead0(x) for x in parts[1:]]))
        return (r[0], [str(x)[:300] for x in r[1:]] if r[0] != 'ok' else None, cells, C.get_decimal_type())
    except BaseException as e:  # noqa
        return ('harness', [type(e).__name__, str(e)[:200]], {}, None)
    finally:
        set_env(None, None)
        import shutil
        shutil.rmtree(d, ignore_errors=True)


# ----------------------------------------------------------------------------- literals
def lit_to_me(lit):
    """decimal literal text -> (m, e) with value m / 10^e"""
    d = Decimal(lit)
    sign, digits, exp = d.as_tuple()
    m = int(''.join(map(str, digits))) * (-1 if sign else 1)
    if exp >= 0: return m * 10 ** exp, 0
    return m, -exp


def gen_literals(rng, w, s, n):
    """Number literals around the limits of DECIMAL(w,s) (w >= s)"""
    ip = w - s
    out = []
    nine_i = '9' * ip if ip else '0'
    out += [nine_i + '.' + '9' * s,                    # all digits used
            '-' + nine_i + '.' + '9' * s,
            nine_i + '.' + '9' * s + '4',              # rounds down, still fits
            nine_i + '.' + '9' * s + '5',              # rounds up to 10^ip: overflow
            '-' + nine_i + '.' + '9' * s + '5',
            '1' + '0' * ip,                            # one integer digit too many
            '0.' + '0' * s + '5', '-0.' + '0' * s + '5', '0.' + '0' * s + '49', '0', '-0.0']
    if ip >= 1:
        # exponent notation only where the mantissa's integer digit fits: DuckDB checks the mantissa against the
        # integer width before applying the exponent ('1.5e-6' is refused by DECIMAL(6,6), '15e-7' by DECIMAL(7,6))
        out += ['1e%d' % max(ip - 1, 0), '1e%d' % ip, '1.5e-%d' % s, '2.5e-%d' % (s + 1)]
    for _ in range(n):
        k = rng.random()
        idig = rng.randint(0, ip + (1 if k < 0.15 else 0))
        fdig = rng.choice([0, 1, s - 1, s, s + 1, s + 2, s + 5])
        a = ''.join(rng.choice('0123456789') for _ in range(idig)).lstrip('0') or '0'
        b = ''.join(rng.choice('0123456789') for _ in range(fdig))
        if fdig > s and rng.random() < 0.5:               # exact tie / just below at the rounding position
            b = b[:s] + rng.choice(['5', '50', '49', '4999999', '5000001'])
        out.append(('-' if rng.random() < 0.4 else '') + a + ('.' + b if b else ''))
    return out


def main(ck):
    T = [time.time()]; phases = {}
    def lap(n):
        phases[n] = round(time.time() - T[0], 1); T[0] = time.time(); ck.note('phase_seconds', phases)
    # ------------------------------------------------------------------ 1. translator + proof
    try:
        text, digest = config_bounds.translate(vlib.REPO)
    except vlib.ShapeError as e:
        text = None
        ck.unproved('translator:config_bounds', 'source no longer has the shape the translator knows: %s' % e)
    if text is not None:
        ck.gen('ConfigBounds', text)
        ck.note('translator_digest', digest)
    pr = ck.proof('C30') if text is not None else {'ok': False, 'failed': ['<no Gen/ConfigBounds.lean>'], 'log': ''}
    lap('translate+proof')
    ck.trusted('translator harness/translate/config_bounds.py (statement-by-statement transcription of set_decimal_config; doc tables)',
               'DuckDB (string/CSV -> DECIMAL rounding half away from zero, width check, DECIMAL(w,s) ± DECIMAL(w,s) in DECIMAL(w+1,s) except at widths 18 and 38 where the width stays and overflow is an error, '
               'COPY TO csv prints DECIMAL exactly) — modelled in Tables/Decimal.lean, compared on every run, not verified',
               'conversion of returned DECIMAL values to float64 by DuckDB/pandas (outside the model; exact text is compared through CSV output)',
               'Lean driver Drivers/Tables.lean + this harness')
    ck.assumptions.append('environment values are integers (int() of a non-integer string raises ValueError before any check: out of the property\'s scope)')
    ck.assumptions.append('exponent-notation literals are compared only when the mantissa has at most w-s integer digits (DuckDB quirk: the mantissa is '
                          'checked against the integer width before the exponent is applied; e.g. 1.5e-6 is refused by DECIMAL(6,6))')
    ck.assumptions.append('DuckDB accepts DECIMAL(w,s) iff 1 <= w <= 38 and 0 <= s <= w (ValidDuckDecimal); confirmed on every accepted setting of the exhaustive sweep')

    import eng  # noqa
    import duckdb
    from vtlengine.duckdb_transpiler.Config import config as C
    dflt = (C.DEFAULT_DECIMAL_WIDTH, C.DEFAULT_DECIMAL_SCALE)
    doc = digest['doc'] if text is not None else None

    # ------------------------------------------------------------------ 2. exhaustive sweep of set_decimal_config
    vals = [None] + list(range(-5, 46))
    pairs = [(w, s) for w in vals for s in vals]
    lines = ['setdec %s %s %d %d' % (fmt_opt(w), fmt_opt(s), dflt[0], dflt[1]) for w, s in pairs]
    # random sequences without restoring the globals in between
    rng = ck.rng
    nseq = 40 if ck.quick() else 400
    seqs = []
    for _ in range(nseq):
        seq = []
        for _ in range(rng.randint(2, 6)):
            pick = lambda lo, hi: rng.choice([None, None, rng.randint(-5, 45), rng.randint(lo, hi), -1])
            seq.append((pick(6, 38), pick(6, 15)))
        seqs.append(seq)
    real_sweep = [call_real(C, w, s, before=dflt) for w, s in pairs]
    real_seq = []
    for seq in seqs:
        C.DECIMAL_WIDTH, C.DECIMAL_SCALE = dflt
        st = dflt
        steps = []
        for w, s in seq:
            r = call_real(C, w, s)
            steps.append((st, (w, s), r))
            st = (r[0], r[1])
        real_seq.append(steps)
    C.DECIMAL_WIDTH, C.DECIMAL_SCALE = dflt
    seq_lines = ['setdec %s %s %d %d' % (fmt_opt(w), fmt_opt(s), st[0], st[1]) for steps in real_seq for st, (w, s), _ in steps]
    lap('real set_decimal_config')

    def doc_ok(v, d):
        return v == d['disable'] or d['min'] <= v <= d['max']

    def canon_real(r):
        w2, s2, res, typ = r
        if res == 'ok': return '%d %d ok %s' % (w2, s2, typ)
        if res[0] == 'err':
            import re
            m = re.match(r'Invalid value for (\S+): (-?\d+)\. Expected an integer between (-?\d+) and (-?\d+), or (-?\d+) to disable\.', res[1])
            if m and res[2] == '0-4-1-1':
                return '%d %d err %s %s %s %s %s' % ((w2, s2) + m.groups())
            return '%d %d err? %r' % (w2, s2, res)
        return '%d %d raw %r' % (w2, s2, res)

    # ------------------------------------------------------------------ 3. literals: model vs DuckDB
    accepted = sorted({(r[0], r[1]) for r in real_sweep if r[2] == 'ok'})
    usable, unusable = [], []
    con = duckdb.connect()
    for (w2, s2) in accepted:
        try:
            con.execute('SELECT CAST(0 AS DECIMAL(%d,%d))' % (w2, s2)).fetchall()
            usable.append((w2, s2))
        except Exception as e:  # noqa
            unusable.append((w2, s2, type(e).__name__, str(e)[:120]))
    ck.note('accepted_settings', {'distinct': len(accepted), 'usable_in_duckdb': len(usable), 'unusable': len(unusable)})
    nset = 8 if ck.quick() else 48
    corner = [x for x in [(28, 10), (38, 15), (6, 6), (38, 6), (15, 15), (16, 15), (10, 6), (29, 10)] if x in usable]
    chosen = corner + rng.sample([x for x in usable if x not in corner], max(0, min(nset - len(corner), len(usable) - len(corner))))
    nlit = 12 if ck.quick() else 40
    lit_cases = []      # (w, s, literal)
    for (w2, s2) in chosen:
        for lit in gen_literals(rng, w2, s2, nlit):
            lit_cases.append((w2, s2, lit))
    load_lines = []
    for w2, s2, lit in lit_cases:
        m, e = lit_to_me(lit)
        load_lines.append('load %d %d %d %d' % (w2, s2, m, e))
    witness_lines = ['setdec 45 _ %d %d' % dflt, 'setdec 6 10 %d %d' % dflt, 'setdec 30 _ %d %d' % dflt, 'setdec _ _ 30 %d' % dflt[1],
                     'setdec 3 _ %d %d' % dflt, 'setdec _ _ 3 %d' % dflt[1]]
    # tasks for run(): chosen here (before the single driver call) with exact Python rounding as the oracle
    def py_load(w2, s2, lit):
        q = Decimal(lit).quantize(Decimal(1).scaleb(-s2), rounding='ROUND_HALF_UP')
        return int(q.scaleb(s2)) if abs(q) < Decimal(10) ** (w2 - s2) else None
    tasks, meta = [], []
    per = 6 if ck.quick() else 10
    arith_lines, arith_idx = [], []
    for (w2, s2) in chosen:
        lits = [l for (a, b, l) in lit_cases if (a, b) == (w2, s2)]
        good = [l for l in lits if py_load(w2, s2, l) is not None]
        bad = [l for l in lits if py_load(w2, s2, l) is None]
        rows = [(rng.choice(good), rng.choice(good)) for _ in range(per)]
        rows.append((good[0], good[0])); rows.append((good[1], good[0]))         # max + max, -max - max
        ti = len(tasks)
        tasks.append((w2, s2, rows, 'DS_r <- DS_1[calc Me_3 := Me_1 + Me_2, Me_4 := Me_1 - Me_2];')); meta.append(('arith', w2, s2, rows))
        for ri, (a, b) in enumerate(rows):
            ia, ib = py_load(w2, s2, a), py_load(w2, s2, b)
            arith_lines += ['add 38 %d %d %d %d' % (w2, s2, ia, ib), 'sub 38 %d %d %d %d' % (w2, s2, ia, ib)]
            arith_idx.append((ti, ri))
        if bad:
            tasks.append((w2, s2, [(bad[0], '1')], 'DS_r <- DS_1;')); meta.append(('overflow', w2, s2, [(bad[0], '1')]))
    try:
        ans = ck.driver('Tables', lines + seq_lines + load_lines + witness_lines + arith_lines)
    except (vlib.DriverError, FileNotFoundError) as e:
        ans = None
        ck.unproved('driver:Tables', 'Lean model does not build / run: %s' % str(e)[-600:])
    lap('driver')

    disagree = []
    # 2b. compare sweep + property predicate on the real outcomes
    stats = {'accepted': 0, 'rejected': 0, 'seq_steps': len(seq_lines)}
    for i, ((w, s), r) in enumerate(zip(pairs, real_sweep)):
        real = canon_real(r)
        ck.count(('sweep', w, s))
        if ans and ans[i] != real:
            disagree.append({'call': lines[i], 'model': ans[i], 'real': real})
        if r[2] == 'ok': stats['accepted'] += 1
        else: stats['rejected'] += 1
        if doc is not None:
            ew = dflt[0] if w is None else w
            es = dflt[1] if s is None else s
            should = doc_ok(ew, doc[WVAR]) and doc_ok(es, doc[SVAR])
            if r[2] == 'ok' and not should:
                kind = 'width-above-documented-maximum' if ew > doc[WVAR]['max'] else ('width' if not doc_ok(ew, doc[WVAR]) else 'scale')
                ck.violation('set_decimal_config:accepts-undocumented-value:%s' % kind,
                             {'env': {WVAR: w, SVAR: s}, 'globals_before': dflt, 'result': real},
                             '%s=%s %s=%s is accepted (-> %s) although outside the documented range' % (WVAR, w, SVAR, s, r[3]))
            if r[2] != 'ok' and should:
                ck.violation('set_decimal_config:rejects-documented-value', {'env': {WVAR: w, SVAR: s}, 'globals_before': dflt, 'result': real},
                             'documented setting %s=%s %s=%s is rejected' % (WVAR, w, SVAR, s))
            if r[2] not in ('ok',) and r[2][0] != 'err':
                ck.violation('set_decimal_config:unexpected-exception', {'env': {WVAR: w, SVAR: s}, 'result': real}, 'not the documented configuration error')
    ck.sample({'sweep_example': [lines[700], ans[700] if ans else None, canon_real(real_sweep[700])]})
    off = len(lines)
    j = 0
    for steps in real_seq:
        for st, (w, s), r in steps:
            real = canon_real(r)
            ck.count(('seq', st, w, s))
            if ans and ans[off + j] != real:
                disagree.append({'call': seq_lines[j], 'model': ans[off + j], 'real': real})
            j += 1
    ck.note('sweep', stats)
    # accepted but unusable DECIMAL types
    for (w2, s2, en, msg) in unusable:
        kind = 'width-above-38' if w2 > 38 else ('scale-above-width' if s2 > w2 else 'other')
        ck.violation('set_decimal_config:accepted-setting-unusable-in-duckdb:%s' % kind,
                     {'decimal_type': 'DECIMAL(%d,%d)' % (w2, s2), 'duckdb_error': [en, msg]},
                     'accepted setting yields DECIMAL(%d,%d), which DuckDB rejects (%s) — every run() under it fails with a raw %s' % (w2, s2, msg, en))
    # "not defined -> default", and what an earlier call leaves behind
    C.DECIMAL_WIDTH, C.DECIMAL_SCALE = dflt
    a = call_real(C, 30, None); b = call_real(C, None, None)
    if a[2] == 'ok' and (b[0], b[1]) != dflt:
        ck.violation('set_decimal_config:unset-variable-keeps-previous-value',
                     {'calls': [{WVAR: 30}, {}], 'globals_after_second_call': [b[0], b[1]], 'documented_default': list(dflt)},
                     'after a run with %s=30, a run with the variable unset uses width %d instead of the documented default %d' % (WVAR, b[0], dflt[0]))
    C.DECIMAL_WIDTH, C.DECIMAL_SCALE = dflt
    a = call_real(C, 3, None); b = call_real(C, None, None)
    if a[2] != 'ok' and b[2] != 'ok':
        ck.violation('set_decimal_config:rejected-value-poisons-later-calls',
                     {'calls': [{WVAR: 3}, {}], 'second_call': canon_real(b)},
                     'after a rejected %s=3 the module globals keep 3: every later call with the variable unset is rejected too' % WVAR)
    C.DECIMAL_WIDTH, C.DECIMAL_SCALE = dflt
    ck.count('unset-default'); ck.count('poison')

    # 3b. literals through DuckDB directly
    load_off = len(lines) + len(seq_lines)
    lstats = {'stored': 0, 'rejected': 0, 'settings': len(chosen)}
    model_load = {}
    for k, (w2, s2, lit) in enumerate(lit_cases):
        ck.count(('lit', w2, s2, lit))
        C.DECIMAL_WIDTH, C.DECIMAL_SCALE = dflt
        r = call_real(C, w2, s2)
        typ = r[3]
        try:
            v = con.execute("SELECT CAST(CAST('%s' AS %s) AS VARCHAR)" % (lit, typ)).fetchone()[0]
            real = 'some ' + lead0(v)
            lstats['stored'] += 1
        except duckdb.Error:
            real = 'none'
            lstats['rejected'] += 1
        if ans:
            model_load[(w2, s2, lit)] = ans[load_off + k]
            if ans[load_off + k] != real:
                disagree.append({'call': load_lines[k], 'literal': lit, 'type': typ, 'model': ans[load_off + k], 'real': real})
        # the property's own predicate, independent of the Lean model: exact rounding with Python's Decimal
        q = Decimal(lit).quantize(Decimal(1).scaleb(-s2), rounding='ROUND_HALF_UP')
        fits = abs(q) < Decimal(10) ** (w2 - s2)
        exp = ('some ' + format(q, 'f')) if fits else 'none'
        if exp.startswith('some -') and q == 0: exp = 'some ' + format(abs(q), 'f')
        if real != exp:
            ck.violation('duckdb-load:%s' % ('value-not-rounded-half-away' if real != 'none' and exp != 'none' else 'fit-check-differs'),
                         {'type': typ, 'literal': lit, 'stored': real, 'expected': exp},
                         'Number %s in %s: stored %s, exact rounding gives %s' % (lit, typ, real, exp))
    C.DECIMAL_WIDTH, C.DECIMAL_SCALE = dflt
    ck.note('literals', lstats)
    ck.sample({'load_example': [load_lines[3], lit_cases[3][2], ans[load_off + 3] if ans else None]})
    lap('duckdb literals')

    # ------------------------------------------------------------------ 4. through run(): CSV in, CSV out, sums / differences
    import multiprocessing as mp
    # settings given as disable value / unset, and the witnesses of the two acceptance defects
    # float64 DataFrame input: numbers with at most 15 significant digits are exactly the decimal their shortest repr shows,
    # so they must be stored (and added / subtracted) like the same numbers read from CSV text
    for (w3, s3) in [(None, None), (28, 8), (38, 12)]:
        sc = dflt[1] if s3 is None else s3
        rows_df = [('665911.56', '665911'), ('90540995.8621', '90540995'), ('123456.789', '0.001'), ('1234567.25', '0.75'), ('0.1', '0.2')]
        for _ in range(12 if ck.quick() else 60):
            ip = rng.choice([5, 6, 7, 8, 9])
            fd = rng.choice([1, 2, 3, 4])
            a = str(rng.randint(10 ** (ip - 1), 10 ** ip - 1)) + '.' + ''.join(rng.choice('0123456789') for _ in range(fd - 1)) + rng.choice('123456789')
            rows_df.append((a, a.split('.')[0]))
        tasks.append((w3, s3, rows_df, 'DS_r <- DS_1[calc Me_3 := Me_1 + Me_2, Me_4 := Me_1 - Me_2];', 'df')); meta.append(('df-arith', None, sc, rows_df))
    tasks.append((-1, -1, [('1.0000000000000005', '2')], 'DS_r <- DS_1;')); meta.append(('disable', 38, 15, [('1.0000000000000005', '2')]))
    tasks.append((None, None, [('0.12345678905', '2')], 'DS_r <- DS_1;')); meta.append(('unset', dflt[0], dflt[1], [('0.12345678905', '2')]))
    tasks.append((45, None, [('0.5', '2')], 'DS_r <- DS_1;')); meta.append(('witness45', None, None, None))
    tasks.append((6, 10, [('0.5', '2')], 'DS_r <- DS_1;')); meta.append(('witness6_10', None, None, None))
    tasks.append((3, None, [('0.5', '2')], 'DS_r <- DS_1;')); meta.append(('reject3', None, None, None))
    ctx = mp.get_context('spawn')
    os.environ['VERIF_SHARED_LEAN'] = '1'      # spawned workers re-import this module (and vlib): they must not re-sync the private Lean copy
    with ctx.Pool(min(8, max(2, len(tasks) // 3)), initializer=_winit, initargs=(vlib.REPO,)) as pool:
        results = pool.map(_wtask, tasks, chunksize=1)
    os.environ.pop('VERIF_SHARED_LEAN', None)
    lap('run()')
    aans = ans[load_off + len(load_lines) + len(witness_lines):] if ans else None
    rstats = {'runs': len(tasks), 'ok': 0, 'errors': {}, 'cells_compared': 0, 'overflow_rejected': 0}
    for ti, ((kind, w2, s2, rows), res) in enumerate(zip(meta, results)):
        rk, det, cells, typ = res
        ck.count(('run', kind, w2, s2, str(rows)[:80]))
        if rk == 'ok': rstats['ok'] += 1
        else: rstats['errors'][det[0] if det else rk] = rstats['errors'].get(det[0] if det else rk, 0) + 1
        if rk == 'harness':
            ck.unproved('harness:run-worker', 'worker failed: %r' % (det,)); continue
        if kind in ('arith', 'disable', 'unset'):
            # which rows does the model expect to overflow in the addition / subtraction?
            exp_rows = {}
            overflow = False
            for ri, (a, b) in enumerate(rows):
                pt = lambda x: format(abs(Decimal(x).quantize(Decimal(1).scaleb(-s2), rounding='ROUND_HALF_UP')) if Decimal(x).quantize(Decimal(1).scaleb(-s2), rounding='ROUND_HALF_UP') == 0 else Decimal(x).quantize(Decimal(1).scaleb(-s2), rounding='ROUND_HALF_UP'), 'f')
                e = {'Me_1': pt(a), 'Me_2': pt(b)}
                if kind == 'arith' and aans is not None:
                    k = arith_idx.index((ti, ri))
                    ad, sb = aans[2 * k], aans[2 * k + 1]
                    if ad == 'none' or sb == 'none': overflow = True
                    e['Me_3'], e['Me_4'] = ad[5:], sb[5:]
                exp_rows[ri] = e
            if kind in ('disable', 'unset'):
                q = [Decimal(x).quantize(Decimal(1).scaleb(-s2), rounding='ROUND_HALF_UP') for x in rows[0]]
                exp_rows = {0: {'Me_1': format(q[0], 'f'), 'Me_2': format(q[1], 'f')}}
                if typ != 'DECIMAL(%d,%d)' % (w2, s2):
                    ck.violation('run:setting-%s-not-applied' % kind, {'task': tasks[ti][:2], 'type': typ},
                                 'variables %s: DECIMAL type is %s, documented DECIMAL(%d,%d)' % (kind, typ, w2, s2))
            if overflow:
                if rk == 'ok':
                    ck.violation('run:overflowing-sum-not-rejected', {'setting': [w2, s2], 'rows': rows, 'cells': cells},
                                 'a sum/difference beyond 38 digits came back as a value')
                continue
            if rk != 'ok':
                ck.violation('run:fails-under-accepted-setting:%s' % (det[0] if det else '?'), {'setting': tasks[ti][:2], 'rows': rows, 'outcome': det},
                             'run() fails under an accepted, usable setting')
                continue
            for ri, e in exp_rows.items():
                got = cells.get(ri, {})
                for col, v in e.items():
                    rstats['cells_compared'] += 1
                    if got.get(col) != v:
                        if col in ('Me_1', 'Me_2'):
                            ck.violation('run:stored-number-not-rounded-to-scale', {'setting': [w2, s2], 'input': rows[ri], 'column': col, 'output': got.get(col), 'expected': v},
                                         'run() output %s, exact rounding at scale %s gives %s' % (got.get(col), s2, v))
                        else:
                            ck.violation('run:sum-or-difference-not-exact', {'setting': [w2, s2], 'input': rows[ri], 'column': col, 'output': got.get(col), 'expected': v},
                                         '%s of %s: run() gives %s, exact decimal arithmetic %s' % ('sum' if col == 'Me_3' else 'difference', rows[ri], got.get(col), v))
        elif kind == 'df-arith':
            if rk != 'ok':
                ck.violation('run:fails-under-accepted-setting:%s' % (det[0] if det else '?'), {'setting': tasks[ti][:2], 'rows': rows, 'outcome': det, 'input_form': 'float64 DataFrame'},
                             'run() on a float64 DataFrame fails under an accepted, usable setting')
                continue
            qz = lambda x: Decimal(x).quantize(Decimal(1).scaleb(-s2), rounding='ROUND_HALF_UP')      # noqa: E731
            fm = lambda d: format(abs(d) if d == 0 else d, 'f')                                            # noqa: E731
            for ri, (a, b) in enumerate(rows):
                e = {'Me_1': fm(qz(a)), 'Me_2': fm(qz(b)), 'Me_3': fm(qz(a) + qz(b)), 'Me_4': fm(qz(a) - qz(b))}
                got = cells.get(ri, {})
                for col, v in e.items():
                    rstats['cells_compared'] += 1
                    if got.get(col) is None or Decimal(got.get(col)) != Decimal(v):
                        ck.violation('run:dataframe-float-input:%s' % ('stored-number-not-rounded-to-scale' if col in ('Me_1', 'Me_2') else 'sum-or-difference-not-exact'),
                                     {'setting': tasks[ti][:2], 'input': rows[ri], 'input_form': 'float64 DataFrame', 'column': col, 'output': got.get(col), 'expected': v},
                                     'float64 DataFrame input %s: column %s is %s, exact decimal arithmetic at scale %s gives %s' % (rows[ri], col, got.get(col), s2, v))
                        break
        elif kind == 'overflow':
            if rk == 'ok':
                ck.violation('run:value-beyond-precision-accepted', {'setting': [w2, s2], 'input': rows, 'cells': cells},
                             'a Number that does not fit DECIMAL(%d,%d) was stored' % (w2, s2))
            elif not (rk == 'vtl' and det and det[0] == 'DataLoadError'):
                ck.note('overflow_error_kind', det[:2] if det else rk)
            else:
                rstats['overflow_rejected'] += 1
        elif kind == 'witness45':
            if rk != 'vtl' or not det or det[0] != 'RunTimeError':
                ck.violation('set_decimal_config:accepts-undocumented-value:width-above-documented-maximum',
                             {'env': {WVAR: 45}, 'run_outcome': [rk, det]}, 'run() under %s=45 is not rejected with the configuration error: %r' % (WVAR, det))
        elif kind == 'witness6_10':
            if rk != 'ok' and not (rk == 'vtl' and det and det[0] == 'RunTimeError'):
                ck.violation('set_decimal_config:accepted-setting-unusable-in-duckdb:scale-above-width',
                             {'env': {WVAR: 6, SVAR: 10}, 'run_outcome': [rk, det]},
                             'run() under the documented setting width 6 / scale 10 fails with %r' % (det,))
        elif kind == 'reject3':
            if not (rk == 'vtl' and det and det[0] == 'RunTimeError' and det[1] == '0-4-1-1'):
                ck.violation('run:undocumented-setting-not-rejected-with-0-4-1-1', {'env': {WVAR: 3}, 'run_outcome': [rk, det]},
                             'run() under %s=3: %r' % (WVAR, det))
    ck.note('run', rstats)
    ck.cov['traces_validated_against_impl'] = len(pairs) + len(seq_lines) + len(lit_cases) + len(tasks)

    # ------------------------------------------------------------------ 5. verdicts
    if ans:
        w = ans[load_off + len(load_lines):load_off + len(load_lines) + len(witness_lines)]
        ck.note('full_or_counter', {
            'accept_iff_doc_ranges': 'counter (width 45 accepted)' if ' ok ' in w[0] else 'full statement',
            'accepted_type_valid': 'counter (DECIMAL(6,10) accepted)' if ' ok ' in w[1] else 'full statement',
            'unset_uses_default': 'counter' if (w[3].startswith('30 ') or ' err ' in w[5]) else 'full statement'})
    if disagree:
        ck.note('disagreements', disagree[:5])
        if not ck.viol:
            ck.unproved('correspondence:setDecimalConfig/load', '%d disagreements between the Lean model and the real code; first: %s'
                        % (len(disagree), json.dumps(disagree[0])), disagree[:10])
    if not pr['ok'] and not ck.viol:
        for t in (pr.get('failed') or ['<build>']):
            ck.unproved(t, 'Props/C30.lean no longer checks (%s); the exhaustive sweep and %d literals found no violation of the property'
                        % ('; '.join(pr.get('forbidden', []) + pr.get('bad_axioms', [])) or 'lake build failed', len(lit_cases)), pr.get('log', '')[-1500:])


def replay(path):
    rep = json.load(open(path))
    r = rep.get('replay', {})
    import eng  # noqa
    from vtlengine.duckdb_transpiler.Config import config as C
    if 'env' in r:
        C.DECIMAL_WIDTH, C.DECIMAL_SCALE = C.DEFAULT_DECIMAL_WIDTH, C.DEFAULT_DECIMAL_SCALE
        out = call_real(C, r['env'].get(WVAR), r['env'].get(SVAR))
        print('replay env=%r -> globals (%s,%s) outcome %r type %s' % (r['env'], out[0], out[1], out[2], out[3]))
        import duckdb
        try:
            duckdb.connect().execute('SELECT CAST(0 AS %s)' % out[3]); print('DuckDB accepts', out[3])
        except Exception as e:  # noqa
            print('DuckDB rejects %s: %s' % (out[3], str(e)[:100])); return 1
        return 0
    print(json.dumps(rep, indent=1)); return 0


if __name__ == '__main__':
    if '--replay' in sys.argv:
        sys.exit(replay(sys.argv[sys.argv.index('--replay') + 1]))
    vlib.run_check('C30', main)

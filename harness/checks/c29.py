"""C29 — names that differ only in letter case stay distinct.

  proof            lean/VtlModel/Props/C29.lean over lean/VtlModel/Text/Names.lean
  correspondence   (1) generated scripts (clauses, joins, aggregations, dataset operators, membership,
                       several statements) x namings (plain / unusual case / case-variant pairs / a reference
                       spelled in the wrong case) are run on the real engine and on the exact-name reference
                       evaluator `c29_ref` and the results diffed (result names, component names — exactly,
                       case-sensitively —, values with tolerance, never row order);
                   (2) the scope operations the reference performs for every clause are replayed on the Lean
                       model (`runCS`, Drivers/TextNames.lean): same observations, same final scope;
                   (3) the Lean folded scope (`runCI lower`, `collides lower`) is compared with the catalog of
                       the DuckDB the repository runs on (DDL sequences; `build_create_table_sql`).

  A case whose reference evaluation holds two fold-equal names in ONE scope is *colliding*: disagreement there
  is reported under a key made of the kind of scope and the observed failure (known findings).  Every other
  case (no two fold-equal names in one scope) must agree with the reference; a disagreement is reported under a
  key starting with `noncolliding:` which is never a known finding.
"""
import json
import os
import re
import signal
import sys
import time

HERE = os.path.dirname(os.path.abspath(__file__))
sys.path.insert(0, os.path.join(HERE, '..'))
sys.path.insert(0, HERE)
import vlib  # noqa: E402
import c29_ref as R  # noqa: E402
from c29_ref import Sym  # noqa: E402

CALL_BUDGET = 90
NUM_TYPES = ('Integer', 'Number')


# =========================================================================================== generator
class Gen:
    """abstract script over symbols (m0, i0, D0, X0, a0 …), built step by step with the reference
    evaluator tracking the current structure so that every step is valid."""

    def __init__(self, rng):
        self.rng = rng
        self.n = {'c': 0, 'r': 0, 'X': 0}
        self.inputs = {}
        self.tr = R.Trace()

    def fresh(self, kind):
        self.n[kind] += 1
        return Sym('%s%d' % (kind, self.n[kind] - 1))

    # ---- data
    def value(self, ty):
        r = self.rng
        if ty == 'Integer':
            return r.randint(-4, 9)
        if ty == 'Number':
            return r.randint(-8, 18) * 0.5
        return r.choice(['a', 'b', 'Ab', 'aB', 'AB', 'x'])

    def make_input(self, name, ids, measures, nrows, id_pool):
        comps = {}
        for i, t in ids:
            comps[i] = (t, 'Identifier')
        for m, t in measures:
            comps[m] = (t, 'Measure')
        keys = list(id_pool)
        self.rng.shuffle(keys)
        rows = []
        for k in keys[:nrows]:
            row = {}
            for (i, t), v in zip(ids, k):
                row[i] = v
            for m, t in measures:
                row[m] = self.value(t)
            rows.append(row)
        d = R.RDS(comps, rows)
        self.inputs[name] = d
        return d

    # ---- component expressions
    def ce(self, ds, want, depth=2, prefer=None):
        r = self.rng
        cands = [n for n, (t, _) in ds.comps.items() if (t in NUM_TYPES if want == 'num' else t == 'String' if want == 'str' else False)]
        if prefer:
            cands = [c for c in cands if c in prefer] or cands
        if want == 'bool':
            if r.random() < 0.25 and [n for n, (t, _) in ds.comps.items() if t == 'String']:
                return ('cmp', r.choice(['=', '<>']), self.ce(ds, 'str', 0), ('k', r.choice(['a', 'Ab', 'x'])))
            numc = [n for n, (t, _) in ds.comps.items() if t in NUM_TYPES]
            left = self.ce(ds, 'num', depth - 1)
            if not R.syms(left) and numc:
                left = ('c', Sym(r.choice(numc)))
            return ('cmp', r.choice(['>', '<', '>=', '<=']), left, self.ce(ds, 'num', 0) if r.random() < 0.4 else ('k', r.randint(-2, 6)))
        if depth <= 0 or r.random() < 0.3:
            if cands and r.random() < 0.85:
                return ('c', Sym(r.choice(cands)))
            return ('k', r.randint(1, 5) if want == 'num' else r.choice(['q', 'Zz']))
        if want == 'num':
            k = r.random()
            if k < 0.55:
                return ('b', r.choice(['+', '-', '*']), self.ce(ds, 'num', depth - 1), self.ce(ds, 'num', depth - 1))
            if k < 0.75:
                return ('u', r.choice(['-', 'abs']), self.ce(ds, 'num', depth - 1))
            return ('if', self.ce(ds, 'bool', 1), self.ce(ds, 'num', depth - 1), self.ce(ds, 'num', depth - 1))
        k = r.random()
        if k < 0.4:
            return ('cat', self.ce(ds, 'str', depth - 1), self.ce(ds, 'str', depth - 1))
        if k < 0.8:
            return ('sf', r.choice(['upper', 'lower']), self.ce(ds, 'str', depth - 1))
        return ('if', self.ce(ds, 'bool', 1), self.ce(ds, 'str', depth - 1), self.ce(ds, 'str', depth - 1))

    def has_comp_ref(self, e):
        return any(isinstance(x, Sym) for x in R.syms(e)) or bool(R.syms(e))

    def ce_with_ref(self, ds, want):
        for _ in range(6):
            e = self.ce(ds, want)
            if R.syms(e):
                return e
        return e

    # ---- one clause / operator step on top of a dataset expression
    def step(self, de, ds, allow_memb):
        r = self.rng
        meas, ids = ds.measures(), ds.ids()
        allnum = bool(meas) and all(ds.comps[m][0] in NUM_TYPES for m in meas)
        opts = ['calc', 'calc', 'filter', 'rename']
        if len(meas) >= 2:
            opts += ['keep', 'drop']
        if any(ds.comps[m][0] in NUM_TYPES for m in meas):
            opts += ['aggrc']
        if allnum:
            opts += ['binsc', 'un', 'agg']
        if len(meas) == 1 and ds.comps[meas[0]][0] in NUM_TYPES and de[0] not in ('un', 'aggrc'):
            # (comparison right after a unary operator / an aggr clause hits transpiler defects that have nothing
            #  to do with names: `abs(DS_1#Me_1) > 5` fails with plain names too)
            opts += ['cmpsc']
        if allow_memb and meas:
            opts += ['memb', 'memb']
        k = r.choice(opts)
        if k == 'calc':
            items = []
            for _ in range(1 if r.random() < 0.7 else 2):
                want = r.choice(['num', 'num', 'str', 'bool']) if any(ds.comps[m][0] == 'String' for m in meas) else r.choice(['num', 'num', 'bool'])
                tgt = Sym(r.choice(meas)) if (meas and r.random() < 0.25) else self.fresh('c')
                if tgt in [t for t, _ in items]:
                    continue
                items.append((tgt, self.ce_with_ref(ds, want)))
            return ('calc', de, items)
        if k == 'filter':
            return ('filter', de, self.ce_with_ref(ds, 'bool'))
        if k == 'keep':
            return ('keep', de, [Sym(x) for x in r.sample(meas, r.randint(1, len(meas) - 1))])
        if k == 'drop':
            return ('drop', de, [Sym(x) for x in r.sample(meas, r.randint(1, len(meas) - 1))])
        if k == 'rename':
            pool = meas + (ids if r.random() < 0.25 else [])
            if not pool:
                return ('filter', de, self.ce_with_ref(ds, 'bool'))
            olds = r.sample(pool, 1 if r.random() < 0.7 or len(pool) < 2 else 2)
            return ('rename', de, [(Sym(o), self.fresh('r')) for o in olds])
        if k == 'aggrc':
            nums = [m for m in meas if ds.comps[m][0] in NUM_TYPES]
            items = []
            for c in r.sample(nums, 1 if r.random() < 0.6 or len(nums) < 2 else 2):
                tgt = Sym(c) if r.random() < 0.4 else self.fresh('c')
                items.append((tgt, r.choice(['sum', 'max', 'min']), Sym(c)))
            return ('aggrc', de, items, [Sym(x) for x in r.sample(ids, r.randint(1, len(ids)))])
        if k == 'binsc':
            return ('binsc', r.choice(['+', '-', '*']), de, r.choice([2, 3, 0.5, 1.5]))
        if k == 'un':
            return ('un', r.choice(['-', 'abs']), de)
        if k == 'agg':
            return ('agg', r.choice(['sum', 'max', 'min']), de, [Sym(x) for x in r.sample(ids, r.randint(1, len(ids)))])
        if k == 'cmpsc':
            return ('cmpsc', r.choice(['>', '<', '>=']), de, r.randint(-1, 5))
        if k == 'memb':
            return ('memb', de[1], Sym(r.choice(meas)))
        raise ValueError(k)

    def chain(self, env, start, nsteps):
        de = ('ds', Sym(start))
        ds = env[start]
        for i in range(nsteps):
            for _ in range(8):
                cand = self.step(de, ds, allow_memb=(de[0] == 'ds'))
                try:
                    nds = R.ev_de(R.Trace(), env, cand)
                except R.RefError:
                    continue
                if not nds.measures() or not nds.rows and self.rng.random() < 0.7:
                    continue
                de, ds = cand, nds
                break
        return de, ds

    def join(self, env, a, b):
        r = self.rng
        kind = r.choice(['inner_join', 'inner_join', 'left_join'])
        use_alias = r.random() < 0.7
        al = [Sym('a0'), Sym('a1')] if use_alias else [None, None]
        ids = env[a].ids()
        using = [Sym(i) for i in ids] if r.random() < 0.3 else None
        base = ('join', kind, [(Sym(a), al[0]), (Sym(b), al[1])], using, [])
        cur = R.ev_de(R.Trace(), env, base)
        body = []
        nullable_right = set(env[b].measures()) if kind == 'left_join' else set()

        def safe(ds):
            return R.RDS({n: v for n, v in ds.comps.items() if n not in nullable_right}, [])

        def refstyle(e):
            """sometimes write alias#comp instead of comp inside the join body"""
            if not use_alias:
                return e
            if isinstance(e, tuple) and e and e[0] == 'c' and r.random() < 0.35:
                owner = al[0] if e[1] in env[a].comps and e[1] not in ids else al[1] if e[1] in env[b].comps and e[1] not in ids else None
                return ('ac', owner, e[1]) if owner else e
            if isinstance(e, tuple):
                return tuple(refstyle(x) for x in e)
            if isinstance(e, list):
                return [refstyle(x) for x in e]
            return e

        if r.random() < 0.4:
            body.append(('filter', refstyle(self.ce_with_ref(safe(cur), 'bool'))))
        if r.random() < 0.5:
            tgt = self.fresh('c')
            src = cur if r.random() < 0.5 else safe(cur)
            e = self.ce(src, 'num', 1) if kind == 'left_join' else self.ce_with_ref(src, r.choice(['num', 'num', 'bool']))
            if kind == 'left_join':      # on nullable columns only arithmetic (null propagation is unambiguous)
                e = ('b', r.choice(['+', '-', '*']), self.ce(cur, 'num', 0), self.ce(cur, 'num', 0))
            body.append(('calc', [(tgt, refstyle(e))]))
        trial = ('join', kind, base[2], using, list(body))
        try:
            cur = R.ev_de(R.Trace(), env, trial)
        except R.RefError:
            body = []
            cur = R.ev_de(R.Trace(), env, base)
        meas = cur.measures()
        k = r.random()
        if k < 0.3 and len(meas) >= 2:
            body.append((r.choice(['keep', 'drop']), [Sym(x) for x in r.sample(meas, r.randint(1, len(meas) - 1))]))
        cur = R.ev_de(R.Trace(), env, ('join', kind, base[2], using, list(body)))
        if r.random() < 0.35 and cur.measures():
            body.append(('rename', [(Sym(r.choice(cur.measures())), self.fresh('r'))]))
        de = ('join', kind, base[2], using, body)
        return de, R.ev_de(R.Trace(), env, de)

    def script(self):
        r = self.rng
        shape = r.choice(['single', 'single', 'single', 'pair_same', 'pair_join', 'pair_join', 'multi'])
        two_ids = r.random() < 0.3
        ids = [(Sym('i0'), 'Integer')] + ([(Sym('i1'), 'String')] if two_ids else [])
        pool = [(a,) + ((b,) if two_ids else ()) for a in range(1, 5) for b in (['A', 'B'] if two_ids else [None])]
        pool = [p[:len(ids)] for p in pool]
        ntypes = ['Integer', 'Number', 'Number', 'String'] if shape in ('single', 'multi', 'pair_join') else ['Integer', 'Number']
        m0 = [(Sym('m%d' % i), r.choice(ntypes)) for i in range(r.randint(1, 3))]
        self.make_input(Sym('D0'), ids, m0, r.randint(2, min(5, len(pool))), pool)
        env = dict(self.inputs)
        stmts = []
        if shape == 'single':
            de, ds = self.chain(env, 'D0', r.randint(1, 3))
            stmts.append((self.fresh('X'), True, de))
        elif shape == 'multi':
            de, ds = self.chain(env, 'D0', r.randint(1, 2))
            x0 = self.fresh('X')
            stmts.append((x0, r.random() < 0.5, de))
            env[x0] = ds
            de2, ds2 = self.chain(env, x0, r.randint(1, 2))
            x1 = self.fresh('X')
            stmts.append((x1, True, de2))
            env[x1] = ds2
            if r.random() < 0.5:
                de3, _ = self.chain(env, 'D0', 1)
                stmts.append((self.fresh('X'), True, de3))
        elif shape == 'pair_same':
            self.make_input(Sym('D1'), ids, m0, r.randint(2, min(5, len(pool))), pool)
            env = dict(self.inputs)
            a, da = self.chain(env, 'D0', r.randint(0, 1)) if r.random() < 0.4 else (('ds', Sym('D0')), env['D0'])
            de = ('bin', r.choice(['+', '-', '*']), a, ('ds', Sym('D1')))
            try:
                R.ev_de(R.Trace(), env, de)
            except R.RefError:
                de = ('bin', de[1], ('ds', Sym('D0')), ('ds', Sym('D1')))
            x0 = self.fresh('X')
            stmts.append((x0, True, de))
            if r.random() < 0.4:
                env[x0] = R.ev_de(R.Trace(), env, de)
                de2, _ = self.chain(env, x0, 1)
                stmts.append((self.fresh('X'), True, de2))
        else:
            m1 = [(Sym('n%d' % i), r.choice(['Integer', 'Number', 'Number', 'String'])) for i in range(r.randint(1, 2))]
            self.make_input(Sym('D1'), ids, m1, r.randint(2, min(5, len(pool))), pool)
            env = dict(self.inputs)
            de, ds = self.join(env, 'D0', 'D1')
            x0 = self.fresh('X')
            stmts.append((x0, True, de))
            if r.random() < 0.3:
                env[x0] = ds
                de2, _ = self.chain(env, x0, 1)
                stmts.append((self.fresh('X'), True, de2))
        return stmts


# ---- namings
def case_variants(name):
    out = [name, name.lower(), name.upper(), name.swapcase()]
    if len(name) > 1:
        out.append(name[0].lower() + name[1:].upper())
        out.append(name[0].upper() + name[1:].lower())
    seen, res = set(), []
    for v in out:
        if v not in seen:
            seen.add(v)
            res.append(v)
    return res


def sym_kind(s):
    return 'comp' if s[0] in 'mncr' else 'id' if s[0] == 'i' else 'ds' if s[0] in 'DX' else 'alias'


def base_names(symbols):
    """fold-distinct conventional names for the symbols"""
    out, k = {}, {'comp': 0, 'id': 0, 'ds': 0, 'alias': 0}
    for s in symbols:
        kd = sym_kind(s)
        k[kd] += 1
        out[s] = {'comp': 'Me_%d', 'id': 'Id_%d', 'ds': 'DS_%d', 'alias': 'd%d'}[kd] % k[kd]
    return out


def twin_names(symbols, upper):
    """fold-distinct names on other stems than `base_names`, written entirely in lower case or entirely in
    upper case.  A defect that folds names one way leaves one of the two twins untouched."""
    out, k = {}, {'comp': 0, 'id': 0, 'ds': 0, 'alias': 0}
    for s in symbols:
        kd = sym_kind(s)
        k[kd] += 1
        n = {'comp': 'qm_%d', 'id': 'ka_%d', 'ds': 'tb_%d', 'alias': 'w%d'}[kd] % (k[kd] + 10)
        out[s] = n.upper() if upper else n
    return out


def naming(rng, symbols, mode):
    """mode: plain | unusual | pair   -> (mapping symbol -> name, colliding pair or None)"""
    base = base_names(symbols)
    if mode == 'plain':
        return base, None
    m = {}
    for s in symbols:
        m[s] = rng.choice(case_variants(base[s])) if rng.random() < 0.7 else base[s]
    if mode == 'unusual':
        return m, None
    groups = {}
    for s in symbols:
        g = 'comp' if sym_kind(s) in ('comp', 'id') else sym_kind(s)
        groups.setdefault(g, []).append(s)
    cands = [g for g in groups.values() if len(g) >= 2]
    if not cands:
        return m, None
    weights = [3 if sym_kind(g[0]) in ('comp', 'id') else 2 if sym_kind(g[0]) == 'ds' else 1 for g in cands]
    g = rng.choices(cands, weights)[0]
    a, b = rng.sample(g, 2)
    va = case_variants(base[a])
    x, y = rng.sample(va, 2)
    m[a], m[b] = x, y
    return m, (a, b)


def fold_collision(names):
    seen = {}
    for n in names:
        f = n.lower()
        if f in seen and seen[f] != n:
            return (seen[f], n)
        seen.setdefault(f, n)
    return None


LOOKUP_POS = 'lookup'


def wrongcase_sites(script):
    """paths of Syms in *reference* position (not a definition: calc/aggr target, rename target, output name)"""
    sites = []

    def ce(e, path):
        if e[0] == 'c':
            sites.append(path + (1,))
        elif e[0] == 'ac':
            sites.append(path + (1,)); sites.append(path + (2,))
        else:
            for i, x in enumerate(e):
                if isinstance(x, tuple):
                    ce(x, path + (i,))

    def names(lst, path):
        for i, x in enumerate(lst):
            if isinstance(x, tuple):
                ce(x, path + (i,))
            else:
                sites.append(path + (i,))

    def de(e, path):
        t = e[0]
        if t == 'ds':
            sites.append(path + (1,))
        elif t == 'calc':
            de(e[1], path + (1,))
            for i, (tg, x) in enumerate(e[2]):
                ce(x, path + (2, i, 1))
        elif t == 'filter':
            de(e[1], path + (1,)); ce(e[2], path + (2,))
        elif t in ('keep', 'drop'):
            de(e[1], path + (1,)); names(e[2], path + (2,))
        elif t == 'rename':
            de(e[1], path + (1,))
            for i, (a, b) in enumerate(e[2]):
                sites.append(path + (2, i, 0))
        elif t == 'aggrc':
            de(e[1], path + (1,))
            for i, it in enumerate(e[2]):
                sites.append(path + (2, i, 2))
            names(e[3], path + (3,))
        elif t == 'memb':
            sites.append(path + (1,)); sites.append(path + (2,))
        elif t == 'bin':
            de(e[2], path + (2,)); de(e[3], path + (3,))
        elif t in ('binsc', 'un', 'cmpsc'):
            de(e[2], path + (2,))
        elif t == 'agg':
            de(e[2], path + (2,)); names(e[3], path + (3,))
        elif t == 'join':
            for i, (d, a) in enumerate(e[2]):
                sites.append(path + (2, i, 0))
            if e[3]:
                names(e[3], path + (3,))
            for i, c in enumerate(e[4]):
                if c[0] == 'filter':
                    ce(c[1], path + (4, i, 1))
                elif c[0] == 'calc':
                    for j, (tg, x) in enumerate(c[1]):
                        ce(x, path + (4, i, 1, j, 1))
                elif c[0] in ('keep', 'drop'):
                    names(c[1], path + (4, i, 1))
                elif c[0] == 'rename':
                    for j, (a, b) in enumerate(c[1]):
                        if isinstance(a, tuple):
                            ce(a, path + (4, i, 1, j, 0))
                        else:
                            sites.append(path + (4, i, 1, j, 0))
    for i, (o, p, e) in enumerate(script):
        de(e, (i, 2))
    return sites


def get_path(node, path):
    for p in path:
        node = node[p]
    return node


def set_path(node, path, val):
    if not path:
        return val
    lst = list(node)
    lst[path[0]] = set_path(node[path[0]], path[1:], val)
    return tuple(lst) if isinstance(node, tuple) else lst


def context_of(script, path):
    node = script[path[0]][2]
    ctx = node[0]
    for p in path[2:]:
        if isinstance(node, tuple) and node and isinstance(node[0], str) and not isinstance(node[0], Sym):
            ctx = node[0] if node[0] not in ('c', 'ac', 'b', 'cmp', 'if', 'u', 'cat', 'sf', 'k') else ctx
        node = node[p]
    return ctx


def make_case(rng, idx):
    """-> dict(script AST, inputs, mode, …) with concrete names"""
    for _ in range(20):
        g = Gen(rng)
        try:
            stmts = g.script()
        except R.RefError:
            continue
        symbols = []
        for s in [str(n) for n in g.inputs] + [c for d in g.inputs.values() for c in d.comps] + R.syms([list(x) for x in stmts]):
            if s not in symbols:
                symbols.append(str(s))
        mode = rng.choices(['plain', 'unusual', 'pair', 'wrongcase'], [1, 4, 6, 4])[0]
        m, pair = naming(rng, symbols, 'unusual' if mode == 'wrongcase' and rng.random() < 0.7 else 'plain' if mode == 'wrongcase' else mode)
        if len(set(m.values())) != len(m):
            continue
        script = R.subst([tuple(s) for s in stmts], m)
        inputs = {}
        for n, d in g.inputs.items():
            inputs[m[str(n)]] = R.RDS({Sym(m[str(c)]): v for c, v in d.comps.items()},
                                      [{m[str(c)]: v for c, v in r.items()} for r in d.rows])
        case = {'idx': idx, 'mode': mode, 'script': script, 'inputs': inputs, 'pair': None if pair is None else [m[pair[0]], m[pair[1]]]}
        path = None
        if mode == 'wrongcase':
            sites = wrongcase_sites(script)
            if not sites:
                continue
            path = rng.choice(sites)
            old = get_path(script, path)
            if not isinstance(old, Sym):
                continue
            vs = [v for v in case_variants(str(old)) if v != str(old) and v not in m.values()]
            if not vs:
                continue
            new = rng.choice(vs)
            case['script'] = set_path(script, path, Sym(new))
            case['wrong'] = [str(old), new, context_of(script, path)]
        case['twins'] = []
        for upper in (False, True):
            tm = twin_names(symbols, upper)
            tscript = R.subst([tuple(s) for s in stmts], tm)
            if path is not None:
                tscript = set_path(tscript, path, Sym('ZZ_99' if upper else 'zz_99'))
            case['twins'].append({'script': tscript, 'rho': {tm[s]: m[s] for s in symbols},
                                  'inputs': {tm[str(n)]: R.RDS({Sym(tm[str(c)]): v for c, v in d.comps.items()},
                                                               [{tm[str(c)]: v for c, v in r.items()} for r in d.rows])
                                             for n, d in g.inputs.items()}})
        return case
    raise RuntimeError('generator failed 20 times')


def generic_twins(script, inputs):
    """the same concrete case with every name replaced by a fold-distinct all-lower-case / all-upper-case one"""
    names = []
    for n in [str(x) for x in inputs] + [str(c) for d in inputs.values() for c in d.comps] + R.syms(list(script)):
        if n not in names:
            names.append(n)
    out = []
    for pat in ('tw_%d', 'TW_%d'):
        tm = {n: pat % (i + 11) for i, n in enumerate(names)}
        out.append({'script': R.subst(list(script), tm), 'rho': {v: k for k, v in tm.items()},
                    'inputs': {tm[str(n)]: R.RDS({Sym(tm[str(c)]): v for c, v in d.comps.items()},
                                                 [{tm[str(c)]: v for c, v in r.items()} for r in d.rows]) for n, d in inputs.items()}})
    return out


def corpus():
    """hand-written cases, run first on every run: one per recorded failure mode (findings/C29.md F1-F7) and the
    neighbouring cases that must work"""
    S = Sym
    I, N, T = ('Integer', 'Identifier'), ('Number', 'Measure'), ('String', 'Measure')

    def ds(comps, *rows):
        return R.RDS({S(k): v for k, v in comps}, [dict(zip([k for k, _ in comps], r)) for r in rows])

    def one():
        return ds([('Id_1', I), ('Me_1', N)], (1, 1.0), (2, 2.0))
    mul2 = ('b', '*', ('c', S('Me_1')), ('k', 2))
    out = []

    def add(tag, inputs, script):
        out.append({'idx': 'corpus-' + tag, 'mode': 'corpus', 'script': script, 'inputs': {S(k): v for k, v in inputs.items()},
                    'pair': None, 'twins': generic_twins(script, {S(k): v for k, v in inputs.items()})})
    add('F1', {'DS_1': ds([('Id_1', I), ('Me_1', N), ('me_1', N)], (1, 1.0, 10.0), (2, 2.0, 20.0))}, [(S('DS_r'), True, ('ds', S('DS_1')))])
    add('F2', {'DS_1': one(), 'ds_1': ds([('Id_1', I), ('Me_1', N)], (1, 100.0), (2, 200.0))},
        [(S('DS_r'), True, ('bin', '+', ('ds', S('DS_1')), ('ds', S('ds_1'))))])
    add('F3', {'DS_1': one()}, [(S('ds_1'), True, ('binsc', '*', ('ds', S('DS_1')), 2))])
    add('F3b', {'DS_1': one()}, [(S('ds_x'), False, ('binsc', '*', ('ds', S('DS_1')), 2)), (S('DS_x'), False, ('binsc', '*', ('ds', S('DS_1')), 3)),
                                 (S('DS_r'), True, ('bin', '+', ('ds', S('ds_x')), ('ds', S('DS_x'))))])
    add('F4', {'DS_1': one()}, [(S('DS_r'), True, ('calc', ('ds', S('DS_1')), [(S('me_1'), mul2)]))])
    add('F4b', {'DS_1': one()}, [(S('DS_r'), True, ('calc', ('calc', ('ds', S('DS_1')), [(S('me_1'), mul2)]),
                                                     [(S('Me_3'), ('b', '+', ('c', S('me_1')), ('c', S('Me_1'))))]))])
    add('F4c', {'DS_1': one()}, [(S('DS_r'), True, ('calc', ('calc', ('ds', S('DS_1')), [(S('me_1'), ('k', 'a'))]),
                                                     [(S('Me_3'), ('sf', 'upper', ('c', S('me_1'))))]))])
    add('F4d', {'DS_1': one()}, [(S('DS_r'), True, ('calc', ('rename', ('ds', S('DS_1')), [(S('Me_1'), S('me_1'))]),
                                                     [(S('Me_1'), ('b', '+', ('c', S('me_1')), ('k', 1)))]))])
    add('F5', {'DS_1': one(), 'DS_2': ds([('Id_1', I), ('me_1', N)], (1, 100.0), (2, 200.0))},
        [(S('DS_r'), True, ('join', 'inner_join', [(S('DS_1'), None), (S('DS_2'), None)], None, []))])
    add('F5b', {'DS_1': ds([('Id_1', I), ('me_1', T)], (1, 'a'), (2, 'b')), 'DS_2': ds([('Id_1', I), ('Me_1', N)], (1, 100.0), (2, 200.0))},
        [(S('DS_r'), True, ('join', 'inner_join', [(S('DS_1'), S('d1')), (S('DS_2'), S('d2'))], None,
                            [('calc', [(S('Me_3'), ('b', '-', ('c', S('Id_1')), ('c', S('Me_1'))))])]))])
    add('F5c', {'DS_1': ds([('Id_1', I), ('Me_1', N), ('Me_2', N)], (1, 1.0, 5.0), (2, 2.0, 6.0)),
                'DS_2': ds([('Id_1', I), ('me_1', N)], (1, 100.0), (2, 200.0))},
        [(S('DS_r'), True, ('join', 'inner_join', [(S('DS_1'), None), (S('DS_2'), None)], None, [('drop', [S('Me_1'), S('me_1')])]))])
    add('F6', {'DS_1': one(), 'DS_2': ds([('Id_1', I), ('Me_2', N)], (1, 100.0), (2, 200.0))},
        [(S('DS_r'), True, ('join', 'inner_join', [(S('DS_1'), S('d1')), (S('DS_2'), S('D1'))], None, []))])
    add('F7', {'DS_1': one()}, [(S('DS_r'), True, ('aggrc', ('ds', S('DS_1')), [(S('ID_1'), 'sum', S('Me_1'))], [S('Id_1')]))])
    # neighbours that must work
    add('ok-respell', {'DS_1': one()}, [(S('DS_r'), True, ('rename', ('ds', S('DS_1')), [(S('Me_1'), S('me_1'))]))])
    add('ok-aggr-variant', {'DS_1': one()}, [(S('DS_r'), True, ('aggrc', ('ds', S('DS_1')), [(S('me_1'), 'sum', S('Me_1'))], [S('Id_1')]))])
    add('ok-two-results', {'DS_1': one()}, [(S('DS_r'), True, ('binsc', '*', ('ds', S('DS_1')), 2)), (S('ds_r'), True, ('binsc', '*', ('ds', S('DS_1')), 3))])
    add('ok-twin-inputs-apart', {'DS_1': one(), 'ds_1': ds([('Id_1', I), ('Me_1', N)], (1, 100.0), (2, 200.0), (3, 300.0))},
        [(S('DS_r'), True, ('binsc', '*', ('ds', S('DS_1')), 2)), (S('ds_r'), True, ('binsc', '*', ('ds', S('ds_1')), 3))])
    add('ok-twin-inputs-apart-rev', {'ds_1': one(), 'DS_1': ds([('Id_1', I), ('Me_1', N)], (1, 100.0), (2, 200.0), (3, 300.0))},
        [(S('ds_r'), True, ('binsc', '*', ('ds', S('ds_1')), 2)), (S('DS_r'), True, ('binsc', '*', ('ds', S('DS_1')), 3))])
    add('ok-lower-names', {'ds_1': ds([('id_1', I), ('mE_1', N)], (1, 1.0), (2, 2.0))},
        [(S('ds_r'), True, ('calc', ('ds', S('ds_1')), [(S('ME_2'), ('b', '*', ('c', S('mE_1')), ('k', 2)))]))])
    add('err-wrong-comp', {'DS_1': one()}, [(S('DS_r'), True, ('calc', ('ds', S('DS_1')), [(S('Me_2'), ('b', '*', ('c', S('me_1')), ('k', 2)))]))])
    add('err-wrong-ds', {'DS_1': one()}, [(S('DS_r'), True, ('binsc', '*', ('ds', S('ds_1')), 2))])
    add('err-wrong-memb', {'DS_1': one()}, [(S('DS_r'), True, ('memb', S('DS_1'), S('ME_1')))])
    for c in out:
        if c['idx'].startswith('corpus-err'):
            c['mode'] = 'wrongcase'
            c['wrong'] = ['?', '?', c['script'][0][2][0]]
            # twin of a wrong-case case: the unknown name stays unknown
    return out


# =========================================================================================== engine side
def structures_of(inputs):
    return {'datasets': [{'name': str(n), 'DataStructure': [
        {'name': str(c), 'type': t, 'role': r, 'nullable': r != 'Identifier'} for c, (t, r) in d.comps.items()]}
        for n, d in inputs.items()]}


def data_of(inputs):
    return {str(n): {'columns': [str(c) for c in d.comps], 'types': [d.comps[c][0] for c in d.comps],
                     'rows': [[r[c] for c in d.comps] for r in d.rows]} for n, d in inputs.items()}


class _Timeout(Exception):
    pass


def _alarm(sig, frm):
    raise _Timeout()


_ENG = {}


def _boot():
    if not _ENG:
        import eng
        import pandas as pd
        from vtlengine import run
        _ENG.update(eng=eng, pd=pd, run=run)
    return _ENG


def run_engine(job):
    """job = (id, script text, structures, data) -> (id, outcome)
    outcome = ('ok', {name: {'comps': [[name, role]], 'columns': [...], 'rows': [[...]]}})
            | ('vtl', class, code, msg) | ('raw', class, site, msg) | ('timeout',)"""
    jid, text, structs, data = job
    E = _boot()
    eng, pd, run = E['eng'], E['pd'], E['run']
    import traceback
    dps = {}
    for n, d in data.items():
        cols = {}
        for j, (c, t) in enumerate(zip(d['columns'], d['types'])):
            vals = [r[j] for r in d['rows']]
            cols[c] = pd.Series(vals, dtype='int64' if t == 'Integer' else 'float64' if t == 'Number' else 'object')
        dps[n] = pd.DataFrame(cols, columns=d['columns'])
    signal.signal(signal.SIGALRM, _alarm)
    signal.alarm(CALL_BUDGET)
    try:
        res = run(script=text, data_structures=structs, datapoints=dps, return_only_persistent=False)
        out = {}
        for name, ds in res.items():
            if not hasattr(ds, 'components'):
                out[name] = {'scalar': eng.canon_value(getattr(ds, 'value', None))}
                continue
            comps = [[c.name, c.role.value if hasattr(c.role, 'value') else str(c.role)] for c in ds.components.values()]
            df = ds.data
            if df is None:
                out[name] = {'comps': comps, 'columns': None, 'rows': None}
                continue
            cols = [str(c) for c in df.columns]
            rows = [[eng.canon_value(v) for v in r] for r in df.itertuples(index=False, name=None)]
            out[name] = {'comps': comps, 'columns': cols, 'rows': rows}
        return jid, ('ok', out)
    except _Timeout:
        return jid, ('timeout',)
    except eng.VTLEngineException as e:
        return jid, ('vtl', type(e).__name__, getattr(e, 'code', None) or eng._code_of(e), str(e)[:300])
    except BaseException as e:  # noqa: BLE001
        if isinstance(e, (KeyboardInterrupt, SystemExit)):
            raise
        site = '?'
        for f in reversed(traceback.extract_tb(e.__traceback__)):
            if '/vtlengine/' in f.filename:
                site = '%s:%s' % (f.filename.split('/vtlengine/')[-1], f.name)
                break
        return jid, ('raw', type(e).__module__ + '.' + type(e).__name__, site, str(e)[:300])
    finally:
        signal.alarm(0)


def _init_worker():
    try:
        _boot()
    except BaseException:  # noqa: BLE001   (reported by the first job instead)
        pass


class EnginePool:
    """worker processes that import the real engine once (start-up overlaps with the Lake build) and serve both
    passes.  `run` stops handing out jobs when its wall-clock budget is used up; jobs that were not started are
    absent from the result."""

    def __init__(self, procs=16):
        import multiprocessing as mp
        self.procs = procs
        self.pool = mp.get_context('fork').Pool(procs, initializer=_init_worker)

    def run(self, jobs, budget_s):
        res, pending, it = {}, [], iter(jobs)
        deadline = time.time() + 900          # until the first answer: start-up of the workers
        exhausted = False
        while True:
            while not exhausted and len(pending) < 2 * self.procs and time.time() < deadline:
                j = next(it, None)
                if j is None:
                    exhausted = True
                    break
                pending.append(self.pool.apply_async(run_engine, (j,)))
            if not pending:
                break
            progressed = False
            for a in list(pending):
                if a.ready():
                    pending.remove(a)
                    progressed = True
                    try:
                        jid, out = a.get()
                    except BaseException:  # noqa: BLE001
                        continue
                    if not res:
                        deadline = time.time() + budget_s
                    res[jid] = out
            if time.time() > deadline + CALL_BUDGET + 30:
                break
            if not progressed:
                time.sleep(0.02)
        return res

    def close(self):
        self.pool.terminate()
        self.pool.join()


# =========================================================================================== comparison
def num_eq(a, b, rel=1e-9, abs_=1e-9):
    if a is None or b is None:
        return a is None and b is None
    if isinstance(a, bool) or isinstance(b, bool):
        return bool(a) == bool(b) and isinstance(a, (bool, int)) and isinstance(b, (bool, int))
    if isinstance(a, (int, float)) and isinstance(b, (int, float)):
        return a == b or abs(a - b) <= max(abs_, rel * max(abs(a), abs(b)))
    return a == b


def diff(expected, got):
    """expected: ('ok', {name: RDS}) | ('err', kind, name); got: engine outcome.
    -> None when they agree, else (class, detail)"""
    if got[0] == 'timeout':
        return ('timeout', 'engine call exceeded %ds' % CALL_BUDGET)
    if expected[0] == 'err':
        if got[0] == 'vtl' and got[1] == 'SemanticError':
            return None
        if got[0] == 'vtl':
            return ('vtl:%s:%s' % (got[1], got[2]), 'expected a semantic error (%s %s), engine raised %s' % (expected[1], expected[2], got[3]))
        if got[0] == 'raw':
            return (raw_class(got), 'expected a semantic error (%s %s), engine raised %s: %s' % (expected[1], expected[2], got[1], got[3]))
        return ('silently-resolved', 'exact-name semantics: %s %s; the engine returned a result' % (expected[1], expected[2]))
    if got[0] == 'vtl':
        return ('vtl:%s:%s' % (got[1], got[2]), 'engine raised %s %s: %s' % (got[1], got[2], got[3]))
    if got[0] == 'raw':
        return (raw_class(got), 'engine raised %s at %s: %s' % (got[1], got[2], got[3]))
    exp, res = expected[1], got[1]
    if set(res) != {str(k) for k in exp}:
        return ('silent:result-names', 'results %s, expected %s' % (sorted(res), sorted(str(k) for k in exp)))
    for name, rds in exp.items():
        g = res[str(name)]
        if 'scalar' in g:
            return ('silent:result-kind', '%s is a scalar' % name)
        want = [str(c) for c in rds.comps]
        if g['columns'] is None:
            return ('silent:no-data', '%s has no data' % name)
        if sorted(g['columns']) != sorted(want):
            missing = [c for c in want if c not in g['columns']]
            return ('silent:column-missing' if missing else 'silent:column-extra',
                    '%s: data columns %s, expected %s' % (name, g['columns'], want))
        if sorted(c[0] for c in g['comps']) != sorted(want):
            return ('silent:structure-names', '%s: components %s, expected %s' % (name, [c[0] for c in g['comps']], want))
        roles = {c[0]: c[1] for c in g['comps']}
        for c in want:
            if (roles[c] == 'Identifier') != (rds.comps[c][1] == 'Identifier'):
                return ('silent:role', '%s.%s has role %s' % (name, c, roles[c]))
        ids = [str(i) for i in rds.ids()]
        ix = [g['columns'].index(i) for i in ids]
        gm = {}
        for r in g['rows']:
            gm.setdefault(tuple(r[i] for i in ix), []).append(r)
        em = {tuple(r[i] for i in ids): r for r in rds.rows}
        if len(g['rows']) != len(rds.rows) or set(gm) != set(em):
            return ('silent:rows', '%s: %d rows with keys %s, expected %d rows with keys %s' % (
                name, len(g['rows']), sorted(gm, key=str)[:6], len(rds.rows), sorted(em, key=str)[:6]))
        for k, er in em.items():
            gr = gm[k][0]
            for c in want:
                gv = gr[g['columns'].index(c)]
                if not num_eq(er[c], gv):
                    return ('silent:values', '%s%s.%s = %r, expected %r' % (name, list(k), c, gv, er[c]))
    return None


def raw_class(got):
    """failure class of an exception that is not a VTL error: which kind, raised from which function of the
    package.  DuckDB exceptions are split in catalog errors (an object of that name exists already) and
    query errors (the generated SQL does not bind / parse / convert)."""
    mod, _, cls = got[1].rpartition('.')
    if 'duckdb' in mod:
        return '%s@%s' % ('duckdb-catalog-error' if cls == 'CatalogException' else 'duckdb-query-error', got[2])
    return 'raw:%s@%s' % (got[1], got[2])


def coarse(dclass):
    """failure class used in the keys of colliding cases: every silent difference is one class"""
    return 'silent-wrong-result' if dclass.startswith('silent:') else dclass


SCOPE_KIND = {'input': 'input-components', 'datasets': 'dataset-names', 'result': 'result-components'}


def collision_of(tr):
    """first scope of the reference evaluation that holds two fold-equal names -> (kind, a, b) | None"""
    for ctx, names in tr.scopes:
        c = fold_collision(names)
        if c:
            if ctx in SCOPE_KIND:
                kind = SCOPE_KIND[ctx]
            elif ctx.endswith(':aliases'):
                kind = 'join-aliases'
            elif 'join' in ctx:
                kind = 'join-components'
            else:
                kind = 'clause-components'
            return kind, c[0], c[1]
    return None


def all_names(case):
    names = [str(n) for n in case['inputs']] + [str(c) for d in case['inputs'].values() for c in d.comps]
    return names + R.syms(list(case['script']))


# =========================================================================================== replay
def case_to_replay(case, text, expected, got, extra=None):
    rp = {'script': text, 'ast': R.to_json(list(case['script'])), 'data_structures': structures_of(case['inputs']),
          'datapoints': data_of(case['inputs']), 'mode': case['mode'],
          'expected': expected_json(expected), 'engine': got if got[0] != 'ok' else ['ok', got[1]]}
    if extra:
        rp.update(extra)
    return rp


def expected_json(expected):
    if expected[0] == 'err':
        return list(expected)
    return ['ok', {str(n): {'columns': [str(c) for c in d.comps], 'rows': [[r[c] for c in d.comps] for r in d.rows]}
                   for n, d in expected[1].items()}]


def inputs_from_replay(rp):
    inputs = {}
    for d in rp['data_structures']['datasets']:
        comps = {Sym(c['name']): (c['type'], c['role']) for c in d['DataStructure']}
        dp = rp['datapoints'][d['name']]
        inputs[Sym(d['name'])] = R.RDS(comps, [dict(zip(dp['columns'], r)) for r in dp['rows']])
    return inputs


def do_replay(ck, path):
    doc = json.load(open(path))
    rp = doc.get('replay') or doc
    if 'script' not in rp:
        print('replay %s names no input (%s)' % (path, doc.get('no_longer_checks')))
        return
    inputs = inputs_from_replay(rp)
    script = [tuple(s) for s in R.from_json(rp['ast'])]
    expected, tr = R.evaluate(script, inputs)
    _, got = run_engine((0, rp['script'], rp['data_structures'], rp['datapoints']))
    d = diff(expected, got)
    col = collision_of(tr)
    ck.count(('replay', rp['script']))
    print('script:\n' + rp['script'])
    print('reference (exact names):', json.dumps(expected_json(expected), default=str)[:600])
    print('engine:', json.dumps(got, default=str)[:600])
    if d is None:
        print('replay: engine agrees with the exact-name reference')
        return
    key = ('%s|%s' % (col[0], coarse(d[0]))) if col else 'noncolliding:%s:%s' % (rp.get('mode'), d[0])
    ck.violation(key, rp, d[1])


# =========================================================================================== Lean tie
def lean_line(mode, before, ops):
    toks = ['run', mode, str(len(before))]
    for k, t in before:
        toks += [k, str(t)]
    for o in ops:
        toks += [str(x) for x in o]
    return ' '.join(toks)


def parse_lean(ans):
    left, _, right = ans.partition('|')
    lt = left.split()
    obs, i = [], 0
    while i < len(lt):
        if lt[i] == 'd':
            obs.append(('d',)); i += 1
        else:
            obs.append((lt[i], lt[i + 1])); i += 2
    rt = right.split()
    env = [(rt[j], int(rt[j + 1])) for j in range(0, len(rt), 2)]
    return obs, env


def check_group(grp, ans):
    """a clause's scope operations as performed by the reference vs Lean runCS.  -> None | reason"""
    obs, env = parse_lean(ans)
    ops = grp['ops']
    if len(obs) != len(ops):
        return 'observation count %d for %d ops' % (len(obs), len(ops))
    bad = [i for i, o in enumerate(obs) if o[0] in ('u', 'c') or o == ('g', '-')]
    if grp['err'] in ('unknown', 'unknown-component'):
        if bad != [len(ops) - 1] or obs[-1][0] not in ('u', 'g'):
            return 'reference: unknown name at the last op; Lean obs %s' % (obs,)
        return None
    if grp['err'] == 'clash':
        if bad != [len(ops) - 1] or obs[-1][0] != 'c':
            return 'reference: clash at the last op; Lean obs %s' % (obs,)
        return None
    if grp['err'] is not None:      # a type / role error: the scope operations up to there must all succeed
        return None if not bad else 'reference: %s; Lean has failing scope ops %s' % (grp['err'], obs)
    if bad:
        return 'reference succeeded; Lean obs %s' % (obs,)
    if sorted(env) != sorted((k, t) for k, t in grp['after']):
        return 'final scope: Lean %s, reference %s' % (env, grp['after'])
    return None


def duckdb_tie(ck, n):
    """`runCI lower` / `collides lower` against the catalog of the DuckDB the repository runs on."""
    import eng  # noqa: F401
    import duckdb
    from vtlengine.duckdb_transpiler.io._validation import build_create_table_sql
    from vtlengine.Model import Component, Role
    from vtlengine.DataTypes import Integer
    rng = ck.rng
    names_pool = ['Me_1', 'me_1', 'ME_1', 'mE_1', 'Me_2', 'ME_2', 'Id_1', 'ID_1', 'id_1', 'x', 'X']
    lines, facts = [], []
    conn = duckdb.connect()
    conn.execute('SET threads = 1')
    for i in range(n):
        # (a) build_create_table_sql on a set of component names: succeeds iff not collides
        names = rng.sample(names_pool, rng.randint(1, 4))
        comps = {nm: Component(name=nm, data_type=Integer, role=Role.MEASURE, nullable=True) for nm in names}
        conn.execute('DROP TABLE IF EXISTS t')
        conn.execute('DROP TABLE IF EXISTS s')
        try:
            conn.execute(build_create_table_sql('t', comps))
            ok = True
        except duckdb.Error:
            ok = False
        lines.append('collides ' + ' '.join(names))
        facts.append(('create', names, ok))
        # (b) DDL sequence on a table vs runCI lower
        init = []
        for nm in rng.sample(names_pool, 4):
            if not fold_collision([k for k, _ in init] + [nm]):
                init.append((nm, len(init) + 1))
        conn.execute('CREATE TABLE s ("__k" INTEGER%s)' % ''.join(', "%s" INTEGER' % k for k, _ in init))
        ops, obs = [], []
        for j in range(rng.randint(1, 6)):
            k = rng.choice(names_pool)
            kind = rng.choice('ierl')
            try:
                if kind == 'i':
                    cur = [c[0] for c in conn.execute('DESCRIBE s').fetchall() if c[0] != '__k']
                    ops.append(('i', k, 50 + j))
                    if not any(c.lower() == k.lower() for c in cur):      # else: model overwrites, keeps the old spelling
                        conn.execute('ALTER TABLE s ADD COLUMN "%s" INTEGER' % k)
                    obs.append('d')
                elif kind == 'e':
                    ops.append(('e', k))
                    conn.execute('ALTER TABLE s DROP COLUMN "%s"' % k)
                    obs.append('d')
                elif kind == 'r':
                    k2 = rng.choice(names_pool)
                    ops.append(('r', k, k2))
                    conn.execute('ALTER TABLE s RENAME COLUMN "%s" TO "%s"' % (k, k2))
                    obs.append('d')
                else:
                    ops.append(('l', k))
                    conn.execute('SELECT "%s" FROM s' % k)
                    obs.append('g')
            except duckdb.Error as e:
                obs.append('fail:' + type(e).__name__)
        final = [c[0] for c in conn.execute('DESCRIBE s').fetchall() if c[0] != '__k']
        lines.append(lean_line('ci', init, ops))
        facts.append(('ddl', init, ops, obs, final))
    conn.close()
    answers = ck.driver('TextNames', lines)
    bad = 0
    for f, a in zip(facts, answers):
        if f[0] == 'create':
            ck.count(('duckdb-create', tuple(sorted(f[1]))))
            if (a == '1') != (not f[2]):
                bad += 1
                ck.unproved('duckdb-catalog-vs-collides', 'build_create_table_sql on %s: created=%s, Lean collides=%s' % (f[1], f[2], a))
        else:
            _, init, ops, obs, final = f
            lobs, lenv = parse_lean(a)
            ck.count(('duckdb-ddl', tuple(ops)))
            same = len(lobs) == len(obs) and all(
                (o == 'd' and lo == ('d',)) or (o == 'g' and lo[0] == 'g' and lo[1] != '-') or
                (o.startswith('fail') and (lo[0] in ('u', 'c') or lo == ('g', '-'))) for o, lo in zip(obs, lobs))
            if not same or [k for k, _ in lenv] != final:
                bad += 1
                ck.unproved('duckdb-catalog-vs-runCI', 'DDL %s on %s: DuckDB %s / %s, Lean %s / %s' % (ops, init, obs, final, lobs, lenv))
    return bad


def outcome_equiv(main, twin, rho):
    """is the engine's outcome on the main case the outcome on the twin (same script, conventional fold-distinct
    names) carried through the renaming rho?  (then the engine treated this script the same way whatever the
    letter case of its names, and a disagreement with the reference is not about letter case)"""
    if main[0] != twin[0]:
        return False
    if main[0] == 'timeout':
        return True
    if main[0] == 'vtl':
        return main[1:3] == twin[1:3]
    if main[0] == 'raw':
        return raw_class(main) == raw_class(twin)
    a, b = main[1], {rho.get(n, n): v for n, v in twin[1].items()}
    if set(a) != set(b):
        return False
    for n in a:
        x, y = a[n], b[n]
        if ('scalar' in x) != ('scalar' in y):
            return False
        if 'scalar' in x:
            if not num_eq(x['scalar'], y['scalar']):
                return False
            continue
        if sorted(c[0] for c in x['comps']) != sorted(rho.get(c[0], c[0]) for c in y['comps']):
            return False
        if (x['columns'] is None) != (y['columns'] is None):
            return False
        if x['columns'] is None:
            continue
        ycols = [rho.get(c, c) for c in y['columns']]
        if sorted(x['columns']) != sorted(ycols) or len(set(ycols)) != len(ycols) or len(x['rows']) != len(y['rows']):
            return False
        order = sorted(x['columns'])
        xr = sorted(([r[x['columns'].index(c)] for c in order] for r in x['rows']), key=repr)
        yr = sorted(([r[ycols.index(c)] for c in order] for r in y['rows']), key=repr)
        for r1, r2 in zip(xr, yr):
            if not all(num_eq(u, v) for u, v in zip(r1, r2)):
                return False
    return True


# =========================================================================================== main
_T0 = time.time()


def dbg(msg):
    if os.environ.get('C29_DEBUG'):
        sys.stderr.write('[c29 %6.1fs] %s\n' % (time.time() - _T0, msg))
        sys.stderr.flush()


def category(c):
    col = collision_of(c['trace'])
    if c['mode'] == 'wrongcase':
        return 'wrongcase', col
    if col:
        return 'colliding', col
    if fold_collision(all_names(c)) is not None:
        return 'near', col           # case variants exist in the script, never two of them in one scope
    return 'clean-' + c['mode'], col


def main(ck):
    if ck.replay_path:
        ck.proof('C29')
        do_replay(ck, ck.replay_path)
        return
    t0 = time.time()
    pool = EnginePool()
    try:
        _main(ck, pool, t0)
    finally:
        pool.close()


def _main(ck, pool, t0):
    pr = ck.proof('C29')
    ncases = int(os.environ.get('C29_N') or (320 if ck.quick() else 3000))
    dbg('proof done')
    cases = corpus() + [make_case(ck.rng, i) for i in range(ncases)]
    dbg('cases generated')

    # ---- pass 1: reference evaluation and the real engine on every case
    jobs = []
    for c in cases:
        c['text'] = R.render(c['script'])
        c['expected'], c['trace'] = R.evaluate(c['script'], c['inputs'])
        jobs.append((c['idx'], c['text'], structures_of(c['inputs']), data_of(c['inputs'])))
    dbg('reference evaluated')
    results = pool.run(jobs, 100 if ck.quick() else 900)
    dbg('engine pass 1 done (%d of %d)' % (len(results), len(jobs)))
    # ---- pass 2: the twin (same script, conventional fold-distinct names) of every disagreeing case
    jobs2 = []
    not_run = [c for c in cases if c['idx'] not in results]
    cases = [c for c in cases if c['idx'] in results]
    for c in cases:
        c['got'] = results[c['idx']]
        c['diff'] = diff(c['expected'], c['got'])
        if c['diff'] is not None:
            for ti, t in enumerate(c['twins']):
                t['text'] = R.render(t['script'])
                t['expected'], t['trace'] = R.evaluate(t['script'], t['inputs'])
                jobs2.append(((c['idx'], ti), t['text'], structures_of(t['inputs']), data_of(t['inputs'])))
    results2 = pool.run(jobs2, 60 if ck.quick() else 600)
    dbg('engine pass 2 done (%d of %d twin runs)' % (len(results2), len(jobs2)))
    t_engine = time.time() - t0

    hist, outcomes, unrelated = {}, {}, {}

    def bump(d, k):
        d[k] = d.get(k, 0) + 1

    for c in cases:
        cat, col = category(c)
        expected, got, d = c['expected'], c['got'], c['diff']
        ctxs = sorted(set(c['trace'].contexts)) or ['copy']
        ctxkey = '+'.join(ctxs)
        ck.count((cat, ctxkey, col[0] if col else None, c.get('wrong', [None, None, None])[2]))
        for x in ctxs:
            bump(hist, cat + '/' + x)
        if cat == 'wrongcase' and expected[0] != 'err':
            ck.unproved('generator:wrongcase', 'a wrong-case reference evaluated without error: %s' % c['text'])
        if d is None:
            bump(outcomes, cat + ':agree' + (':error' if expected[0] == 'err' else ''))
            if cat in ('near', 'clean-unusual', 'wrongcase'):
                ck.sample({'category': cat, 'script': c['text'], 'reference': json.dumps(expected_json(expected), default=str)[:300]}, cap=5)
            continue
        if d[0] == 'timeout':
            bump(outcomes, cat + ':timeout')
            continue
        if any((c['idx'], ti) not in results2 for ti in (0, 1)):
            bump(outcomes, cat + ':twins-not-run(wall budget)')
            continue
        tds = [diff(t['expected'], results2[(c['idx'], ti)]) for ti, t in enumerate(c['twins'])]
        if all(td is not None for td in tds) and all(outcome_equiv(got, results2[(c['idx'], ti)], t['rho']) for ti, t in enumerate(c['twins'])):
            # the engine does the same thing to this script when all its names are fold-distinct and written in
            # lower case, and when they are written in upper case: it is case-equivariant here; the disagreement
            # with the reference is not about letter case
            bump(unrelated, '%s: %s' % (tds[0][0], '+'.join(sorted(set(c['twins'][0]['trace'].contexts)))))
            bump(outcomes, cat + ':unrelated-to-case')
            continue
        extra = {'twins': [{'script': t['text'], 'engine_agrees_with_reference': td is None} for t, td in zip(c['twins'], tds)],
                 'wrong': c.get('wrong')}
        if cat == 'colliding':
            key = '%s|%s' % (col[0], coarse(d[0]))
            bump(outcomes, 'colliding:' + key + ' / ' + d[0])
            extra['collision'] = list(col)
            ck.violation(key, case_to_replay(c, c['text'], expected, got, extra),
                         'names %s / %s share a scope (%s): %s' % (col[1], col[2], col[0], d[1]))
            ck.sample({'category': cat, 'script': c['text'], 'collision': [str(x) for x in col], 'observed': d[0]}, cap=8)
        else:
            key = 'noncolliding:%s:%s:%s' % (cat, ctxkey if cat != 'wrongcase' else c['wrong'][2], d[0])
            bump(outcomes, key)
            ck.violation(key, case_to_replay(c, c['text'], expected, got, extra),
                         'no two names of one scope differ only in case, yet: ' + d[1])

    dbg('outcomes: ' + json.dumps(dict(sorted(outcomes.items())), indent=1))
    dbg('unrelated: ' + json.dumps(dict(sorted(unrelated.items())), indent=1))
    # ---- Lean tie: the reference's scope operations on runCS; collides on every scope
    lines, owners = [], []
    for c in cases:
        for grp in c['trace'].groups:
            lines.append(lean_line('cs', grp['before'], grp['ops']))
            owners.append(('grp', c, grp))
            names = [k for k, _ in grp['before']] + [o[1] for o in grp['ops']] + [o[2] for o in grp['ops'] if o[0] == 'r']
            if not fold_collision(names):
                lines.append(lean_line('ci', grp['before'], grp['ops']))
                owners.append(('ci=cs', c, grp))
        for ctx, names in c['trace'].scopes:
            if names:
                lines.append('collides ' + ' '.join(names))
                owners.append(('col', c, names))
    try:
        dbg('lean requests: %d' % len(lines))
        answers = ck.driver('TextNames', lines) if lines else []
        dbg('lean driver done')
        last_cs = None
        for (kind, c, x), a in zip(owners, answers):
            if kind == 'grp':
                last_cs = a
                why = check_group(x, a)
                ck.count(('lean-scope', x['ctx'], tuple(o[0] for o in x['ops']), x['err']))
                if why:
                    ck.unproved('names-model-vs-reference', '%s in %s: %s' % (x['ctx'], c['text'], why), {'group': x})
            elif kind == 'ci=cs':
                if a != last_cs:
                    ck.unproved('ci_eq_cs instance', 'runCI lower differs from runCS on fold-separated names: %s vs %s' % (a, last_cs))
            else:
                if (a == '1') != (fold_collision(x) is not None):
                    ck.unproved('collides-vs-harness', 'Lean collides=%s on %s' % (a, x))
        ck.cov['traces_validated_against_impl'] = sum(1 for k in owners if k[0] == 'grp')
        duckdb_tie(ck, 100 if ck.quick() else 600)
    except vlib.DriverError as e:
        ck.unproved('driver:TextNames', str(e)[:500])

    if not pr['ok'] and not ck.viol:
        ck.unproved('proof:C29', 'lake build / audit failed: failed=%s forbidden=%s axioms=%s' % (pr['failed'], pr['forbidden'], pr['bad_axioms']),
                    pr['log'][-1500:])

    ck.note('contexts', dict(sorted(hist.items())))
    ck.note('outcomes', dict(sorted(outcomes.items())))
    ck.note('unrelated_engine_disagreements', dict(sorted(unrelated.items())))
    ck.note('engine_calls', len(results) + len(results2))
    ck.note('cases_not_run_wall_budget', len(not_run))
    ck.note('engine_wall_s', round(t_engine, 1))
    ck.note('lean_requests', len(lines))
    ck.trusted('reference evaluator harness/checks/c29_ref.py (exact-name semantics of the generated operator subset)',
               'twin rule: a disagreement that the engine reproduces identically on the same script with fold-distinct names '
               'written all in lower case AND all in upper case is attributed to something other than letter case '
               '(listed under unrelated_engine_disagreements)',
               'stand-in parser harness/vtlstub (scripts are given as text)',
               'DuckDB (catalog behaviour is observed, not verified)',
               'comparison: names exact, values with rel/abs tolerance 1e-9, rows matched by identifier values')
    ck.assumptions.append('names are ASCII; the fold of the model instance is ASCII lower-casing (DuckDB folds the same way on ASCII)')
    ck.assumptions.append('operator subset: calc, filter, keep, drop, rename, aggr, group-by aggregation, membership, dataset +-* dataset/scalar, '
                          'unary minus/abs, scalar comparison, if-then-else, concat/upper/lower, inner_join/left_join with as/using and body clauses, '
                          'multi-statement scripts; Integer/Number/String components without input nulls')


if __name__ == '__main__':
    vlib.run_check('C29', main)

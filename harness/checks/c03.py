"""C03 — aggregations group and summarise as specified.
Lean: Props/C03.lean over the model VtlModel.Sem.Aggr; tie: correspondence model <-> real run();
model validated against the Reference-Manual examples (independent oracle)."""
import collections
import csv
import json
import os
import sys
from fractions import Fraction

sys.path.insert(0, os.path.join(os.path.dirname(os.path.abspath(__file__)), '..'))
import vlib
from sem import gen as G
from sem import gen_aggr as GA
from sem import runner as R
from sem.sx import dec_answer, enc_value
from sem.check_common import msg_head

# ---------------------------------------------------------------------------- Reference-Manual oracle
RM = {
    135: '(spec (by "Id_1") (each avg) _)',
    136: '(spec (by "Id_1" "Id_3") (each sum) _)',
    138: '(spec (by "Id_1") (list (item "Me_2" max (expr (col "Me_1"))) (item "Me_3" min (expr (col "Me_1")))) _)',
    140: '(spec (by "Id_1") (each count) _)',
    141: '(spec (by "Id_1") (each count) (having ((item "__h0" count any)) (bin gt (col "__h0") (const (i 2)))))',
    142: '(spec (by "Id_1") (each min) _)',
    143: '(spec (by "Id_1") (each max) _)',
    144: '(spec (by "Id_1") (each median) _)',
    145: '(spec (by "Id_1") (each sum) _)',
    146: '(spec (by "Id_1") (each avg) _)',
    147: '(spec (by "Id_1") (each stddev_pop) _)',
    148: '(spec (by "Id_1") (each stddev_samp) _)',
    149: '(spec (by "Id_1") (each var_pop) _)',
    150: '(spec (by "Id_1") (each var_samp) _)',
    166: '(spec (by "Id_1" "Id_2") (list (item "Me_1" sum (expr (col "Me_1")))) _)',
    167: '(spec (except "Id_3") (list (item "Me_3" min (expr (col "Me_1")))) _)',
    168: '(spec (by "Id_1" "Id_2") (list (item "Me_1" sum (expr (col "Me_1"))) (item "Me_2" max (expr (col "Me_1")))) '
         '(having ((item "__h0" avg (expr (col "Me_1")))) (bin gt (col "__h0") (const (i 2)))))',
}


def _cell(t, s):
    if s == '' or s is None:
        return None
    if t == 'Integer':
        return int(float(s))
    if t == 'Number':
        return Fraction(s)
    if t == 'Boolean':
        return s.strip().lower() == 'true'
    return s


def rm_case(n):
    base = os.path.join(vlib.REPO, 'tests', 'ReferenceManual', 'data')
    st = json.load(open(os.path.join(base, 'DataStructure', 'input', '%d-DS_1.json' % n)))
    comps = st['datasets'][0]['DataStructure']
    if any(c['type'] not in ('Integer', 'Number', 'String', 'Boolean') for c in comps):
        return None
    ids = [(c['name'], c['type']) for c in comps if c['role'] == 'Identifier']
    meas = [(c['name'], c['type']) for c in comps if c['role'] == 'Measure']
    if len(ids) + len(meas) != len(comps):
        return None
    rows = []
    with open(os.path.join(base, 'DataSet', 'input', '%d-DS_1.csv' % n), newline='') as f:
        for rec in csv.DictReader(f):
            rows.append(tuple(_cell(t, rec[nm]) for nm, t in ids + meas))
    env = {'DS_1': {'ids': ids, 'meas': meas, 'rows': rows}}
    with open(os.path.join(base, 'DataSet', 'output', '%d-DS_r.csv' % n), newline='') as f:
        ref = list(csv.DictReader(f))
    return {'rm': n, 'env': env, 'sx': '(aggr %s (ds DS_1))' % RM[n], 'ref': ref,
            'vtl': open(os.path.join(base, 'vtl', 'RM%03d.vtl' % n)).read().strip()}


def rm_agrees(case, ans):
    """the model's answer against the reference output CSV of the manual's example."""
    a = dec_answer(ans)
    if a[0] != 'ok':
        return False, 'model answered %s' % ans[:120]
    _, ids, meas, mrows = a
    sq = set(GA.squared_of(ans))
    ref = case['ref']
    if len(ref) != len(mrows):
        return False, '%d datapoints in the reference, %d in the model' % (len(ref), len(mrows))
    names = ids + meas
    if ref and sorted(ref[0].keys()) != sorted(names):
        return False, 'components %s vs reference %s' % (names, sorted(ref[0].keys()))
    def kval(v):
        return str(v)
    mk = {tuple(kval(dict(zip(names, r))[i]) for i in ids): dict(zip(names, r)) for r in mrows}
    for rec in ref:
        k = tuple(rec[i] for i in ids)
        if k not in mk:
            return False, 'reference key %s missing in the model' % (k,)
        for m in meas:
            mv, rv = mk[k][m], rec[m]
            if rv == '':
                if mv is not None:
                    return False, '%s %s: reference null, model %s' % (k, m, mv)
                continue
            if mv is None:
                return False, '%s %s: model null, reference %s' % (k, m, rv)
            if isinstance(mv, (int, Fraction)) and not isinstance(mv, bool):
                x = float(rv)
                if m in sq:
                    x = x * x
                if abs(float(mv) - x) > 1e-6 * max(1.0, abs(x)):     # reference CSVs carry ~7 significant digits
                    return False, '%s %s: model %s, reference %s' % (k, m, mv, rv)
            elif str(mv) != rv and not (isinstance(mv, bool) and str(mv).lower() == rv.lower()):
                return False, '%s %s: model %r, reference %r' % (k, m, mv, rv)
    return True, ''


# ---------------------------------------------------------------------------- classification
def finding_key(case, verdict, detail, eng_out):
    st = case['stream']
    ops = '+'.join(case['ops'])
    if st == 'group-all-standalone' and verdict in ('DISAGREE:engine-duplicate-keys', 'DISAGREE:keys', 'DISAGREE:value'):
        return 'aggregation:standalone-group-all-without-time-agg:one-datapoint-per-input-datapoint'
    if verdict == 'DISAGREE:keys' and case['nrows'] == 0 and isinstance(detail, dict) and detail.get('engine_groups') == 1 \
            and detail.get('model_groups') == 0 and not case['ids']:
        return 'aggregation:aggr-clause-ungrouped-on-empty-dataset:returns-a-null-datapoint'
    if verdict.startswith('REJECT:semantic:') and st == 'having-other-component':
        return 'aggregation:aggr-clause-having-on-component-not-aggregated-by-every-item:SemanticError-%s' % verdict.rsplit(':', 1)[1]
    if verdict.startswith('REJECT:semantic:') and st == 'having-count-vs-aggregate':
        return 'aggregation:having-compares-count-with-another-aggregate:SemanticError-%s' % verdict.rsplit(':', 1)[1]
    if verdict.startswith('REJECT:semantic:') and st == 'having-without-result-identifiers':
        return 'aggregation:having-combining-two-aggregates-when-the-result-has-no-identifiers:SemanticError-%s' % verdict.rsplit(':', 1)[1]
    if verdict == 'DISAGREE:engine-error' and eng_out[0] == 'raw':
        cls = eng_out[1].split('.')[-1]
        if st == 'minmax-no-measures-ungrouped':
            return 'aggregation:standalone-min-max-of-dataset-without-measures-ungrouped:%s' % cls
        if st in ('having-two-measures',) or (case['having'] and 'Only one measure' in str(eng_out[-1])):
            return 'aggregation:standalone-having-with-several-measures:%s' % cls
        return 'aggregation:%s:%s:%s' % (st, cls, msg_head(eng_out))
    if verdict == 'DISAGREE:engine-error':
        return 'aggregation:%s:%s:%s' % (st, eng_out[1], eng_out[2])
    kind = verdict.split(':', 1)[1]
    what = {'value': 'wrong-aggregate', 'keys': 'wrong-groups', 'engine-duplicate-keys': 'several-datapoints-per-group'}.get(kind, kind)
    return 'aggregation:%s:%s:%s:group-%s%s' % (st, what, ops, case['grouping'], ':having' if case['having'] else '')


def run_stream(ck, label, cases, extra=()):
    answers = ck.driver('Aggr', [GA.request(c) for c in cases] + [GA.request(c) for c in extra])
    extra_ans = answers[len(cases):]
    answers = answers[:len(cases)]
    outs = R.run_engine(cases, budget=120)
    res = []
    for c, a, e in zip(cases, answers, outs):
        v, d = GA.compare(c, a, e)
        res.append([c, v, d, e, a])
    # a having threshold that coincides with the exact aggregate is decided by double rounding in the engine
    probe = [(i, s) for i, x in enumerate(res) if x[1] in ('DISAGREE:keys',) and x[0]['having']
             for s in (Fraction(1, 10 ** 7), Fraction(-1, 10 ** 7))]
    if probe:
        reqs = [GA.perturbed(res[i][0], s) for i, s in probe]
        pans = ck.driver('Aggr', reqs)
        for (i, _), pa in zip(probe, pans):
            base, alt = dec_answer(res[i][4]), dec_answer(pa)
            if base[0] == 'ok' and alt[0] == 'ok' and sorted(map(str, base[3])) != sorted(map(str, alt[3])):
                res[i][1] = 'skip:float-sensitive-having'
    return res, extra_ans


def replay(ck):
    rp = json.load(open(ck.replay_path))['replay']
    if 'case' not in rp:
        print('replay: %s names a broken obligation, not an input' % ck.replay_path)
        return
    c = GA.case_from_json(rp['case'])
    res, _ = run_stream(ck, 'replay', [c])
    c, v, d, e, a = res[0]
    print('replay: %s\n  model : %s\n  engine: %s\n  verdict: %s %s' % (c['vtl'], a[:400], str(e)[:400], v, str(d)[:300]))
    if v.startswith('DISAGREE') or v.startswith('REJECT'):
        ck.violation(finding_key(c, v, d, e), {'script': c['vtl'], 'case': rp['case'], 'verdict': v, 'detail': str(d)[:600]},
                     '%s: %s' % (v, c['vtl'][:160]))


def main(ck):
    if ck.replay_path:
        return replay(ck)
    pr = ck.proof('C03')
    q = ck.quick()
    n_main = int(os.environ.get('VERIF_N', 0)) or (200 if q else 3000)
    g = GA.AggrGen(ck.rng)
    main_cases = [g.case() for _ in range(n_main)]
    side = [g.rejected_having([0.1, 0.4, 0.55, 0.65, 0.9][i % 5]) for i in range(10 if q else 50)] + [g.group_all() for _ in range(10 if q else 80)] + [g.group_all_time() for _ in range(16 if q else 200)]
    # empty operands in every form (the generator reaches them only now and then)
    for _ in range(8 if q else 60):
        c = g.case(ck.rng.choice(['standalone', 'clause']))
        c['env']['DS_1']['rows'] = []
        c.update(nrows=0, ngroups=0, max_group=0, maxabs=0.0)
        main_cases.append(c)
    # ---- model against the Reference Manual's examples (independent oracle)
    rm_cases = [c for c in (rm_case(n) for n in sorted(RM)) if c]
    res, rm_ans = run_stream(ck, 'main', main_cases + side, extra=rm_cases)
    rm_bad = []
    for c, a in zip(rm_cases, rm_ans):
        ok, why = rm_agrees(c, a)
        ck.count(('rm', c['rm']), nontrivial=ok)
        if not ok:
            rm_bad.append('RM%03d %s: %s' % (c['rm'], c['vtl'], why))
    ck.note('reference_manual_examples', {'checked': [c['rm'] for c in rm_cases], 'model_disagrees': rm_bad})
    if rm_bad:
        ck.unproved('model-vs-reference-manual', 'the Lean model does not reproduce the manual examples: ' + '; '.join(rm_bad)[:600])

    # ---- account for every case
    hist = collections.Counter()
    ophist, grouphist, famhist, hophist = collections.Counter(), collections.Counter(), collections.Counter(), collections.Counter()
    rowshist, gsize, nullhist, streamhist = collections.Counter(), collections.Counter(), collections.Counter(), collections.Counter()
    groups = collections.defaultdict(list)

    def bucket(n, edges):
        for e in edges:
            if n <= e:
                return '<=%d' % e
        return '>%d' % edges[-1]
    for c, v, d, e, a in res:
        hv = v if not v.startswith('skip:semantic-reject') else 'skip:semantic-reject'
        hv = hv if not hv.startswith('REJECT:semantic') else 'engine-rejects-what-the-model-accepts'
        hist[hv] += 1
        if v == 'agree':
            ck.count((c['vtl'], G.env_sx(c['env'])), nontrivial=isinstance(d, int) and d > 0)
            for o in c['ops']:
                ophist[o] += 1
            for o in c['having_ops']:
                hophist[o] += 1
            grouphist[c['grouping'] + ('+having' if c['having'] else '')] += 1
            famhist[c['family']] += 1
            streamhist[c['stream']] += 1
            rowshist[bucket(c['nrows'], [0, 1, 5, 20, 50, 100, 200])] += 1
            gsize[bucket(c['max_group'], [0, 1, 2, 5, 20, 50, 200])] += 1
            nullhist['%.1f' % (round(c['null_rate'] * 5) / 5)] += 1
            if isinstance(d, int) and d > 0:
                ck.sample({'script': c['vtl'], 'rows': c['nrows'], 'groups': d, 'model': a[:140]})
        else:
            ck.count(None, nontrivial=False)
        if v.startswith('DISAGREE') or v.startswith('REJECT'):
            groups[finding_key(c, v, d, e)].append((c['nrows'], len(c['vtl']), c, v, d, e, a))
    ck.note('outcomes', dict(hist))
    ck.note('operator_histogram', dict(ophist))
    ck.note('having_operator_histogram', dict(hophist))
    ck.note('grouping_forms', dict(grouphist))
    ck.note('measure_families', dict(famhist))
    ck.note('streams', dict(streamhist))
    ck.note('input_rows_histogram', dict(rowshist))
    ck.note('largest_group_histogram', dict(gsize))
    ck.note('null_rate_histogram', dict(nullhist))
    ck.note('adopted_behaviours', [
        'count over a group without a countable datapoint is null when grouped or in a clause (engine: NULLIF(count,0); endorsed by '
        '199 reference outputs of the repository test-suite), 0 when the whole dataset is aggregated without grouping',
        'count(DS …) counts the datapoints whose measures are ALL non-null; count() in a clause those with SOME non-null measure',
        'median of an even number of values is the mean of the two middle values',
        'var_samp / stddev_samp of a single value is null'])
    # known findings first, then the most frequent disagreements; at most 12 replays per run, the rest is listed in the evidence
    known_keys = {k.get('key') for k in ck.known}
    order = sorted(groups, key=lambda k: (k not in known_keys, -len(groups[k]), k))
    fresh = [k for k in order if k not in known_keys]
    if len(fresh) > 12:
        ck.note('further_disagreement_keys', {k: len(groups[k]) for k in fresh[12:]})
    for key in [k for k in order if k in known_keys] + fresh[:12]:
        lst = groups[key]
        lst.sort(key=lambda x: (x[0], x[1]))
        _, _, c, v, d, e, a = lst[0]
        ck.violation(key, {'script': c['vtl'], 'structures': G.structures(c['env']),
                           'data': {k: [[str(x) if x is not None else None for x in r] for r in x['rows']] for k, x in c['env'].items()},
                           'model_request': GA.request(c)[:4000], 'model_answer': a[:2000], 'engine': [str(x)[:800] for x in e],
                           'verdict': v, 'detail': str(d)[:600], 'occurrences': len(lst), 'case': GA.case_to_json(c)},
                     '%s: %s | model %s | engine %s' % (v, c['vtl'][:150], a[:90], str(e[1:3])[:150]))
    if hist['agree'] < (0.6 * n_main):
        ck.unproved('correspondence:C03', 'only %d of %d cases could be compared: %s' % (hist['agree'], len(res), dict(hist)))
    ck.cov['rule'] = ('case = (script, input data); non-trivial = model and engine agree on a result with at least one group; '
                      'distinct by (script, data); Reference-Manual examples counted when the model reproduces the reference output')
    if not pr['ok'] and not ck.viol:
        ck.unproved('Props.C03:' + ','.join(pr['failed'] or pr['forbidden'] or pr['bad_axioms']), 'Lean build/audit failed: ' + pr['log'][-400:])
    ck.trusted('correspondence harness (generator + comparer harness/sem/gen_aggr.py: rows as sets keyed by identifiers, numbers '
               'exact-or-1e-9 relative to the magnitude of the inputs (squared magnitude for variances), stddev compared through its square)',
               'stand-in parser harness/vtlstub for the script text',
               'modelled not verified: DuckDB evaluation of the generated SQL (SUM/AVG/MEDIAN/VAR_*/STDDEV_* on DECIMAL/DOUBLE)')
    ck.assumptions += ['VTL aggregate semantics as restated in lean/VtlModel/Sem/Aggr.lean, validated on the Reference-Manual examples '
                       'RM135-RM150, RM166-RM168; adopted behaviours listed in coverage.adopted_behaviours',
                       '`group all time_agg` is modelled for the conversion of a Time_Period identifier to the year ("A"); other target '
                       'frequencies and Date identifiers need calendar arithmetic the value model does not have',
                       'well-typed scripts (cases rejected by semantic analysis are counted, not compared, unless the rejection itself is a finding)']


vlib.run_check('C03', main)

"""C10 — results conform to the structure predicted by semantic analysis.
Lean: Props/C10.lean (evalD_WF: identifier keys stay unique through every modelled operator, any depth).
Tie/monitor: every dataset run() returns is checked against what semantic_analysis() reports and
against the data-model invariants (names, roles, types, nullability, column order; typed values;
non-null unique identifiers; non-nullable never null; no identifiers -> at most one datapoint)."""
import os
import re
import sys
sys.path.insert(0, os.path.join(os.path.dirname(os.path.abspath(__file__)), '..'))
import vlib
from sem import gen as G
from sem import variants as V

PYT = {'Integer': (int,), 'Number': (int, float), 'String': (str,), 'Boolean': (bool,), 'Date': (str,), 'TimePeriod': (str,),
       'TimeInterval': (str,), 'Duration': (str,)}


def conforms(name, sem, run):
    """-> None or a short description of the first non-conformance."""
    if sem[0] != run[0]:
        return 'kind %s vs %s' % (sem[0], run[0])
    if sem[0] == 'scalar':
        return None if sem[1] == run[1] or run[1] == 'Null' or sem[1] == 'Null' else 'scalar type %s vs %s' % (sem[1], run[1])
    scomps, rcomps, rows, cols = sem[1], run[1], run[2] or [], run[3]
    if scomps != rcomps:
        return 'components: semantic_analysis %s vs run %s' % (scomps, rcomps)
    if cols is not None and list(cols) != [c[0] for c in rcomps]:
        return 'data columns %s vs components %s' % (list(cols), [c[0] for c in rcomps])
    idx = [i for i, c in enumerate(rcomps) if c[1] == 'Identifier']
    seen = set()
    for r in rows:
        if len(r) != len(rcomps):
            return 'row width %d vs %d components' % (len(r), len(rcomps))
        for v, c in zip(r, rcomps):
            if v is None:
                if c[1] == 'Identifier':
                    return 'null identifier %s' % c[0]
                if not c[3]:
                    return 'null in non-nullable component %s' % c[0]
                continue
            ts = PYT.get(c[2])
            if ts and not isinstance(v, ts) or (c[2] != 'Boolean' and isinstance(v, bool)):
                return 'value %r of %s is not a %s' % (v, c[0], c[2])
            if c[2] == 'Integer' and isinstance(v, float) and v != int(v):
                return 'non-integral value %r in Integer component %s' % (v, c[0])
        k = tuple(r[i] for i in idx)
        if k in seen:
            return 'duplicate identifier key %r' % (k,)
        seen.add(k)
    if not idx and len(rows) > 1:
        return 'dataset without identifiers has %d datapoints' % len(rows)
    return None


def corpus_stream(ck, q):
    """the same conformance monitor over the upstream corpus: every run() call the upstream tests make,
    harvested (not executed) by harness/corpus_plugin.py and replayed here."""
    import shutil
    import tempfile
    import corpus
    out = tempfile.mkdtemp(prefix='verif_corpus_')
    try:
        n, tail = corpus.harvest(out, ['ReferenceManual', 'Additional'] if q else None)
        recs = corpus.load(out)
        ck.rng.shuffle(recs)
        if q:
            recs = recs[:150]
        jobs = []
        for r in recs:
            jobs.append((r, {'semantic': True}))
            jobs.append((r, {'rop': False}))
        outs = corpus.run_calls(jobs)
        hist = {}
        for k, r in enumerate(recs):
            sem, run = outs[2 * k], outs[2 * k + 1]
            kind = run[0] if run[0] != 'ok' else ('ok' if sem[0] == 'ok' else 'ok-but-semantic-' + sem[0])
            hist[kind] = hist.get(kind, 0) + 1
            if run[0] != 'ok' or sem[0] != 'ok':
                ck.count(None, nontrivial=False)
                continue
            nontrivial = any((x[0] == 'ds' and x[2]) for x in run[1].values())
            ck.count(('corpus', r['id']), nontrivial=nontrivial)
            for name in run[1]:
                if name not in sem[1]:
                    continue
                why = conforms(name, sem[1][name], run[1][name])
                if why:
                    ck.violation('corpus:nonconforming-result:%s:%s' % (why.split(' ')[0].rstrip(':'), r['test'].split('::')[0].split('/')[-2] if '/' in r['test'] else '?'),
                                 {'corpus_call': r, 'result': name, 'why': why},
                                 'corpus script %s: result %s does not conform: %s' % (str(r.get('script'))[:120], name, why))
                    break
        ck.note('corpus_calls_harvested', n)
        ck.note('corpus_outcomes', hist)
    finally:
        shutil.rmtree(out, ignore_errors=True)



def stmt_op(expr):
    """the dataset-level operator of a three-address statement `T_k := <expr>;` (for finding keys)"""
    e = expr.strip()
    while e.startswith('(') and e.endswith(')'):
        e = e[1:-1].strip()
    m = re.match(r'^(\w+)\s*\(', e)
    if m and m.group(1) not in ('if',):
        return m.group(1)
    if e.startswith('if '):
        return 'if'
    if e.startswith('case '):
        return 'case'
    m = re.search(r'\[\s*(\w+)', e)
    if m and re.match(r'^\w+\s*\[', e):
        return m.group(1)
    if e.startswith('-') or e.startswith('+') or e.startswith('not '):
        return 'unary' + e[0] if e[0] in '+-' else 'not'
    m = re.search(r'\s(\|\||<=|>=|<>|=|<|>|\+|-|\*|/|and|or|xor|in|not_in)\s', e)
    return m.group(1) if m else '?'



def nullability_cases(rng, n):
    """dataset∘dataset operators whose operands DISAGREE on the nullability of the measure (one declares it non-nullable and
    holds no null, the other is nullable and holds nulls on shared keys), both ways round: a result component that may be null
    must be predicted nullable."""
    from fractions import Fraction
    out = []
    for i in range(n):
        mt = rng.choice(['Number', 'Integer', 'String'])
        def val():
            return {'Number': Fraction(rng.randint(-50, 50), rng.choice([1, 2, 4])), 'Integer': rng.randint(-9, 9), 'String': rng.choice(['a', 'b', 'ab', 'B'])}[mt]
        ids = [('Id_1', 'Integer')]
        keys = [1, 2, 3, 4]
        env = {'DS_1': {'ids': ids, 'meas': [('Me_1', mt)], 'rows': [(k, val()) for k in keys], 'nn': ['Me_1']},
               'DS_2': {'ids': ids, 'meas': [('Me_1', mt)], 'rows': [(k, None if k % 2 == 0 else val()) for k in keys]}}
        a, b = ('DS_1', 'DS_2') if i % 2 == 0 else ('DS_2', 'DS_1')
        if mt == 'String':
            op = rng.choice(['=', '<>', '<', '>', '||'])
        else:
            op = rng.choice(['=', '<>', '<', '<=', '>', '>=', '+', '-', '*'])
        kind = i % 3
        if kind == 0:
            vtl = 'DS_r <- %s %s %s;' % (a, op, b)
        elif kind == 1:
            vtl = 'T_1 := %s %s %s; DS_r <- T_1[filter true];' % (a, op, b)
        else:
            vtl = 'DS_r <- nvl(%s, %s);' % (b, a) if i % 2 else 'DS_r <- if %s %s %s then %s else %s;' % (a, '=' if mt == 'String' else '<=', b, a, b)
        out.append({'family': 'nullability', 'env': env, 'vtl': vtl, 'sx': '_', 'ops': ['zip'], 'flat': True, 'depth': 1, 'ids': ids, 'meas': [('Me_1', mt)]})
    return out


def main(ck):
    pr = ck.proof('C10', extra_modules=('VtlModel.Props.C10Types',))
    q = ck.quick()
    g = G.Gen(ck.rng, nonnull_decl=True)
    gflat = G.Gen(ck.rng, flat=True, nonnull_decl=True)
    cases = [g.case(depth=ck.rng.choice([1, 1, 2, 3])) for _ in range(100 if q else 2500)] + [gflat.case() for _ in range(100 if q else 2500)]
    cases += nullability_cases(ck.rng, 24 if q else 300)
    jobs = []
    for c in cases:
        jobs.append((c, {'semantic': True}))
        jobs.append((c, {'rop': False}))
    outs = V.run_variants(jobs)
    hist = {}
    for k, c in enumerate(cases):
        sem, run = outs[2 * k], outs[2 * k + 1]
        if sem[0] == 'timeout' or run[0] == 'timeout':
            hist['timeout'] = hist.get('timeout', 0) + 1; ck.count(None, nontrivial=False); continue
        if run[0] != 'ok':
            hist['run:' + run[0]] = hist.get('run:' + run[0], 0) + 1
            ck.count(None, nontrivial=False)
            if sem[0] == 'ok' and run[0] == 'vtl' and run[1] == 'SemanticError':
                ck.violation('run-rejects-what-semantic-analysis-accepts:' + str(run[2]),
                             {'script': c['vtl'], 'structures': G.structures(c['env']), 'run': str(run)[:400]},
                             'semantic_analysis() accepts but run() raises SemanticError %s: %s' % (run[2], c['vtl'][:140]))
            continue
        if sem[0] != 'ok':
            ck.violation('semantic-analysis-rejects-what-run-accepts:' + str(sem[2] if len(sem) > 2 else sem[1]),
                         {'script': c['vtl'], 'structures': G.structures(c['env']), 'semantic': str(sem)[:400]},
                         'run() succeeds but semantic_analysis() fails (%s): %s' % (str(sem[1:3]), c['vtl'][:140]))
            continue
        hist['ok'] = hist.get('ok', 0) + 1
        nontrivial = any((x[0] == 'ds' and x[2]) for x in run[1].values())
        ck.count((c['vtl'], G.env_sx(c['env'])), nontrivial=nontrivial)
        if nontrivial:
            ck.sample({'script': c['vtl'], 'structures': {n: x[1] for n, x in run[1].items() if x[0] == 'ds'}})
        if set(sem[1]) != set(run[1]):
            ck.violation('result-names-differ', {'script': c['vtl'], 'semantic': sorted(sem[1]), 'run': sorted(run[1])},
                         'semantic_analysis and run(return_only_persistent=False) name different results: %s' % c['vtl'][:140])
            continue
        stmts = {m.group(1): m.group(2) for m in re.finditer(r'(\w+)\s*(?::=|<-)\s*([^;]*);', c['vtl'])}
        order = [m.group(1) for m in re.finditer(r'(\w+)\s*(?::=|<-)', c['vtl'])]
        for n in sorted(run[1], key=lambda x: order.index(x) if x in order else 99):     # the first statement that goes wrong
            why = conforms(n, sem[1][n], run[1][n])
            if why:
                ops = c.get('ops', [])
                shape = 'nested' if (not c.get('flat') and c.get('depth', 0) >= 2) else 'flat'
                culprit = stmt_op(stmts.get(n, '')) if shape == 'flat' else (ops[-1] if ops else '?')
                if shape == 'nested' and why.startswith('null'):
                    # operators that yield null on a non-null operand (known: the predicted nullability ignores them)
                    culprit = next((('mod' if 'mod' in o else 'power') for o in ops if o in ('mod', 'zip_mod', 'power') or o.startswith('irr_pow')), culprit)
                key = 'nonconforming-result:%s:%s:%s' % (shape, why.split(' ')[0].rstrip(':'), culprit)
                if shape == 'nested' and (why.startswith('data columns') or why.startswith('components')):
                    key = 'nested-expression:result-columns-differ-from-components'
                if shape == 'nested' and why.startswith('null') and c.get('max_meas', 0) > 1 and len(c.get('meas', [])) == 1:
                    # several inner measures, one in the result: the transpiler names every inner measure after it (known family);
                    # the surviving column then holds another measure's values, nulls included
                    key = 'nested-expression:inner-measures-collapsed-onto-the-single-output-measure'
                ck.violation(key,
                             {'script': c['vtl'], 'structures': G.structures(c['env']), 'result': n, 'why': why,
                              'data': {k2: [[str(x) if x is not None else None for x in r] for r in d['rows']] for k2, d in c['env'].items()}},
                             'result %s of %s does not conform: %s' % (n, c['vtl'][:140], why))
                break
    corpus_stream(ck, q)
    ck.note('outcomes', hist)
    ck.cov['rule'] = ('case = (script, data): semantic_analysis() and run(return_only_persistent=False) on the same script; every returned dataset '
                      'checked by the executable `conforms` predicate; non-trivial = some non-empty dataset returned; distinct by (script, data)')
    if not pr['ok'] and not ck.viol:
        ck.unproved('Props.C10:' + ','.join(pr['failed'] or pr['forbidden'] or pr['bad_axioms']), 'Lean build/audit failed: ' + pr['log'][-400:])
    ck.trusted('Lean kernel', 'conformance monitor harness/checks/c10.py (the executable predicate `conforms`)',
               'the theorem covers key uniqueness over the modelled operator subset; names/roles/types/nullability/column order are decided by the monitor on the implementation (type soundness of a typed model is not proved yet)')


vlib.run_check('C10', main)

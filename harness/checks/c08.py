"""C08 — time operators follow the real calendar.

Lean 4 proof (Props/C08.lean over Time/Calendar, Time/Period; `vtl_period_limit` & co. regenerated from the SQL
by harness/translate/time_macros.py) + correspondence:
  K1  model validation: Calendar/Period vs Python datetime/calendar, exhaustively 1900-2100;
  K2  spec*/impl* vs the REAL SQL macros executed in DuckDB (one vectorised query per macro);
  K4  end-to-end through run() on generated series with gaps (time_e2e.py), incl. the property's own predicates
      (shift n then -n is the identity, no collisions, fill_time_series keeps every row).
"""
import datetime as dt
import os
import sys

sys.path.insert(0, os.path.join(os.path.dirname(os.path.abspath(__file__)), '..'))
sys.path.insert(0, os.path.dirname(os.path.abspath(__file__)))
import vlib
import time_common as tc

LONG = {'W': '53-week', 'D': 'leap'}


def lim_key(info, i, what):
    return 'vtl_period_limit:%s=%s:%s' % (i, info['period_limit'][i], what)


def fixed_limit_in_force(info, i):
    return bool(info) and not info['calendar_shift'] and i in 'WD' and info['period_limit'][i] == {'W': 52, 'D': 365}[i]


# ------------------------------------------------------------------------------------------------ K1
def validate_model(ck, lo=1900, hi=2100):
    """Lean Calendar/Period against Python's datetime — an oracle independent of both model and /repo."""
    bad = []
    d0, d1 = dt.date(lo, 1, 1).toordinal(), dt.date(hi, 12, 31).toordinal()
    days = list(range(d0, d1 + 1))
    years = list(range(lo - 1, hi + 2))
    per = tc.all_periods(range(lo, hi + 1))
    extra = [('W', y, 53) for y in range(lo, hi + 1)] + [('D', y, 366) for y in range(lo, hi + 1)]
    req = ['D %d' % n for n in days] + ['Y %d' % y for y in years] + ['P %s %d %d' % p for p in per + extra] \
        + ['I %d %d %d' % (y, w, d) for y in range(lo, hi + 1) for w in (1, 52, tc.weeks_in_year(y)) for d in (1, 7)]
    ans = tc.driver(ck, req)
    it = iter(ans)
    for n in days:
        a = next(it); d = dt.date.fromordinal(n); iso = d.isocalendar()
        exp = '%d %d %d %d %d %d %d' % (d.year, d.month, d.day, d.weekday(), iso[0], iso[1], iso[2])
        if a != exp and len(bad) < 5: bad.append(('ofDay/isoWeekOf', n, a, exp))
    import calendar
    for y in years:
        a = next(it)
        exp = '%d %d %d %d %d' % (calendar.isleap(y), 366 if calendar.isleap(y) else 365, dt.date(y, 1, 1).toordinal() - 1,
                                  tc.weeks_in_year(y), dt.date.fromisocalendar(y, 1, 1).toordinal())
        if a != exp and len(bad) < 5: bad.append(('year', y, a, exp))
    prev, prev_end = {}, {}
    for p in per:
        a = next(it).split(); i, y, n = p
        s, e = tc.start_end(i, y, n)
        ok = a[0] == '1' and (int(a[2]), int(a[3])) == (y, n) and int(a[4]) == s.toordinal() and int(a[5]) == e.toordinal() \
            and int(a[6]) == s.month and int(a[7]) == e.day and int(a[8]) == e.timetuple().tm_yday
        if i in prev and int(a[1]) != prev[i] + 1: ok = False          # ord is consecutive along the calendar
        if i in prev and s.toordinal() != prev_end[i] + 1: ok = False  # python oracle sanity: periods tile the days
        prev[i] = int(a[1]); prev_end[i] = e.toordinal()
        if not ok and len(bad) < 5: bad.append(('period', p, ' '.join(a), '%s..%s' % (s, e)))
    for p in extra:
        a = next(it).split()
        if a[0] != ('1' if p[2] <= tc.n_periods(p[0], p[1]) else '0') and len(bad) < 5: bad.append(('valid', p, a[0], 'calendar'))
    for y in range(lo, hi + 1):
        for w in (1, 52, tc.weeks_in_year(y)):
            for d in (1, 7):
                a = next(it)
                if int(a) != dt.date.fromisocalendar(y, w, d).toordinal() and len(bad) < 5: bad.append(('ofIsoWeek', (y, w, d), a, ''))
    ck.count(('model-validation', lo, hi), n=len(req))
    ck.note('model_validation', {'days': len(days), 'periods': len(per), 'years': len(years), 'mismatches': len(bad)})
    return bad



# ------------------------------------------------------------------------------------------------ K2
def macro_shift(ck, con, info, per, state):
    import pandas as pd
    con.register('_p', pd.DataFrame(per, columns=['i', 'y', 'n']))
    con.execute('CREATE OR REPLACE TABLE P AS SELECT i, CAST(y AS INTEGER) y, CAST(n AS INTEGER) n FROM _p')
    con.execute('CREATE OR REPLACE TABLE K AS SELECT CAST(range AS INTEGER) k FROM range(-60, 61)')
    con.execute("CREATE OR REPLACE TABLE T AS SELECT i, y, n, k, vtl_tp_shift({'year': y, 'period_indicator': i, "
                "'period_number': n}::vtl_time_period, k) AS r FROM P, K")
    con.execute("CREATE OR REPLACE TABLE T2 AS SELECT i, y, n, k, r, TRY_CAST(SUBSTR(r, 1, 4) AS INTEGER) ry, "
                "CASE WHEN LENGTH(r) = 5 THEN 1 ELSE TRY_CAST(SUBSTR(r, 7) AS INTEGER) END rn FROM T")
    nonc = con.execute("SELECT i, y, n, k, r FROM T2 WHERE ry IS NULL OR rn IS NULL OR r <> CASE WHEN i = 'A' THEN "
                       "LPAD(CAST(ry AS VARCHAR), 4, '0') || 'A' ELSE LPAD(CAST(ry AS VARCHAR), 4, '0') || '-' || i || "
                       "LPAD(CAST(rn AS VARCHAR), CASE i WHEN 'D' THEN 3 WHEN 'M' THEN 2 WHEN 'W' THEN 2 ELSE 1 END, '0') END "
                       "ORDER BY i, y, n, k LIMIT 3").fetchall()
    for i, y, n, k, r in nonc:
        ck.violation('vtl_tp_shift:%s:result is not a canonical period string' % i,
                     {'macro': 'vtl_tp_shift', 'period': tc.canon(i, y, n), 'shift': k, 'got': r}, 'vtl_tp_shift(%s, %d) = %r' % (tc.canon(i, y, n), k, r))
    sql = {(i, y, n): s for i, y, n, s in con.execute(
        "SELECT i, y, n, string_agg(ry || ':' || rn, ' ' ORDER BY k) FROM T2 GROUP BY i, y, n").fetchall()}
    ans = tc.driver(ck, ['S %s %d %d -60 60' % p for p in per])
    n_eval = 0
    model_ok = {i: True for i in tc.INDS}
    first_model_diff = {}
    seen_keys = set()
    for p, a in zip(per, ans):
        spec, impl = [x.strip() for x in a.split('|')]
        got = sql.get(p, '')
        n_eval += 121
        if got != impl:
            model_ok[p[0]] = False
            first_model_diff.setdefault(p[0], (p, got[:80], impl[:80]))
        if got == spec: continue
        g, s, m = got.split(' '), spec.split(' '), impl.split(' ')
        for j, k in enumerate(range(-60, 61)):
            if j >= len(g) or g[j] != s[j]:
                gj = g[j] if j < len(g) else None
                i, y, n = p
                sy = int(s[j].split(':')[0]); gy = int(gj.split(':')[0]) if gj else sy
                known = fixed_limit_in_force(info, i) and gj == m[j] and (tc.crosses_long_year(i, y, sy) or tc.crosses_long_year(i, y, gy))
                key = lim_key(info, i, 'timeshift result wrong when the path touches a %s year' % LONG[i]) if known \
                    else 'vtl_tp_shift:%s:wrong result' % i
                if key not in seen_keys:
                    seen_keys.add(key)
                    ck.violation(key, {'macro': 'vtl_tp_shift', 'period': tc.canon(*p), 'shift': k, 'got': gj, 'calendar': s[j],
                                       'model_of_macro': m[j], 'sql': "SELECT vtl_tp_shift(vtl_period_parse('%s'), %d)" % (tc.canon(*p), k)},
                                 'vtl_tp_shift(%s, %d) = %s, the calendar says %s' % (tc.canon(*p), k, gj, s[j]))
                    ck.sample('vtl_tp_shift(%s,%d)=%s calendar=%s' % (tc.canon(*p), k, gj, s[j]))
                break
    ck.count(('vtl_tp_shift', len(per)), n=n_eval)
    state['shift_model_ok'] = model_ok
    state['shift_first_model_diff'] = first_model_diff
    # the property's own predicates on the macro's output
    rt = con.execute("SELECT a.i, a.y, a.n, a.k, a.r, b.r FROM T2 a JOIN T2 b ON a.i = b.i AND a.ry = b.y AND a.rn = b.n AND b.k = -a.k "
                     "WHERE b.ry <> a.y OR b.rn <> a.n ORDER BY a.i, abs(a.k), a.y, a.n").fetchall()
    done = set()
    for i, y, n, k, r1, r2 in rt:
        if i in done: continue
        done.add(i)
        known = fixed_limit_in_force(info, i) and model_ok[i]
        key = lim_key(info, i, 'timeshift n then -n is not the identity') if known else 'vtl_tp_shift:%s:shift n then -n is not the identity' % i
        ck.violation(key, {'macro': 'vtl_tp_shift', 'period': tc.canon(i, y, n), 'shift': k, 'after_n': r1, 'after_minus_n': r2},
                     '%s shifted by %d gives %s, shifted back by %d gives %s' % (tc.canon(i, y, n), k, r1, -k, r2))
    ck.note('roundtrip_failures_macro', len(rt))
    col = con.execute("SELECT i, k, r, count(*), min(y * 1000 + n), max(y * 1000 + n) FROM T2 GROUP BY i, k, r HAVING count(*) > 1 "
                      "ORDER BY i, abs(k), r").fetchall()
    done = set()
    for i, k, r, c, a, b in col:
        if i in done: continue
        done.add(i)
        known = fixed_limit_in_force(info, i) and model_ok[i]
        key = lim_key(info, i, 'timeshift maps two distinct periods to the same period') if known \
            else 'vtl_tp_shift:%s:two distinct periods collide' % i
        ck.violation(key, {'macro': 'vtl_tp_shift', 'inputs': [tc.canon(i, a // 1000, a % 1000), tc.canon(i, b // 1000, b % 1000)], 'shift': k, 'both_give': r},
                     '%s and %s shifted by %d both give %s' % (tc.canon(i, a // 1000, a % 1000), tc.canon(i, b // 1000, b % 1000), k, r))
    ck.note('collisions_macro', len(col))


def macro_dates(ck, con, per, state):
    """start/end date, getmonth, dayofmonth, dayofyear: SQL vs Lean vs Python datetime, every period."""
    ans = tc.driver(ck, ['P %s %d %d' % p for p in per])
    P = "(SELECT i, y, n, {'year': y, 'period_indicator': i, 'period_number': n}::vtl_time_period AS p FROM P)"
    cols = {}
    for name in ('vtl_tp_start_date', 'vtl_tp_end_date', 'vtl_tp_getmonth', 'vtl_tp_dayofmonth', 'vtl_tp_dayofyear'):
        cols[name] = {(i, y, n): v for i, y, n, v in con.execute('SELECT i, y, n, %s(p) FROM %s' % (name, P)).fetchall()}
    seen = set()
    for p, a in zip(per, ans):
        a = a.split()
        s, e = tc.start_end(*p)
        exp = {'vtl_tp_start_date': s, 'vtl_tp_end_date': e, 'vtl_tp_getmonth': s.month, 'vtl_tp_dayofmonth': e.day,
               'vtl_tp_dayofyear': e.timetuple().tm_yday}
        lean = {'vtl_tp_start_date': dt.date.fromordinal(int(a[4])), 'vtl_tp_end_date': dt.date.fromordinal(int(a[5])),
                'vtl_tp_getmonth': int(a[6]), 'vtl_tp_dayofmonth': int(a[7]), 'vtl_tp_dayofyear': int(a[8])}
        for name, ex in exp.items():
            got = cols[name].get(p)
            if lean[name] != ex: state['model_bad'].append((name, p, lean[name], ex))
            if got != ex and (name, p[0]) not in seen:
                seen.add((name, p[0]))
                ck.violation('%s:%s:wrong result' % (name, p[0]), {'macro': name, 'period': tc.canon(*p), 'got': str(got), 'calendar': str(ex)},
                             '%s(%s) = %s, the calendar says %s' % (name, tc.canon(*p), got, ex))
    ck.count(('date-macros', len(per)), n=5 * len(per))
    # periods the calendar does not have
    years = sorted({p[1] for p in per})
    for i, num, name in (('W', 53, 'week 53 of a 52-week year'), ('D', 366, 'day 366 of a non-leap year')):
        for y in years:
            if tc.n_periods(i, y) >= num: continue
            try:
                r = con.execute("SELECT vtl_tp_end_date({'year': %d, 'period_indicator': '%s', 'period_number': %d}::vtl_time_period)" % (y, i, num)).fetchone()[0]
            except Exception:  # noqa: BLE001 — an error is the calendar-correct answer
                r = None
            ck.count(('nonexistent', i))
            if r is not None:
                ck.violation('vtl_tp_end_date:%s is accepted and rolls into the next year' % name,
                             {'macro': 'vtl_tp_end_date', 'period': tc.canon(i, y, num), 'got': str(r), 'expected': 'error / NULL: the period does not exist'},
                             'vtl_tp_end_date(%s) = %s although %d has no %s' % (tc.canon(i, y, num), r, y, name.split(' of ')[0]))
                break


def macro_agg(ck, con, per, state):
    rank = {'A': 6, 'S': 5, 'Q': 4, 'M': 3, 'W': 2, 'D': 1}
    con.execute("CREATE OR REPLACE TABLE TG AS SELECT * FROM (VALUES ('A', 6), ('S', 5), ('Q', 4), ('M', 3), ('W', 2), ('D', 1)) t(t, rk)")
    rows = con.execute("SELECT i, y, n, t, vtl_time_agg_tp({'year': y, 'period_indicator': i, 'period_number': n}::vtl_time_period, t) "
                       "FROM P, TG WHERE rk >= CASE i WHEN 'A' THEN 6 WHEN 'S' THEN 5 WHEN 'Q' THEN 4 WHEN 'M' THEN 3 WHEN 'W' THEN 2 ELSE 1 END").fetchall()
    req = ['G %s %d %d %s' % (i, y, n, t) for i, y, n, t, _ in rows]
    ans = tc.driver(ck, req)
    seen = set()
    for (i, y, n, t, got), a in zip(rows, ans):
        ex = tc.canon(t, *map(int, a.split())) if a != 'err' else 'err'
        # independent oracle: the t-period containing the last day of p
        e = tc.start_end(i, y, n)[1]
        iso = e.isocalendar()
        py = {'A': (e.year, 1), 'S': (e.year, (e.month - 1) // 6 + 1), 'Q': (e.year, (e.month - 1) // 3 + 1), 'M': (e.year, e.month),
              'W': (iso[0], iso[1]), 'D': (e.year, e.timetuple().tm_yday)}[t]
        if i == t: py = (y, n)
        if ex != tc.canon(t, *py): state['model_bad'].append(('timeAgg', (i, y, n, t), ex, tc.canon(t, *py)))
        if got != tc.canon(t, *py) and (i, t) not in seen:
            seen.add((i, t))
            ck.violation('vtl_time_agg_tp:%s->%s:wrong result' % (i, t), {'macro': 'vtl_time_agg_tp', 'period': tc.canon(i, y, n), 'target': t,
                                                                          'got': got, 'calendar': tc.canon(t, *py)},
                         'vtl_time_agg_tp(%s, %s) = %s, the calendar says %s' % (tc.canon(i, y, n), t, got, tc.canon(t, *py)))
    ck.count(('vtl_time_agg_tp', len(rows)), n=len(rows))
    # the error branch: a finer target must raise (2-1-19-1), never produce a value
    for i, t in (('A', 'M'), ('Q', 'M'), ('M', 'W'), ('W', 'D'), ('S', 'Q')):
        try:
            r = con.execute("SELECT vtl_time_agg_tp({'year': 2020, 'period_indicator': '%s', 'period_number': 1}::vtl_time_period, '%s')" % (i, t)).fetchone()[0]
            ck.violation('vtl_time_agg_tp:%s->%s:finer target yields a value' % (i, t), {'period': tc.canon(i, 2020, 1), 'target': t, 'got': r}, 'finer target accepted')
        except Exception as e:  # noqa: BLE001
            if '2-1-19-1' not in str(e):
                ck.violation('vtl_time_agg_tp:%s->%s:finer target raises without code 2-1-19-1' % (i, t), {'error': str(e)[:200]}, 'wrong error')
        ck.count(('agg-error', i, t))


def macro_misc(ck, con, per, state, n_pairs):
    """datediff / dateadd on samples (Lean vs SQL vs Python for datediff)."""
    import pandas as pd
    rng = ck.rng
    pairs = [(rng.choice(per), rng.choice(per)) for _ in range(n_pairs)]
    con.register('_q', pd.DataFrame([(a[0], a[1], a[2], b[0], b[1], b[2]) for a, b in pairs], columns=['i', 'y', 'n', 'j', 'y2', 'n2']))
    got = con.execute("SELECT vtl_tp_datediff({'year': y, 'period_indicator': i, 'period_number': n}::vtl_time_period, "
                      "{'year': y2, 'period_indicator': j, 'period_number': n2}::vtl_time_period) FROM _q").fetchall()
    ans = tc.driver(ck, ['F %s %d %d %s %d %d' % (a + b) for a, b in pairs])
    for (a, b), (g,), l in zip(pairs, got, ans):
        ex = abs((tc.start_end(*a)[1] - tc.start_end(*b)[1]).days)
        if int(l) != ex: state['model_bad'].append(('datediff', (a, b), l, ex))
        if g != ex:
            ck.violation('vtl_tp_datediff:wrong result', {'a': tc.canon(*a), 'b': tc.canon(*b), 'got': g, 'calendar': ex}, 'datediff'); break
    ck.count(('datediff', n_pairs), n=n_pairs)
    # dateadd on dates and on periods (end date + shift)
    base = dt.date(1900, 1, 1).toordinal()
    cases = [(dt.date.fromordinal(base + rng.randrange(73000)), rng.randint(-60, 60), rng.choice(tc.INDS)) for _ in range(n_pairs)]
    cases += [(dt.date(y, m, d), k, j) for y in (2019, 2020, 2024) for (m, d) in ((1, 31), (2, 28), (2, 29), (3, 31), (12, 31)) if not (m == 2 and d == 29 and y == 2019)
              for k in (-13, -12, -1, 1, 11, 12, 48) for j in 'MQSA']
    con.register('_d', pd.DataFrame([(str(d), k, j) for d, k, j in cases], columns=['d', 'k', 'j']))
    got = con.execute("SELECT CAST(vtl_dateadd(CAST(d AS DATE), CAST(k AS INTEGER), j) AS DATE) FROM _d").fetchall()
    ans = tc.driver(ck, ['A %d %d %d %d %s' % (d.year, d.month, d.day, k, j) for d, k, j in cases])
    for (d, k, j), (g,), l in zip(cases, got, ans):
        y, m, dd = map(int, l.split())
        if g != dt.date(y, m, dd):
            ck.violation('vtl_dateadd:%s:differs from the calendar model' % j, {'date': str(d), 'shift': k, 'period': j, 'got': str(g), 'model': l},
                         'vtl_dateadd(%s, %d, %s) = %s, model %s' % (d, k, j, g, l)); break
    ck.count(('dateadd', len(cases)), n=len(cases))
    pc = [(rng.choice(per), rng.randint(-30, 30), rng.choice(tc.INDS)) for _ in range(n_pairs // 2)]
    con.register('_e', pd.DataFrame([(p[0], p[1], p[2], k, j) for p, k, j in pc], columns=['i', 'y', 'n', 'k', 'j']))
    got = con.execute("SELECT CAST(vtl_tp_dateadd({'year': y, 'period_indicator': i, 'period_number': n}::vtl_time_period, CAST(k AS INTEGER), j) AS DATE) FROM _e").fetchall()
    ans = tc.driver(ck, ['AP %s %d %d %d %s' % (p + (k, j)) for p, k, j in pc])
    for (p, k, j), (g,), l in zip(pc, got, ans):
        y, m, dd = map(int, l.split())
        if g != dt.date(y, m, dd):
            ck.violation('vtl_tp_dateadd:%s:differs from the calendar model' % j, {'period': tc.canon(*p), 'shift': k, 'unit': j, 'got': str(g), 'model': l},
                         'vtl_tp_dateadd'); break
    ck.count(('tp_dateadd', len(pc)), n=len(pc))


# ------------------------------------------------------------------------------------------------ K4
def e2e(ck, info, n_cases, state):
    import time_e2e
    ops = [o for o in time_e2e.OPS if o != 'format_roundtrip']      # the output formats are C21's
    ds = time_e2e.run_e2e(tc.DriverProxy(ck), ck.rng, n_cases, years=tc.BOUNDARY_YEARS, ops=ops)
    hist = {}
    for d in ds:
        op, i, pred = d['op'], d['ind'], d['predicate']
        hist[(op, pred)] = hist.get((op, pred), 0) + 1
        if pred == 'raw-error' and d['got'] and (d['got'][0] == 'Timeout' or 'wall-clock guard' in str(d['got'])):
            ck.note('e2e_timeouts', ck.cov.get('e2e_timeouts', 0) + 1); continue
        known = fixed_limit_in_force(info, i) and d.get('model_predicts')
        if op in ('timeshift', 'timeshift_roundtrip') and known:
            what = {'value': 'timeshift result wrong when the path touches a %s year' % LONG[i], 'roundtrip': 'timeshift n then -n is not the identity',
                    'collision': 'timeshift maps two distinct periods to the same period'}.get(pred)
            key = lim_key(info, i, what) if what else None
        elif op == 'fill_time_series' and known and info.get('next_fixed'):
            key = lim_key(info, i, 'fill_time_series never generates %s (an input row there is lost)' % {'W': 'week 53', 'D': 'day 366'}[i])
        else:
            key = None
        if key is None:
            key = 'run:%s:%s:%s' % (op, i, pred)
        ck.violation(key, {'through': 'vtlengine.run', 'case': d['replay'], 'input': d['input'], 'got': d['got'], 'expected': d['expected']},
                     '%s on %s series: %s — input %s, got %s, expected %s' % (op, i, pred, d['input'], str(d['got'])[:120], str(d['expected'])[:120]))
    ck.note('e2e_disagreements', {'%s/%s' % k: v for k, v in hist.items()})
    ck.cov['traces_validated_against_impl'] += n_cases


def fill_single_without_groups(ck):
    """fill_time_series(ds, single) on a series with no identifier besides time must fill min..max only."""
    import eng, pandas as pd
    from vtlengine import run
    ds = eng.structure('DS_1', [eng.comp('Id_1', 'Time_Period', 'Identifier'), eng.comp('Me_1', 'Number', 'Measure')])
    df = pd.DataFrame({'Id_1': ['2020-M03', '2020-M05'], 'Me_1': [1.0, 2.0]})
    o = eng.outcome(run, script='DS_r <- fill_time_series(DS_1, single);', data_structures=eng.structures(ds), datapoints={'DS_1': df},
                    time_period_output_format='sdmx_reporting')
    ck.count(('fill-single-no-groups',))
    if o[0] == 'ok':
        got = sorted(o[1]['DS_r'].data['Id_1'])
        if got != ['2020-M03', '2020-M04', '2020-M05']:
            ck.violation('_fill_time_series_period:single without other identifiers fills the whole year like all',
                         {'script': 'DS_r <- fill_time_series(DS_1, single);', 'input': ['2020-M03', '2020-M05'], 'got': got,
                          'expected': ['2020-M03', '2020-M04', '2020-M05']}, 'fill_time_series(single) on 2020-M03,2020-M05 returns %d periods' % len(got))


def replay(ck):
    import json
    r = json.load(open(ck.replay_path)).get('replay') or {}
    print('replaying', json.dumps(r, default=str)[:400])
    if 'case' in r:
        import time_e2e
        ds = time_e2e.run_e2e(tc.DriverProxy(ck), ck.rng, 0, cases=[r['case']])
        for d in ds: print('  still disagrees:', d['op'], d['predicate'], d['input'], d['got'], d['expected'])
        sys.exit(1 if ds else 0)
    con = tc.connect()
    if r.get('macro') == 'vtl_tp_shift' and 'period' in r and 'shift' in r:
        i, y, n = tc.parse_canon(r['period'])
        got = con.execute("SELECT vtl_tp_shift({'year': %d, 'period_indicator': '%s', 'period_number': %d}::vtl_time_period, %d)" % (y, i, n, r['shift'])).fetchone()[0]
        spec = tc.driver(ck, ['S %s %d %d %d %d' % (i, y, n, r['shift'], r['shift'])])[0].split('|')[0].strip()
        print('  macro gives %s, the calendar says %s' % (got, spec))
        g = tc.parse_canon(got)
        sys.exit(0 if g and '%d:%d' % (g[1], g[2]) == spec else 1)
    if r.get('macro') and 'period' in r:
        i, y, n = tc.parse_canon(r['period'])
        extra = ", '%s'" % r['target'] if 'target' in r else ''
        got = con.execute("SELECT %s({'year': %d, 'period_indicator': '%s', 'period_number': %d}::vtl_time_period%s)" % (r['macro'], y, i, n, extra)).fetchone()[0]
        print('  macro gives %s, expected %s' % (got, r.get('calendar') or r.get('expected')))
        sys.exit(0 if str(got) == str(r.get('calendar')) else 1)
    print('  (nothing replayable in this file)'); sys.exit(2)


def main(ck):
    if ck.replay_path:
        return replay(ck)
    info, shape_err = tc.gen_macros(ck)
    pr = ck.proof('C08')
    state = {'model_bad': []}
    quick = ck.quick()
    years = sorted(set(tc.BOUNDARY_YEARS) | set(ck.rng.sample(range(1900, 2101), 4))) if quick else list(range(1900, 2101))
    per = tc.all_periods(years)
    import time
    times, t0 = {'proof': round(time.time() - ck.t0, 1)}, time.time()

    def lap(name):
        nonlocal t0
        times[name] = round(time.time() - t0, 1); t0 = time.time()
    bad = validate_model(ck); lap('model_validation')
    con = tc.connect()
    macro_shift(ck, con, info, per, state); lap('macro_shift')
    macro_dates(ck, con, per, state); lap('macro_dates')
    macro_agg(ck, con, per, state); lap('macro_agg')
    macro_misc(ck, con, per, state, 3000 if quick else 40000); lap('macro_misc')
    fill_single_without_groups(ck)
    e2e(ck, info, 84 if quick else 1200, state); lap('e2e')
    ck.note('phase_seconds', times)
    ck.note('years', [years[0], years[-1], len(years)])
    ck.note('periods', len(per))
    concrete = [v for v in ck.viol if not v[3]] or ck.known_hits
    # obligations / correspondences that no longer check, after the search above looked for a failing input
    for b in bad[:3] + state['model_bad'][:3]:
        ck.unproved('model-validation:%s' % b[0], 'Lean model disagrees with Python datetime on %r: model %r, datetime %r' % (b[1], b[2], b[3]))
    if shape_err and not [v for v in ck.viol if not v[3]]:
        ck.unproved('translator:time_macros', shape_err)
    if not pr['ok'] and not [v for v in ck.viol if not v[3]]:
        for t in (pr['failed'] or pr['forbidden'] or pr['bad_axioms'] or ['build']):
            ck.unproved('theorem:%s' % t, 'Props/C08 no longer builds: %s' % pr['log'][-400:])
    if True:
        for i, ok in state.get('shift_model_ok', {}).items():
            if not ok and not [v for v in ck.viol if not v[3] and (':%s:' % i) in v[0]]:
                p, g, m = state['shift_first_model_diff'][i]
                ck.unproved('correspondence:vtl_tp_shift:%s' % i, 'macro and its Lean transcription differ first at %s: macro %s…, model %s…' % (tc.canon(*p), g, m))
    ck.trusted('translator harness/translate/time_macros.py (literal tables + shape of vtl_tp_shift / _TP_NEXT_PERIOD)',
               'correspondence harness (DuckDB macros installed by initialize_time_types; one vectorised query per macro)',
               'Python datetime/calendar as the independent calendar oracle (1900-2100 exhaustive)',
               'DuckDB date functions (STRPTIME %G-W%V, LAST_DAY, INTERVAL arithmetic): modelled, not verified')
    ck.assumptions.append('getmonth/dayofmonth/dayofyear of a period are adopted from the implementation: month of the first day, day-of-month / day-of-year of the last day')
    ck.assumptions.append('time_agg to target "D" is rejected by the engine at semantic level (1-1-19-5); not generated')
    ck.assumptions.append('flow_to_stock / stock_to_flow are checked end-to-end against a Python cumulative-sum oracle only (no Lean theorem)')


if __name__ == '__main__':
    vlib.run_check('C08', main)

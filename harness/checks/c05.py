"""C05 — set operators match datapoints by identifiers across all operands.
Lean: Props/C05.lean over VtlModel.Sem; tie: correspondence model <-> real run()."""
import os
import sys
sys.path.insert(0, os.path.join(os.path.dirname(os.path.abspath(__file__)), '..'))
import vlib
from sem import check_common as CC

OPERAND = {'arith_c', 'unary_num', 'concat_c', 'str_un', 'not', 'filter', 'nvl'}


def main(ck):
    if ck.replay_path:
        return CC.replay(ck)
    pr = ck.proof('C05')
    q = ck.quick()
    res = []
    res += CC.run_stream(ck, 'set-op', 120 if q else 3000, dict(allow={'setop'}, max_rows=10, nary_intersect=True, shuffle_decl=True), dict(depth=1))
    res += CC.run_stream(ck, 'set-op-nested', 80 if q else 2500, dict(allow={'setop'} | OPERAND, max_rows=10), dict())
    res += CC.run_stream(ck, 'set-op-flat', 100 if q else 2500, dict(allow={'setop'} | OPERAND, flat=True, max_rows=10, shuffle_decl=True), dict())
    CC.report(ck, res)
    ck.cov['rule'] = ('case = (script, input data); non-trivial = model and engine agree on a non-empty result; distinct by (script, data)')
    if not pr['ok'] and not ck.viol:
        ck.unproved('Props.C05:' + ','.join(pr['failed'] or pr['forbidden'] or pr['bad_axioms']), 'Lean build/audit failed: ' + pr['log'][-400:])
    ck.trusted('correspondence harness (harness/sem: generator, canonicaliser, comparison rules)', 'stand-in parser harness/vtlstub',
               'modelled not verified: DuckDB evaluation of the generated SQL, in particular that the UNION ALL branches keep their '
               'textual order under ROW_NUMBER() OVER () (BranchOrderPreserved, a DuckDB runtime assumption; see C15/C33)')
    ck.assumptions += ['operands have unique identifier keys and the same structure (semantic analysis rejects the rest)']


vlib.run_check('C05', main)

"""C18 — CSV, DataFrame (string or native dtypes) and Parquet inputs with the same content behave identically.

Proof: Props/C18.lean (InputSpec's verdict on the CSV presentation `encode (header :: rows)` equals its verdict
on the abstract cells, via Csv.decode_encode; DataFrame / Parquet presentations are the typed cells themselves).
Tie (K): every generated table is written in five forms (csv, df_str, df_native, pq_str, pq_native) and given
to the real run() with an identity script; the outcomes are compared pairwise (all rejected with a VTL input
error, or all accepted with equal results).
"""
import json
import os
import sys

sys.path.insert(0, os.path.join(os.path.dirname(os.path.abspath(__file__)), '..'))
sys.path.insert(0, os.path.dirname(os.path.abspath(__file__)))
import vlib
import input_common as ic
import input_gen as ig
import c19


def results_equal(types, a, b):
    """two engine outcomes ('ok', cols, rows): equal results?"""
    if list(a[1]) != list(b[1]) or len(a[2]) != len(b[2]):
        return False
    k = ic._sort_key(types)
    for ra, rb in zip(sorted(a[2], key=k), sorted(b[2], key=k)):
        for t, x, y in zip(types, ra, rb):
            if x is None or y is None:
                if x is not y:
                    return False
            elif t == 'Number':
                fx, fy = ic._num_of_engine(x), ic._num_of_engine(y)
                if fx is None or fy is None or not (fx == fy or abs(fx - fy) <= max(1e-12, 1e-9 * max(abs(fx), abs(fy)))):
                    return False
            elif x != y:
                return False
    return True


def main(ck):
    ic.regen_patterns(ck)
    pr = ck.proof('C18')
    ck.trusted('correspondence harness harness/checks/c18.py + input_common.py (five presentations of the same cells; results compared as sets of rows, Number within 1e-9)',
               'pandas / pyarrow build the DataFrame and Parquet presentations')
    ck.assumptions += ['a native-dtype presentation exists only for columns whose cells are all plain values of the type (int, float, bool, datetime64[us])',
                       'a CSV file cannot distinguish the empty string from NULL in a String column: that cell is not presented in CSV form']
    if ck.replay_path:
        rp = json.load(open(ck.replay_path))
        cases = [dict(rp['replay']['case'], type=rp['replay'].get('type', 'table'), vclass=rp['replay'].get('value_class', '?'), role='-', forms=ic.FORMS)]
    else:
        samples = int(os.environ.get('VERIF_INPUT_SAMPLES') or (1 if ck.quick() else 2))
        cases = []
        for c in c19.make_cases(ck, samples):
            if ck.quick() and ck.rng.random() > 0.45:
                continue   # quick tier: a seeded sample of the value classes (thorough: all of them)
            c['forms'] = [f for f in ic.FORMS if not (f == 'csv' and c['type'] == 'String' and c['text'] == '')]
            cases.append(c)
        for kind in ig.STRUCT_KINDS:
            for _ in range(0 if (os.environ.get('VERIF_INPUT_FILTER') and 'table' not in os.environ['VERIF_INPUT_FILTER'].split(',')) else int(os.environ.get('VERIF_INPUT_NSTRUCT') or (2 if ck.quick() else 5))):
                c = ig.structural_case(ck.rng, kind)
                c.update(type='table', vclass=kind, role='-', forms=ic.FORMS)
                cases.append(c)
    specs = ic.spec_verdicts(ck, cases)
    outs = ic.pool_map('run_case', [dict(ic.strip_case(c), focus=c.get('focus'), forms=c['forms'], validate=False) for c in cases])
    hist = {}
    for c, s, o in zip(cases, specs, outs):
        forms = [f for f in c['forms'] if f in o['run'] and o['run'][f][0] != 'timeout']
        if len(forms) < 2:
            continue
        ck.count((c['type'], c['vclass'], c.get('role'), c.get('text'), tuple(forms)))
        kinds = {f: ic.engine_kind(o['run'][f]) for f in forms}
        types = [x['type'] for x in c['struct']]
        all_rej = all(k == 'reject' for k in kinds.values())
        all_acc = all(k == 'accept' for k in kinds.values())
        hist['all-rejected' if all_rej else 'all-accepted' if all_acc else 'mixed'] = hist.get('all-rejected' if all_rej else 'all-accepted' if all_acc else 'mixed', 0) + 1
        subj = ('%s value %r (%s, as %s)' % (c['type'], c.get('text'), c['vclass'], {'me': 'measure', 'id': 'identifier'}.get(c.get('role'), c.get('role')))
                if c.get('text') is not None else 'table with %s' % c['vclass'])
        arb = 'InputSpec accepts it' if s[0] == 'accept' else 'InputSpec rejects it (%s)' % s[1]
        if all_rej or (len(set(kinds.values())) == 1 and not all_acc):
            continue   # the same failure in every form (its error class is C19's business)
        # pairwise comparison: one finding per pair of forms that behave differently
        def same(f, g):
            if kinds[f] != kinds[g]:
                return False
            return kinds[f] != 'accept' or results_equal(types, o['run'][f], o['run'][g])
        def short(f):
            k = kinds[f]
            return k if k in ('accept', 'reject') else ':'.join(k.split(':')[:2])
        for i, f in enumerate(forms):
            for g in forms[i + 1:]:
                if same(f, g):
                    continue
                if kinds[f] == 'accept' and kinds[g] == 'accept':
                    key = '%s:%s:%s!=%s:results-differ' % (c['type'], c['vclass'], f, g)
                    what = 'the same cells give different results as %s and as %s input for %s: %s vs %s' % (f, g, subj, o['run'][f][2][:2], o['run'][g][2][:2])
                else:
                    key = '%s:%s:%s!=%s:%s/%s' % (c['type'], c['vclass'], f, g, short(f), short(g))
                    what = 'the same cells are treated differently as %s (%s) and as %s (%s) input for %s; %s' % (f, kinds[f], g, kinds[g], subj, arb)
                ck.violation(key, {'case': ic.strip_case(c), 'type': c['type'], 'value_class': c['vclass'], 'role': c.get('role'), 'forms': [f, g],
                                   'outcomes': {x: (kinds[x], o['run'][x][2][:3] if kinds[x] == 'accept' else [str(y)[:200] for y in o['run'][x][1:3]]) for x in (f, g)},
                                   'inputspec': list(s) if s[0] == 'reject' else ['accept']}, what)
    for c, s, o in list(zip(cases, specs, outs))[:3]:
        ck.sample({'table': ic.strip_case(c), 'outcomes': {f: ic.engine_kind(x) for f, x in o['run'].items()}})
    ck.note('outcome_histogram', hist)
    if not pr['ok'] and not ck.viol:
        ck.unproved('Props/C18', 'lake build / audit of Props/C18.lean failed: %s' % (pr['failed'] or pr['bad_axioms'] or pr['forbidden']), pr['log'][-1500:])
    ic.cleanup()


if __name__ == '__main__':
    vlib.run_check('C18', main)

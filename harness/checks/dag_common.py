"""Shared machinery of the Dag group (C12 statement order, C13 load/release schedule).

Shapes.  A *shape* is a list of statements `(out, ops, persistent)`: `out` = index of the result name
(`DS_r<out>`), `ops` = tuple of operands, each `('i', k)` (global input `DS_<k>`) or `('r', j)` (result
`DS_r<j>`), `persistent` = bool.  One operand renders as `X * 2`, two as `X + Y`, three as `X + Y + Z`.
Every dataset has the structure Id_1:Integer identifier, Me_1:Number measure, so every combination is
well typed.  The *intended* dependency structure of a script is read off the shape (never from the
engine's own DAG visitor), so that a wrong visitor is a disagreement.

Lean names: input k -> k, result j -> 100 + j.  Script encoding for lean/Drivers/Dag.lean:
`out:p:in,in|...`.
"""
from __future__ import annotations

import itertools
import os
import re
import signal
import sys

HERE = os.path.dirname(os.path.abspath(__file__))
sys.path.insert(0, os.path.join(HERE, '..'))

CYCLE, REDEF = '1-3-2-3', '1-2-2'


# ------------------------------------------------------------------------------------------ shapes
def in_name(k): return 'DS_%d' % k
def out_name(j): return 'DS_r%d' % j
def op_name(op): return in_name(op[1]) if op[0] == 'i' else out_name(op[1])
def op_lean(op): return op[1] if op[0] == 'i' else 100 + op[1]


def lean_of_name(nm):
    return 100 + int(nm[4:]) if nm.startswith('DS_r') else int(nm[3:])


def name_of_lean(n):
    return out_name(n - 100) if n >= 100 else in_name(n)


def render_stmt(st):
    out, ops, pers = st
    names = [op_name(o) for o in ops]
    rhs = names[0] + ' * 2' if len(names) == 1 else ' + '.join(names)
    return '%s %s %s;' % (out_name(out), '<-' if pers else ':=', rhs)


def render(shape):
    return '\n'.join(render_stmt(st) for st in shape)


def dedup(xs):
    seen, out = set(), []
    for x in xs:
        if x not in seen:
            seen.add(x); out.append(x)
    return out


def lean_stmt(st):
    out, ops, pers = st
    return '%d:%d:%s' % (100 + out, 1 if pers else 0, ','.join(str(x) for x in dedup(op_lean(o) for o in ops)))


def lean_script(shape):
    return '|'.join(lean_stmt(st) for st in shape) if shape else '-'


def inputs_of(shape):
    return sorted({o[1] for st in shape for o in st[1] if o[0] == 'i'})


def op_choices(pool, max_ops):
    out = []
    for r in range(1, max_ops + 1):
        out += list(itertools.combinations(pool, r))
    return out


def acyclic_shapes(n, m, max_ops=2):
    """All shapes with n statements in a valid order over m inputs (statement i reads inputs and
    results of earlier statements); persistent flags are NOT enumerated here."""
    pools = [op_choices([('i', k) for k in range(1, m + 1)] + [('r', j) for j in range(1, i + 1)], max_ops)
             for i in range(n)]
    for combo in itertools.product(*pools):
        yield [(i + 1, combo[i]) for i in range(n)]


def count_acyclic(n, m, max_ops=2):
    c = 1
    for i in range(n):
        c *= len(op_choices(list(range(m + i)), max_ops))
    return c


def general_shapes(n, m, max_ops=2):
    """All shapes where a statement may read any result (itself and later ones too): cycles."""
    pool = op_choices([('i', k) for k in range(1, m + 1)] + [('r', j) for j in range(1, n + 1)], max_ops)
    for combo in itertools.product(*([pool] * n)):
        yield [(i + 1, combo[i]) for i in range(n)]


def with_flags(base, flags):
    return [(o, ops, bool(flags[i])) for i, (o, ops) in enumerate(base)]


def random_acyclic(rng, n, m, max_ops=3):
    base = []
    for i in range(n):
        pool = [('i', k) for k in range(1, m + 1)] + [('r', j) for j in range(1, i + 1)]
        # prefer reading earlier results so that chains / fan-out appear
        k = rng.choice([1, 2, 2, 2, 3][:2 + max_ops])
        k = min(k, len(pool), max_ops)
        ops = []
        for _ in range(k):
            if i > 0 and rng.random() < 0.6:
                ops.append(('r', rng.randint(1, i)))
            else:
                ops.append(('i', rng.randint(1, m)))
        if rng.random() < 0.9:
            ops = dedup(ops)
        base.append((i + 1, tuple(ops)))
    return with_flags(base, [rng.random() < 0.5 for _ in range(n)])


def random_general(rng, n, m, dup_prob=0.3):
    """possibly cyclic and / or with a redefinition"""
    st = []
    for i in range(n):
        pool = [('i', k) for k in range(1, m + 1)] + [('r', j) for j in range(1, n + 1)]
        k = rng.choice([1, 2, 2])
        ops = tuple(dedup(rng.choice(pool) for _ in range(k)))
        st.append((i + 1, ops, rng.random() < 0.5))
    if n >= 2 and rng.random() < dup_prob:
        a, b = rng.sample(range(n), 2)
        st[a] = (st[b][0], st[a][1], st[a][2])
    return st


def permutations_of(rng, shape, cap):
    n = len(shape)
    idx = list(range(n))
    total = 1
    for i in range(2, n + 1): total *= i
    if total <= cap:
        return [list(p) for p in itertools.permutations(idx)]
    if cap == 1:
        p = idx[:]; rng.shuffle(p)
        return [p]
    seen, out = set(), []
    out.append(idx[:]); seen.add(tuple(idx))
    out.append(idx[::-1]); seen.add(tuple(idx[::-1]))
    while len(out) < cap:
        p = idx[:]; rng.shuffle(p)
        if tuple(p) not in seen:
            seen.add(tuple(p)); out.append(p)
    return out


def apply_perm(shape, p):
    return [shape[i] for i in p]


# ------------------------------------------------------------------------------- python-side oracle
def py_pred(shape):
    """independent (python) evaluation of dup / cycle on the intended structure; used to cross-check
    the Lean predicates, and to classify cases"""
    outs = [st[0] for st in shape]
    dup = len(set(outs)) != len(outs)
    rem = list(shape)
    while True:
        remouts = {st[0] for st in rem}
        nxt = [st for st in rem if any(o[0] == 'r' and o[1] in remouts for o in st[1])]
        if len(nxt) == len(rem): break
        rem = nxt
    return dup, bool(rem)


def strip_nonpersistent_selfrefs(shape):
    """`DS_r := DS_r + X` — DAGAnalyzer.statement_structure drops the self input of a non-persistent
    assignment (the engine rejects such scripts later, not as a cycle)."""
    return [(o, tuple(x for x in ops if not (x == ('r', o) and not p)), p) for o, ops, p in shape]


def oracle_values(shape, ids=(1, 2, 3)):
    """value of Me_1 per Id for every result, computed from the full script (inputs: DS_k has
    Me_1 = 5**k * id)"""
    defs = {st[0]: st for st in shape}
    memo = {}

    def val(op):
        if op[0] == 'i':
            return [float(5 ** op[1] * i) for i in ids]
        j = op[1]
        if j not in memo:
            _, ops, _ = defs[j]
            vs = [val(o) for o in ops]
            memo[j] = [v * 2 for v in vs[0]] if len(vs) == 1 else [sum(t) for t in zip(*vs)]
        return memo[j]
    return {out_name(j): val(('r', j)) for j in defs}


# -------------------------------------------------------------------------------- real-engine side
_W = {}


def _init_worker():
    import eng  # noqa: F401  (boots vtlengine under the stand-in parser, hooks enabled)
    import pandas as pd
    import vtlengine._verif as V
    from vtlengine import run, semantic_analysis
    from vtlengine.API import create_ast
    from vtlengine.AST.DAG import DAGAnalyzer
    _W.update(eng=eng, pd=pd, V=V, run=run, sem=semantic_analysis, create_ast=create_ast, DAG=DAGAnalyzer)


class _Timeout(Exception):
    pass


def _alarm(signum, frame):
    raise _Timeout()


def _guard(fn, secs=120):
    if not _W: _init_worker()
    signal.signal(signal.SIGALRM, _alarm)
    signal.alarm(secs)
    try:
        return fn()
    except _Timeout:
        return {'ok': False, 'kind': 'timeout'}
    finally:
        signal.alarm(0)


def _err(e):
    eng = _W['eng']
    if isinstance(e, eng.VTLEngineException):
        a = getattr(e, 'args', ())
        code = a[1] if len(a) > 1 and isinstance(a[1], str) else getattr(e, 'code', None)
        return {'ok': False, 'kind': 'vtl', 'cls': type(e).__name__, 'code': code, 'msg': str(e)[:200]}
    return {'ok': False, 'kind': 'raw', 'cls': type(e).__module__ + '.' + type(e).__name__, 'msg': str(e)[:300]}


def dag_case(script):
    """real create_ast + DAGAnalyzer.create_dag + DAGAnalyzer.ds_structure on the sorted AST"""
    def go():
        try:
            ast = _W['create_ast'](script)
            written = [c.left.value for c in ast.children]
            dag = _W['DAG'].create_dag(ast)
            order = [c.left.value for c in ast.children]
            kinds = [type(c).__name__ for c in ast.children]
            deps = {k: (list(d.inputs), list(d.outputs), list(d.persistent)) for k, d in dag.dependencies.items()}
            sc = _W['DAG'].ds_structure(ast)
            sched = {'insertion': {int(k): list(v) for k, v in sc.insertion.items()},
                     'deletion': {int(k): list(v) for k, v in sc.deletion.items()},
                     'global_inputs': list(sc.global_inputs), 'persistent': list(sc.persistent),
                     'all_outputs': list(sc.all_outputs)}
            return {'ok': True, 'written': written, 'order': order, 'kinds': kinds, 'deps': deps,
                    'sorting': list(dag.sorting or []), 'sched': sched}
        except BaseException as e:  # noqa: BLE001
            if isinstance(e, (KeyboardInterrupt, SystemExit, _Timeout)): raise
            return _err(e)
    return _guard(go)


def external_scalars(script):
    """external scalar inputs are spelled xsc_<k> in the generated scripts; xsc_k has the value k + 1"""
    return sorted(set(re.findall(r'\bxsc_\d+\b', script or '')))


def _structures(inputs, script=None):
    st = {'datasets': [{'name': in_name(k), 'DataStructure': [
        {'name': 'Id_1', 'type': 'Integer', 'role': 'Identifier', 'nullable': False},
        {'name': 'Me_1', 'type': 'Number', 'role': 'Measure', 'nullable': True}]} for k in inputs]}
    xs = external_scalars(script)
    if xs:
        st['scalars'] = [{'name': x, 'type': 'Integer'} for x in xs]
    return st


def _scalar_values(script):
    xs = external_scalars(script)
    return {x: int(x.split('_')[1]) + 1 for x in xs} if xs else None


def _datapoints(inputs, ids=(1, 2, 3)):
    pd = _W['pd']
    return {in_name(k): pd.DataFrame({'Id_1': list(ids), 'Me_1': [float(5 ** k * i) for i in ids]}) for k in inputs}


def run_case(arg):
    """real run() with the event trace (and the DuckDB catalog at every hook point)"""
    script, inputs, rop, want_trace = arg

    def go():
        V = _W['V']
        ev, st = [], {}

        def sink(kind, name, info):
            if kind == 'connected':
                st['conn'] = info
                return
            if kind in ('load', 'stmt', 'drop', 'fetch', 'results'):
                cat = None
                try:
                    cur = st['conn'].cursor()
                    cat = sorted(r[0] for r in cur.execute('SELECT table_name FROM duckdb_tables()').fetchall())
                except Exception as e:  # noqa: BLE001
                    cat = 'catalog-error: %r' % (e,)
                reads = None
                if kind == 'stmt':
                    sql = info[1]
                    try:
                        reads = sorted(st['conn'].get_table_names(sql))
                    except Exception:  # noqa: BLE001
                        reads = sorted(set(re.findall(r'(?:FROM|JOIN)\s+"([^"]+)"', sql)))
                    info = info[0]
                ev.append([kind, name, info if kind != 'results' else list(info), cat, reads])
        V.sink = sink if want_trace else None
        try:
            res = _W['run'](script, _structures(inputs, script), _datapoints(inputs), scalar_values=_scalar_values(script),
                            return_only_persistent=rop)
            out = {}
            for k, v in res.items():
                df = getattr(v, 'data', None)
                if df is None:
                    out[k] = None
                else:
                    rows = sorted((int(r[0]), None if r[1] is None or r[1] != r[1] else float(r[1]))
                                  for r in df[['Id_1', 'Me_1']].itertuples(index=False, name=None))
                    out[k] = rows
            return {'ok': True, 'results': out, 'trace': ev}
        except BaseException as e:  # noqa: BLE001
            if isinstance(e, (KeyboardInterrupt, SystemExit, _Timeout)): raise
            d = _err(e); d['trace'] = ev
            return d
        finally:
            V.sink = None
    return _guard(go)


def sem_case(arg):
    script, inputs = arg

    def go():
        try:
            res = _W['sem'](script, _structures(inputs, script))
            out = {}
            for k, v in res.items():
                comps = getattr(v, 'components', None)
                out[k] = None if comps is None else sorted(
                    (c.name, getattr(c.role, 'value', str(c.role)), c.data_type.__name__, bool(c.nullable))
                    for c in comps.values())
            return {'ok': True, 'structures': out}
        except BaseException as e:  # noqa: BLE001
            if isinstance(e, (KeyboardInterrupt, SystemExit, _Timeout)): raise
            return _err(e)
    return _guard(go)


class Engine:
    """process pool around the real engine"""

    def __init__(self, procs=None):
        import multiprocessing as mp
        self.pool = mp.get_context('fork').Pool(procs or min(16, os.cpu_count() or 4), initializer=_init_worker)

    def map(self, fn, args, chunk=8):
        args = list(args)
        if not args: return []
        return self.pool.map(fn, args, chunksize=max(1, min(chunk, len(args) // 32 + 1)))

    def close(self):
        self.pool.terminate()
        self.pool.join()


# ------------------------------------------------------------------------------------- comparisons
def intended_deps(shape):
    """(inputs in first-occurrence order, outputs, persistent) per written statement, the way
    DAGAnalyzer records them (non-persistent self input dropped)"""
    out = {}
    for i, (o, ops, p) in enumerate(strip_nonpersistent_selfrefs(shape), 1):
        ins = dedup(op_name(x) for x in ops)
        out[i] = (ins, [] if p else [out_name(o)], [out_name(o)] if p else [])
    return out


def shape_in_order(shape, order_names):
    """the statements of `shape` (distinct outputs) arranged as the engine ordered them"""
    by = {out_name(st[0]): st for st in shape}
    return [by[n] for n in order_names]


def parse_dict(s):
    out = {}
    if s:
        for part in s.split(';'):
            k, v = part.split(':')
            out[int(k)] = [name_of_lean(int(x)) for x in v.split(',') if x]
    return out


def parse_usage(ans):
    f = dict(p.split('=', 1) for p in ans.split(' '))
    return {'insertion': parse_dict(f['ins']), 'deletion': parse_dict(f['del']),
            'global_inputs': [name_of_lean(int(x)) for x in f['glob'].split(',') if x],
            'persistent': [name_of_lean(int(x)) for x in f['pers'].split(',') if x]}


def parse_replay(ans):
    m = re.match(r'safe=(\w+) fetched=(\S*) expected=(\S*) events=(.*)$', ans)
    return {'safe': m.group(1) == 'true', 'fetched': [int(x) for x in m.group(2).split(',') if x],
            'expected': [int(x) for x in m.group(3).split(',') if x], 'events': m.group(4).split()}


def trace_to_events(trace):
    """real hook events -> model events (list of (token, catalog_before)).
    `cleanup_scheduled_datasets` emits `drop x` *before* it fetches x (when x is returned) and before
    the DROP itself; `fetch x` directly after `drop x` therefore means fetch-then-drop."""
    out, i, results = [], 0, None
    while i < len(trace):
        kind, name, info, cat, reads = trace[i]
        if kind == 'load':
            out.append(('L%d' % lean_of_name(name), cat))
        elif kind == 'stmt':
            for r in reads or []:
                out.append(('R%d' % lean_of_name(r), cat))
            out.append(('C%d' % lean_of_name(name), cat))
        elif kind == 'drop':
            if i + 1 < len(trace) and trace[i + 1][0] == 'fetch' and trace[i + 1][1] == name:
                out.append(('F%d' % lean_of_name(name), trace[i + 1][3]))
                out.append(('D%d' % lean_of_name(name), trace[i + 1][3]))
                i += 1
            else:
                out.append(('D%d' % lean_of_name(name), cat))
        elif kind == 'fetch':
            out.append(('F%d' % lean_of_name(name), cat))
        elif kind == 'results':
            results = (info, cat)
        i += 1
    return out, results


def norm_events(tokens):
    """reads of one statement compared as a set (SQL order vs script order)"""
    out, run_ = [], []
    for t in tokens:
        if t[0] == 'R':
            run_.append(t)
        else:
            out += sorted(set(run_)); run_ = []
            out.append(t)
    return out + sorted(set(run_))


def py_live_check(events):
    """direct check of the property on a real trace (independent of Lean): returns list of problems"""
    probs, live, loaded, dropped = [], set(), set(), set()
    for i, (tok, cat) in enumerate(events):
        k, n = tok[0], int(tok[1:])
        if isinstance(cat, list) and sorted(name_of_lean(x) for x in live) != cat:
            probs.append(('catalog-differs-from-events', i, tok, sorted(name_of_lean(x) for x in live), cat))
        if k == 'L':
            if n in loaded: probs.append(('input-loaded-twice', i, tok))
            loaded.add(n); live.add(n)
        elif k == 'C':
            if n in live: probs.append(('create-over-existing-table', i, tok))
            live.add(n)
        elif k == 'R':
            if n not in live: probs.append(('read-of-non-live-table', i, tok))
            if isinstance(cat, list) and name_of_lean(n) not in cat: probs.append(('read-of-table-not-in-catalog', i, tok))
        elif k == 'F':
            if n not in live: probs.append(('fetch-of-non-live-table', i, tok))
        elif k == 'D':
            if n in dropped: probs.append(('table-dropped-twice', i, tok))
            if n not in live: probs.append(('drop-of-non-live-table', i, tok))
            dropped.add(n); live.discard(n)
    return probs, live


def gen_shapes(ck, quick):
    """the shape population shared by C12 and C13: returns dict label -> list of shapes"""
    rng = ck.rng
    pop = {}
    ex = []
    for n in (1, 2, 3):
        for m in ((1, 2) if quick else (1, 2, 3)):
            for base in acyclic_shapes(n, m):
                if n == 3 and m == 3:
                    # 900 shapes: one random persistent mix each (all mixes for the smaller ones)
                    ex.append(with_flags(base, [rng.random() < 0.5 for _ in range(n)]))
                    continue
                for flags in itertools.product([0, 1], repeat=n):
                    ex.append(with_flags(base, flags))
    pop['acyclic_exhaustive_n<=3'] = ex
    s4 = []
    if quick:
        bases = list(acyclic_shapes(4, 3))
        for base in rng.sample(bases, 250):
            s4.append(with_flags(base, [rng.random() < 0.5 for _ in range(4)]))
    else:
        bases = list(acyclic_shapes(4, 3))
        for base in rng.sample(bases, 6000):
            s4.append(with_flags(base, [rng.random() < 0.5 for _ in range(4)]))
    pop['acyclic_n=4_m=3_sampled'] = s4
    big = []
    for _ in range(150 if quick else 1000):
        n = rng.choice([4, 5, 5, 6, 6])
        big.append(random_acyclic(rng, n, rng.randint(1, 4)))
    pop['acyclic_sampled_n<=6_m<=4'] = big
    gen = []
    for n in (1, 2):
        for base in general_shapes(n, 2):
            for flags in itertools.product([0, 1], repeat=n):
                gen.append(with_flags(base, flags))
    if not quick:
        for base in general_shapes(3, 2):
            gen.append(with_flags(base, [rng.random() < 0.5 for _ in range(3)]))
    pop['general_exhaustive_n<=%d' % (2 if quick else 3)] = gen
    gs = []
    for _ in range(300 if quick else 1500):
        gs.append(random_general(rng, rng.choice([2, 3, 3, 4, 4, 5]), rng.randint(1, 3)))
    pop['general_sampled_cycles_dups'] = gs
    return pop

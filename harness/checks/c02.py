"""C02 — clause operators (filter, calc, keep, drop, rename, sub) behave as specified.
Lean: Props/C02.lean over VtlModel.Sem; tie: correspondence model <-> real run()."""
import os
import sys
sys.path.insert(0, os.path.join(os.path.dirname(os.path.abspath(__file__)), '..'))
import vlib
from sem import check_common as CC
import c02_ext

CLAUSE = {'filter', 'calc', 'rename', 'keepdrop', 'sub'}
INNER = {'arith_c', 'unary_num', 'concat_c', 'str_un', 'not', 'zip_arith', 'setop'}


def main(ck):
    if ck.replay_path:
        return c02_ext.replay(ck) if c02_ext.is_ext_replay(ck.replay_path) else CC.replay(ck)
    c02_ext.prebuild(ck)
    pr = ck.proof('C02', extra_modules=('VtlModel.Props.C02Ext',))
    q = ck.quick()
    res = []
    res += CC.run_stream(ck, 'single-clause', 80 if q else 2500, dict(allow=CLAUSE), dict(depth=1))
    res += CC.run_stream(ck, 'clause-chain', 100 if q else 3000, dict(allow=CLAUSE), dict())            # chains of 1-4 clauses, nested brackets
    res += CC.run_stream(ck, 'clause-chain-flat', 80 if q else 2500, dict(allow=CLAUSE | INNER, flat=True), dict())
    res += CC.run_stream(ck, 'clause-over-expression', 60 if q else 2000, dict(allow=CLAUSE | INNER), dict())
    res += CC.clause_sees_previous_stream(ck, 'clause-sees-previous', 40 if q else 600)
    CC.report(ck, res)
    c02_ext.run_ext(ck)          # unpivot, pivot, aggr clause, calc with roles, attributes (Props/C02Ext.lean)
    ck.cov['rule'] = ('case = (script, input data); non-trivial = model and engine agree on a non-empty result; distinct by (script, data)')
    if not pr['ok'] and not ck.viol:
        ck.unproved('Props.C02:' + ','.join(pr['failed'] or pr['forbidden'] or pr['bad_axioms']), 'Lean build/audit failed: ' + pr['log'][-400:])
    ck.trusted('correspondence harness (harness/sem: generator, canonicaliser, comparison rules)', 'stand-in parser harness/vtlstub',
               'modelled not verified: DuckDB evaluation of the generated SQL')
    ck.assumptions += ['VTL clause semantics as restated in lean/VtlModel/Sem/Eval.lean (calc items are evaluated simultaneously on the input row; '
                       'overwritten measures move to the end of the component list, as semantic_analysis reports)',
                       'core streams: identifiers and measures only; attributes, unpivot, pivot, aggr clause, calc with roles: extension stream (checks/c02_ext.py)']


vlib.run_check('C02', main)

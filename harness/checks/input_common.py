"""Shared machinery of the `Input` group (C14, C18, C19, C20).

An *abstract table* is (structure, column names, rows of Optional[str]).  It is presented to the real
engine in several forms (csv, df_str, df_native, pq_str, pq_native) and to the Lean InputSpec through
lean/Drivers/Input.lean.  Everything that touches the real engine runs in worker processes (pool),
each call under a wall-clock alarm, in a private temp directory.
"""
from __future__ import annotations

import json
import math
import os
import shutil
import signal
import sys
import tempfile

HERE = os.path.dirname(os.path.abspath(__file__))
sys.path.insert(0, os.path.join(HERE, '..'))

FORMS = ['csv', 'df_str', 'df_native', 'pq_str', 'pq_native']
SCRIPT = 'DS_r <- DS_1;'
INPUT_ERRORS = ('DataLoadError', 'InputValidationException')
CALL_BUDGET = 300

_TMP = None


def tmpdir():
    global _TMP
    if _TMP is None or not os.path.isdir(_TMP):
        _TMP = tempfile.mkdtemp(prefix='verif_input_%d_' % os.getpid())
    return _TMP


def cleanup():
    global _TMP
    if _TMP and os.path.isdir(_TMP):
        shutil.rmtree(_TMP, ignore_errors=True)
    _TMP = None


# --------------------------------------------------------------------------- CSV (mirror of Lean Csv.encode)
def csv_field(v):
    """Dialect DuckDB writes: NULL -> empty unquoted field; '' -> ""; a field is quoted iff it is empty or
    contains comma / quote / CR / LF; quotes doubled."""
    if v is None:
        return ''
    if v == '' or any(c in v for c in ',"\r\n'):
        return '"' + v.replace('"', '""') + '"'
    return v


def csv_encode(rows):
    return ''.join(','.join(csv_field(v) for v in r) + '\n' for r in rows)


# --------------------------------------------------------------------------- native presentations
def _native_column(typ, cells):
    """Return (pandas Series | None).  None = this column has no faithful native presentation
    (some cell is not a plain value of the type) -> the string presentation is used."""
    import pandas as pd
    import re
    vals = [c for c in cells if c is not None]
    if typ == 'Integer':
        if all(re.fullmatch(r'-?(0|[1-9]\d{0,17})', v) for v in vals):
            return pd.array([None if c is None else int(c) for c in cells], dtype='Int64')
        if all(re.fullmatch(r'-?\d+\.\d+', v) for v in vals):
            return pd.array([None if c is None else float(c) for c in cells], dtype='Float64')
        return None
    if typ == 'Number':
        if all(re.fullmatch(r'-?\d+(\.\d+)?([eE][-+]?\d+)?', v) for v in vals) and \
                all(float(v) == 0 or 1e-6 <= abs(float(v)) < 1e15 for v in vals):
            return pd.array([None if c is None else float(c) for c in cells], dtype='Float64')
        return None
    if typ == 'Boolean':
        if all(v.lower() in ('true', 'false') for v in vals):
            return pd.array([None if c is None else c.lower() == 'true' for c in cells], dtype='boolean')
        if all(v in ('0', '1') for v in vals):
            return pd.array([None if c is None else int(c) for c in cells], dtype='Int64')
        return None
    if typ == 'Date':
        import datetime
        out = []
        for c in cells:
            if c is None:
                out.append(None); continue
            m = re.fullmatch(r'(\d{4})-(\d{2})-(\d{2})(?:[ T](\d{2}):(\d{2}):(\d{2}))?', c)
            if not m:
                return None
            try:
                g = [int(x) if x is not None else 0 for x in m.groups()]
                out.append(datetime.datetime(*g))
            except ValueError:
                return None
        if any(o is not None and not (1700 <= o.year <= 2200) for o in out):
            return None
        return pd.Series(out, dtype='datetime64[us]')
    return None


def build_frames(case):
    """case -> dict form -> object handed to run() (DataFrame or path). Forms without a faithful
    native presentation are absent."""
    import pandas as pd
    import pyarrow as pa
    import pyarrow.parquet as pq
    cols, rows, comps = case['columns'], case['rows'], {c['name']: c for c in case['struct']}
    d = tempfile.mkdtemp(prefix='c_', dir=tmpdir())
    out = {}
    p = os.path.join(d, 'DS_1.csv')
    with open(p, 'w', newline='', encoding='utf-8') as f:
        f.write(csv_encode([cols] + rows))
    out['csv'] = p
    colcells = {c: [r[i] for r in rows] for i, c in enumerate(cols)}
    out['df_str'] = pd.DataFrame({c: pd.Series(colcells[c], dtype='object') for c in cols}, columns=cols)
    nat, any_native = {}, False
    focus = case.get('focus')
    for i, c in enumerate(cols):
        typ = comps[c]['type'] if c in comps else 'String'
        s = _native_column(typ, colcells[c]) if rows else None
        if s is None:
            nat[c] = pd.Series(colcells[c], dtype='object')
        else:
            nat[c] = s
            if focus is None or focus == i:
                any_native = True
    if any_native:
        out['df_native'] = pd.DataFrame(nat, columns=cols)
    p = os.path.join(d, 'DS_1.parquet')
    pq.write_table(pa.table({c: pa.array(colcells[c], type=pa.string()) for c in cols}) if cols else pa.table({}), p)
    out['pq_str'] = p
    if any_native:
        os.makedirs(os.path.join(d, 'n'))
        p = os.path.join(d, 'n', 'DS_1.parquet')
        pq.write_table(pa.Table.from_pandas(out['df_native'], preserve_index=False), p)
        out['pq_native'] = p
    return d, out


# --------------------------------------------------------------------------- running the real engine
class _TO(Exception):
    pass


def _alarm(*a):
    raise _TO()


def guarded(fn, *a, **kw):
    import eng
    signal.signal(signal.SIGALRM, _alarm)
    signal.alarm(CALL_BUDGET)
    try:
        o = eng.outcome(fn, *a, **kw)
        if o[0] == 'raw' and (o[1].endswith('_TO') or 'Query interrupted' in str(o[2])):
            return ('timeout',)   # the wall-clock alarm fired inside the call (DuckDB reports it as an interrupt)
        return o
    except _TO:
        return ('timeout',)
    finally:
        signal.alarm(0)


def canon_cell(v):
    import eng
    v = eng.canon_value(v)
    if isinstance(v, bool):
        return 'true' if v else 'false'
    if isinstance(v, int):
        return str(v)
    if isinstance(v, float):
        if v == math.floor(v) and abs(v) < 1e15:
            return 'n:%d' % int(v)
        return 'n:%r' % v
    return v


def canon_result(res, name='DS_r'):
    """run() result -> ('ok', columns, sorted rows of canonical strings)."""
    ds = res[name]
    df = ds.data
    cols = list(df.columns)
    rows = sorted(([canon_cell(v) for v in r] for r in df.itertuples(index=False, name=None)),
                  key=lambda r: [(x is None, x or '') for x in r])
    return cols, rows


def structures_of(case):
    return {'datasets': [{'name': 'DS_1', 'DataStructure': [dict(c) for c in case['struct']]}]}


def short(o):
    if o[0] == 'ok':
        return o
    if o[0] == 'vtl':
        return ('vtl', o[1], o[2])
    if o[0] == 'raw':
        return ('raw', o[1], o[3] if len(o) > 3 else o[2][:160])
    return o


def run_case(case, forms=None, validate=True):
    """-> {'run': {form: outcome}, 'val': {form: outcome}}; outcome = ('ok', cols, rows) | ('vtl', cls, code)
    | ('raw', cls, msg) | ('timeout',)"""
    import eng  # noqa
    from vtlengine import run, validate_dataset
    forms = forms or case.get('forms') or FORMS
    validate = case.get('validate', validate)
    d, frames = build_frames(case)
    out = {'run': {}, 'val': {}}
    try:
        for f in forms:
            if f not in frames:
                continue
            obj = frames[f]
            if hasattr(obj, 'copy'):
                obj = obj.copy(deep=True)
            o = guarded(run, SCRIPT, structures_of(case), {'DS_1': obj})
            if o[0] == 'ok':
                try:
                    cols, rows = canon_result(o[1])
                    o = ('ok', cols, rows)
                except Exception as e:  # noqa: BLE001
                    o = ('raw', 'canon', repr(e)[:200])
            elif o[0] == 'raw':
                o = ('raw', o[1], o[2][:200])
            else:
                o = ('vtl', o[1], o[2], o[3][:200])
            out['run'][f] = o
            if validate and f in ('csv', 'df_str', 'df_native'):
                obj = frames[f]
                if hasattr(obj, 'copy'):
                    obj = obj.copy(deep=True)
                else:
                    from pathlib import Path
                    obj = Path(obj)
                v = guarded(validate_dataset, structures_of(case), {'DS_1': obj})
                if v[0] == 'ok':
                    v = ('ok',)
                elif v[0] == 'raw':
                    v = ('raw', v[1], v[2][:200])
                else:
                    v = ('vtl', v[1], v[2], v[3][:200])
                out['val'][f] = v
    finally:
        shutil.rmtree(d, ignore_errors=True)
    return out


def _worker_init(repo):
    os.environ['VERIF_REPO'] = repo
    os.environ.setdefault('VTL_TEMP_DIRECTORY', tmpdir())
    import eng  # noqa


def _work(args):
    fn, payload = args
    return globals()[fn](**payload) if isinstance(payload, dict) and '__kw__' in payload else globals()[fn](payload)


def dbg(msg):
    if os.environ.get('VERIF_DEBUG'):
        import time
        sys.stderr.write('[input %s] %s\n' % (time.strftime('%H:%M:%S'), msg)); sys.stderr.flush()


def _work_i(args):
    i, fn, payload = args
    return i, (globals()[fn] if isinstance(fn, str) else fn)(payload)


def pool_map(fn_name, payloads, jobs=14):
    import multiprocessing as mp
    import vlib
    if not payloads:
        return []
    cache_path = os.environ.get('VERIF_INPUT_CACHE')
    if cache_path and fn_name == 'run_case':
        # development aid (discovery of known findings): run every table once in all forms + validate_dataset
        # and share the outcomes between the checks of the group
        import pickle
        cache = pickle.load(open(cache_path, 'rb')) if os.path.exists(cache_path) else {}
        keyof = lambda p: json.dumps([p['struct'], p['columns'], p['rows'], p.get('focus')], sort_keys=True)
        missing = {}
        for p in payloads:
            if keyof(p) not in cache:
                missing[keyof(p)] = dict(strip_case(p), focus=p.get('focus'), forms=FORMS, validate=True)
        if missing:
            os.environ.pop('VERIF_INPUT_CACHE')
            try:
                res = pool_map('run_case', list(missing.values()), jobs)
            finally:
                os.environ['VERIF_INPUT_CACHE'] = cache_path
            cache.update(dict(zip(missing.keys(), res)))
            pickle.dump(cache, open(cache_path, 'wb'))
        out = []
        for p in payloads:
            full = cache[keyof(p)]
            fs = p.get('forms') or FORMS
            out.append({'run': {f: o for f, o in full['run'].items() if f in fs},
                        'val': {f: o for f, o in full['val'].items() if f in fs} if p.get('validate', True) else {}})
        return out
    ctx = mp.get_context('fork')
    res = [None] * len(payloads)
    dbg('pool: %d payloads of %s' % (len(payloads), fn_name))
    with ctx.Pool(min(jobs, len(payloads)), initializer=_worker_init, initargs=(vlib.REPO,)) as pool:
        for k, (i, r) in enumerate(pool.imap_unordered(_work_i, [(i, fn_name, p) for i, p in enumerate(payloads)], chunksize=2)):
            res[i] = r
            if (k + 1) % 100 == 0:
                dbg('  %d / %d' % (k + 1, len(payloads)))
    return res


# --------------------------------------------------------------------------- Lean protocol
def enc_str(s):
    """Optional[str] -> token without spaces: N | S<hex codepoints joined by '.'>"""
    if s is None:
        return 'N'
    return 'S' + '.'.join('%x' % ord(c) for c in s)


def dec_str(t):
    if t == 'N':
        return None
    body = t[1:]
    if body == '':
        return ''
    return ''.join(chr(int(h, 16)) for h in body.split('.'))


TYCODE = {'Integer': 'I', 'Number': 'N', 'String': 'S', 'Boolean': 'B', 'Date': 'D', 'Time_Period': 'P',
          'Time': 'T', 'Duration': 'U'}
ROLECODE = {'Identifier': 'I', 'Measure': 'M', 'Attribute': 'A'}


def case_line(case):
    """(table <ncomp> {name ty role nullable}* <ncols> {colname}* <nrows> {cell}*) as space separated tokens"""
    toks = ['table', str(len(case['struct']))]
    for c in case['struct']:
        toks += [enc_str(c['name']), TYCODE[c['type']], ROLECODE[c['role']], '1' if c['nullable'] else '0']
    toks.append(str(len(case['columns'])))
    toks += [enc_str(c) for c in case['columns']]
    toks.append(str(len(case['rows'])))
    for r in case['rows']:
        toks += [enc_str(v) for v in r]
    return ' '.join(toks)


# --------------------------------------------------------------------------- verdicts and comparison
def engine_kind(o):
    """'accept' | 'reject' (VTL input error) | 'late:<Class>:<code>' | 'raw:<Class>' | 'timeout'"""
    if o[0] == 'ok':
        return 'accept'
    if o[0] == 'vtl':
        return 'reject' if o[1] in INPUT_ERRORS else 'late:%s:%s' % (o[1], o[2])
    if o[0] == 'raw':
        return 'raw:' + o[1].split('.')[-1]
    return o[0]


def parse_spec_answer(ans, case):
    """driver answer of a `table` request -> ('accept', rows of Optional[str]) | ('reject', violation)"""
    t = ans.split(' ')
    if t[0] == 'rej':
        v = t[1]
        if len(t) > 2:
            v += ':' + (dec_str(t[2]) or '')
        return ('reject', v)
    if t[0] != 'ok':
        raise RuntimeError('driver answered %r for %r' % (ans, case))
    n, m = int(t[1]), int(t[2])
    cells = [dec_str(x) for x in t[3:]]
    assert len(cells) == n * m, (ans, case)
    return ('accept', [cells[i * m:(i + 1) * m] for i in range(n)])


def _num_of_spec(s):
    from fractions import Fraction
    m, e = s.split('e')
    return Fraction(int(m)) * (Fraction(10) ** int(e))


def _num_of_engine(e):
    from fractions import Fraction
    if e is None:
        return None
    if e.startswith('n:'):
        return Fraction(e[2:]) if 'e' not in e and 'E' not in e else Fraction(float(e[2:]))
    try:
        return Fraction(e)
    except Exception:  # noqa: BLE001
        return None


def _date_norm(s):
    if s is not None and len(s) == 10:
        return s + 'T00:00:00'
    return s


def cell_equal(typ, e, s):
    """engine canonical cell vs spec rendering -> 'eq' | 'form' (same value, other output form) | 'neq' | 'ask'
    ('ask' = needs the driver to denote the engine text)"""
    if e is None or s is None:
        return 'eq' if e is None and s is None else 'neq'
    if typ == 'Number':
        a, b = _num_of_engine(e), _num_of_spec(s)
        if a is None:
            return 'neq'
        return 'eq' if a == b or abs(a - b) <= max(1e-12, 1e-9 * max(abs(a), abs(b))) else 'neq'
    if typ == 'Integer':
        return 'eq' if e == s else 'neq'
    if e == s:
        return 'eq'
    if typ == 'Date':
        return 'form' if _date_norm(e) == _date_norm(s) else 'neq'
    if typ in ('Time', 'Time_Period', 'Duration'):
        return 'ask'
    return 'neq'


def _sort_key(types):
    def k(row):
        out = []
        for t, v in zip(types, row):
            if v is None:
                out.append((1, ''))
            elif t == 'Number':
                f = _num_of_engine(v) if (v.startswith('n:') or 'e' not in v) else None
                if f is None:
                    try:
                        f = _num_of_spec(v)
                    except Exception:  # noqa: BLE001
                        f = 0
                out.append((0, '%025.9f' % float(f)))
            elif t == 'Date':
                out.append((0, _date_norm(v)))
            else:
                out.append((0, v))
        return out
    return k


def compare_result(case, spec_rows, outcome):
    """engine ('ok', cols, rows) vs spec rows -> list of problems [(kind, detail)], kind in
    columns | row-count | value | form | ask (to be resolved by the caller)"""
    types = [c['type'] for c in case['struct']]
    names = [c['name'] for c in case['struct']]
    _, cols, rows = outcome
    probs = []
    if list(cols) != names:
        probs.append(('columns', {'engine': cols, 'spec': names}))
        return probs
    if len(rows) != len(spec_rows):
        probs.append(('row-count', {'engine': len(rows), 'spec': len(spec_rows)}))
        return probs
    er = sorted(rows, key=_sort_key(types))
    sr = sorted(spec_rows, key=_sort_key(types))
    date_cols_with_time = {j for j, t in enumerate(types) if t == 'Date' and any(r[j] is not None and len(r[j]) > 10 for r in sr)}
    for a, b in zip(er, sr):
        for j, t in enumerate(types):
            q = cell_equal(t, a[j], b[j])
            if q == 'eq':
                continue
            if q == 'form' and t == 'Date' and j in date_cols_with_time and a[j] == b[j] + 'T00:00:00':
                continue  # a date-only value in a column that also holds date-times is written with T00:00:00
            probs.append(('value' if q == 'neq' else q, {'column': names[j], 'type': t, 'engine': a[j], 'spec': b[j]}))
    return probs


def resolve_asks(ck, probs_list):
    """probs_list: list of lists of problems; resolves kind 'ask' through the driver (denote engine text)."""
    asks = []
    for probs in probs_list:
        for k, d in probs:
            if k == 'ask':
                asks.append(d)
    if not asks:
        return
    ans = ck.driver('Input', ['cell %s %s' % (TYCODE[d['type']], enc_str(d['engine'])) for d in asks])
    res = {}
    for d, a in zip(asks, ans):
        same = a.startswith('ok ') and dec_str(a[3:]) == d['spec']
        # a Time interval is returned in the spelling it came in (the docs define no other output form)
        res[id(d)] = ('eq' if d['type'] == 'Time' else 'form') if same else 'value'
    for probs in probs_list:
        for i, (k, d) in enumerate(probs):
            if k == 'ask':
                probs[i] = (res[id(d)], d)
        probs[:] = [p for p in probs if p[0] != 'eq']


def regen_patterns(ck):
    """translator -> Gen/InputPatterns.lean (every check of the group does this first)"""
    sys.path.insert(0, os.path.join(HERE, '..', 'translate'))
    import eng  # noqa
    import input_patterns
    text, pats = input_patterns.generate()
    ck.gen('InputPatterns', text)
    import input_doc_examples
    text2, docs = input_doc_examples.generate()
    ck.gen('InputDocExamples', text2)
    ck.note('docs_examples_transcribed', {k: len(v) for k, v in docs.items()})
    return pats


def spec_verdicts(ck, cases):
    if not cases:
        return []
    ans = ck.driver('Input', [case_line(c) for c in cases])
    return [parse_spec_answer(a, c) for a, c in zip(ans, cases)]


def strip_case(case):
    return {k: case[k] for k in ('struct', 'columns', 'rows') if k in case}

"""C01 extension streams: dataset-level case, nvl, between / in / not_in / isnull, string operators over several
String measures, instr, || between datasets, = / <> over time-typed measures.
Model: Sem/CaseD.lean, Sem/Strings.lean, Sem/ExtOps.lean through Drivers/C01Ext.lean; theorems: Props/C01Ext.lean."""
import collections
import os
import sys

HARNESS = os.path.dirname(os.path.dirname(os.path.abspath(__file__)))
if HARNESS not in sys.path:
    sys.path.insert(0, HARNESS)

from sem import gen as G  # noqa: E402
from sem import gen_c01_ext as GX  # noqa: E402
from sem import runner as R  # noqa: E402
from sem import check_common as CC  # noqa: E402

QUICK = {'case': 70, 'nvl': 30, 'member': 30, 'string': 44, 'instr': 24, 'time': 16}
THOROUGH = {'case': 1500, 'nvl': 600, 'member': 600, 'string': 1000, 'instr': 300, 'time': 300}


def classify_ext(case, verdict, detail, eng_out):
    """specific keys for the behaviours of this family; everything else through the shared classifier."""
    ops = case.get('ops', [])
    nested = (not case.get('flat')) and case.get('depth', 0) >= 2
    if (case.get('stream') == 'case' and verdict == 'DISAGREE:keys' and not nested and ops and ops[-1] == 'case'
            and case.get('narms', 1) >= 2 and eng_out[0] == 'ok' and 'DS_r' in eng_out[1]):
        # observed behaviour: the engine returns datapoints the model does not, all of them with every measure NULL,
        # and loses none
        _, comps, rows = eng_out[1]['DS_r']
        names = [c[0] for c in comps]
        idn = sorted(i for i, _ in case['ids'])
        extra = set(detail.get('engine_only', []))
        if not detail.get('model_only') and extra:
            bad = [r for r in rows if str(tuple(dict(zip(names, r))[i] for i in idn)) in extra]
            if bad and all(all(v is None for n, v in zip(names, r) if n not in idn) for r in bad):
                return 'case:datapoint-kept-with-null-measures-when-the-winning-dataset-operand-lacks-it'
    if (case.get('stream') == 'case' and verdict == 'DISAGREE:keys' and not nested and 'case' in ops and ops[-1] != 'case'
            and case.get('narms', 1) >= 2 and eng_out[0] == 'ok' and 'DS_r' in eng_out[1]
            and not detail.get('model_only') and detail.get('engine_only')):
        # the same behaviour seen through the operators applied to the case result in later statements: extra datapoints
        # only, with null measures unless a later nvl filled them
        _, comps, rows = eng_out[1]['DS_r']
        names = [c[0] for c in comps]
        idn = sorted(i for i, _ in case['ids'])
        extra = set(detail['engine_only'])
        bad = [r for r in rows if str(tuple(dict(zip(names, r))[i] for i in idn)) in extra]
        later = ops[ops.index('case') + 1:]
        if 'nvl' in later or (bad and all(all(v is None for n, v in zip(names, r) if n not in idn) for r in bad)):
            return 'case:datapoint-kept-with-null-measures-when-the-winning-dataset-operand-lacks-it:seen-through-a-later-statement'
    if case.get('stream') == 'case' and nested and 'case' in ops and verdict.startswith('DISAGREE'):
        # case composed with another dataset operator (as its operand or over its result) inside ONE statement
        return 'nested-expression:dataset-level-case-inside-another-operator'
    if verdict == 'DISAGREE:identifiers' and 'zip_nvl' in ops and set(detail[1]) < set(detail[0]):
        # nvl(DS_a, DS_b) where DS_a has fewer identifiers than DS_b: the result keeps only DS_a's identifiers
        return 'nvl:first-operand-has-fewer-identifiers:result-loses-identifiers'
    return CC.classify(case, verdict, detail, eng_out)


def run_streams_ext(ck, plan):
    """one driver start and one engine pool for all streams (pool start-up dominates small batches)."""
    g = GX.GenX(ck.rng)
    cases = [g.case(stream) for stream, n in plan for _ in range(n)]
    answers = ck.driver('C01Ext', [c['mreq'] for c in cases])
    outs = R.run_engine(cases)
    res = []
    for c, a, e in zip(cases, answers, outs):
        v, d = R.compare(c, a, e)
        res.append((c, v, d, e, a))
    return res


def replay_dict(c, v, d, e, a, n):
    return {'driver': 'C01Ext', 'script': c['vtl'], 'structures': G.structures(c['env']),
            'data': {k: [[str(x) if x is not None else None for x in r] for r in x['rows']] for k, x in c['env'].items()},
            'model_request': c['mreq'], 'model_answer': a, 'engine': [str(x)[:600] for x in e],
            'verdict': v, 'detail': str(d)[:600], 'occurrences': n, 'stream': c['stream'], 'ops': c['ops'],
            'flat': c['flat'], 'depth': c['depth'], 'narms': c.get('narms', 0), 'ids': c['ids'], 'meas': c['meas']}


def report_ext(ck, results, min_agree=10):
    hist = collections.Counter()
    per = collections.defaultdict(collections.Counter)
    ophist = collections.Counter()
    groups = collections.defaultdict(list)
    for c, v, d, e, a in results:
        hv = v if not v.startswith('skip:semantic-reject') else 'skip:semantic-reject'
        hist[hv] += 1
        per[c['stream']][hv.split(':')[0]] += 1
        if v == 'agree':
            nontrivial = d == 'divzero' or (isinstance(d, int) and d > 0)
            ck.count((c['vtl'], G.env_sx(c['env'])), nontrivial=nontrivial)
            for o in c['ops']:
                ophist[o] += 1
            if nontrivial and ck.rng.random() < 0.2:
                ck.sample({'script': c['vtl'], 'model': a[:160], 'stream': 'ext:' + c['stream']})
        else:
            ck.count(None, nontrivial=False)
        if v.startswith('DISAGREE'):
            key = classify_ext(c, v, d, e)
            if key == 'float-sensitive':
                hist['skip:float-sensitive'] += 1
                continue
            groups[key].append((len(c['vtl']), c, v, d, e, a))
    ck.note('ext_outcomes', dict(hist))
    ck.note('ext_outcomes_per_stream', {k: dict(v) for k, v in per.items()})
    ck.note('ext_operator_histogram', dict(ophist))
    for key, lst in groups.items():
        lst.sort(key=lambda x: x[0])
        _, c, v, d, e, a = lst[0]
        ck.violation(key, replay_dict(c, v, d, e, a, len(lst)),
                     '%s: %s | model %s | engine %s' % (v, c['vtl'][:160], a[:100], str(e[1:3])[:140]))
    if hist['agree'] < min_agree:
        ck.unproved('correspondence:C01-ext', 'only %d of %d cases could be compared: %s' % (hist['agree'], len(results), dict(hist)))
    return hist


def run_ext(ck):
    plan = QUICK if ck.quick() else THOROUGH
    scale = float(os.environ.get('VERIF_EXT_SCALE', 1))
    res = run_streams_ext(ck, [(stream, max(1, int(n * scale))) for stream, n in plan.items()])
    return report_ext(ck, res)


def replay_ext(ck, rp):
    """replay of a stored case of this family (`driver` = C01Ext in the replay file)."""
    from fractions import Fraction
    r = rp.get('replay', rp)
    env = {}
    for d in r['structures']['datasets']:
        ids = [(c['name'], c['type']) for c in d['DataStructure'] if c['role'] == 'Identifier']
        meas = [(c['name'], c['type']) for c in d['DataStructure'] if c['role'] != 'Identifier']
        rows = []
        for row in r['data'].get(d['name'], []):
            vals = []
            for (n, t), v in zip(ids + meas, row):
                vals.append(None if v is None else int(v) if t == 'Integer' else Fraction(v) if t == 'Number'
                            else (v == 'True') if t == 'Boolean' else v)
            rows.append(tuple(vals))
        env[d['name']] = {'ids': ids, 'meas': meas, 'rows': rows}
    case = {'env': env, 'vtl': r['script'], 'ops': r.get('ops', []), 'flat': r.get('flat', True), 'depth': r.get('depth', 1),
            'stream': r.get('stream'), 'narms': r.get('narms', 0), 'ids': [tuple(x) for x in r.get('ids', [])], 'meas': r.get('meas', [])}
    ans = ck.driver('C01Ext', [r['model_request']])[0]
    out = R.run_engine([case], jobs=1)[0]
    v, d = R.compare(case, ans, out)
    print('script :', r['script'])
    print('model  :', ans[:400])
    print('engine :', str(out)[:600])
    print('verdict:', v, str(d)[:300])
    ck.count((r['script'],), nontrivial=True)
    ck.count((r['script'], 'replay'), nontrivial=True)
    ck.sample({'replayed': ck.replay_path, 'verdict': v})
    ck.cov['rule'] = 'replay of one stored case'
    if v.startswith('DISAGREE'):
        ck.violation(rp.get('key', 'replay'), r, 'replayed case still disagrees: ' + v)

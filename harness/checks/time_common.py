"""Shared helpers of the Time group checks (C08, C21): translator call, DuckDB connection with the real macros,
period enumeration, the independent Python oracle (datetime / calendar)."""
from __future__ import annotations

import calendar
import datetime as dt
import os
import sys

HERE = os.path.dirname(os.path.abspath(__file__))
sys.path.insert(0, os.path.join(HERE, '..'))
sys.path.insert(0, os.path.join(HERE, '..', 'translate'))
import vlib  # noqa: E402

INDS = 'ASQMWD'
BOUNDARY_YEARS = (2015, 2019, 2020, 2021, 2024, 2026, 2032)
WIDTH = {'A': 1, 'S': 1, 'Q': 1, 'M': 2, 'W': 2, 'D': 3}


def gen_macros(ck):
    """Translator -> Gen/TimeMacros.lean.  Returns (info, shape_error_text|None)."""
    import time_macros
    try:
        text, info = time_macros.translate(vlib.REPO)
    except vlib.ShapeError as e:
        ck.cov.setdefault('translator_errors', []).append(str(e))
        return None, str(e)
    ck.gen('TimeMacros', text)
    ck.note('time_macros', info)
    return info, None


_built = set()


def driver(ck, lines, name='Time'):
    """ck.driver, but the (lock-protected) `lake build` of the driver's imports happens once per process: later calls
    only run `lake env lean --run` (the model's .olean files are not touched by anybody else)."""
    if not lines:
        return []
    if name not in _built:
        out = ck.driver(name, lines)
        _built.add(name)
        return out
    rc, out = vlib.sh(['lake', 'env', 'lean', '--run', os.path.join('Drivers', name + '.lean')], cwd=vlib.LEAN, timeout=3000,
                      input='\n'.join(lines) + '\n')
    res = out.split('\n')
    if res and res[-1] == '': res.pop()
    if rc != 0 or len(res) != len(lines):
        raise vlib.DriverError('driver failed rc=%s, %d answers for %d requests: %s' % (rc, len(res), len(lines), out[-1500:]))
    return res


class DriverProxy:
    """Stands in for a Check where only .driver / .count are used (time_e2e)."""
    def __init__(self, ck): self.ck = ck
    def driver(self, name, lines): return driver(self.ck, lines, name)
    def count(self, *a, **k): return self.ck.count(*a, **k)


def connect():
    """DuckDB connection with the SQL macros installed the way the engine installs them."""
    import eng  # noqa: F401  (boots the real vtlengine from vlib.REPO)
    import duckdb
    from vtlengine.duckdb_transpiler.sql import initialize_time_types
    c = duckdb.connect()
    c.execute('SET threads TO 8')
    initialize_time_types(c)
    return c


# ------------------------------------------------------------------ independent oracle
def weeks_in_year(y):
    return dt.date(y, 12, 28).isocalendar()[1]


def n_periods(i, y):
    if i == 'W': return weeks_in_year(y)
    if i == 'D': return 366 if calendar.isleap(y) else 365
    return {'A': 1, 'S': 2, 'Q': 4, 'M': 12}[i]


def all_periods(years, inds=INDS):
    return [(i, y, n) for y in years for i in inds for n in range(1, n_periods(i, y) + 1)]


def start_end(i, y, n):
    """(first day, last day) of a period as datetime.date — Python's calendar, not the model."""
    if i == 'A': return dt.date(y, 1, 1), dt.date(y, 12, 31)
    if i in 'SQM':
        k = {'S': 6, 'Q': 3, 'M': 1}[i]
        m0, m1 = (n - 1) * k + 1, n * k
        return dt.date(y, m0, 1), dt.date(y, m1, calendar.monthrange(y, m1)[1])
    if i == 'W': return dt.date.fromisocalendar(y, n, 1), dt.date.fromisocalendar(y, n, 7)
    d = dt.date(y, 1, 1) + dt.timedelta(days=n - 1)
    return d, d


def canon(i, y, n):
    return '%04dA' % y if i == 'A' else '%04d-%s%0*d' % (y, i, WIDTH[i], n)


def parse_canon(s):
    """'2020-W05' / '2020A' -> (i, y, n); None when the string is not canonical."""
    try:
        if len(s) == 5 and s[4] == 'A': return ('A', int(s[:4]), 1)
        if s[4] == '-' and s[5] in 'SQMWD': return (s[5], int(s[:4]), int(s[6:]))
    except (ValueError, IndexError):
        pass
    return None


def crosses_long_year(i, y, y2):
    """Does [min(y,y2), max(y,y2)] contain a 53-week ISO year (i = W) / a leap year (i = D)?"""
    lo, hi = min(y, y2), max(y, y2)
    return any(n_periods(i, z) != {'W': 52, 'D': 365}[i] for z in range(lo, hi + 1))

"""The upstream test corpus as replayable run() calls (harvested by corpus_plugin, never executed there).
  harvest(dirs, out)  -> runs pytest with the harvesting plugin over REPO/tests/<dirs>
  load(out)           -> list of call records
  run_call(rec, …)    -> executes the real run()/semantic_analysis() on a record (optionally with permuted CSV rows)
"""
import glob
import json
import multiprocessing as mp
import os
import random
import shutil
import signal
import subprocess
import sys
import tempfile
from pathlib import Path

HARNESS = os.path.dirname(os.path.abspath(__file__))
if HARNESS not in sys.path:
    sys.path.insert(0, HARNESS)
REPO = os.environ.get('VERIF_REPO', '/repo')
DEFAULT_DIRS = ['ReferenceManual', 'Additional', 'Calc', 'Joins', 'Aggregate', 'Analytic', 'Bugs', 'ClauseAfterClause', 'IfThenElse',
                'ThreeValueLogic', 'NewOperators', 'Validation', 'DatapointRulesets', 'Hierarchical', 'Semantic', 'TimePeriod', 'Cast',
                'UDO', 'DAG', 'Attributes', 'ViralAttributes', 'DWI', 'Eval', 'NumberConfig']


def harvest(out, dirs=None, jobs=6, timeout=2400):
    os.makedirs(out, exist_ok=True)
    paths = [os.path.join('tests', d) for d in (dirs or DEFAULT_DIRS) if os.path.isdir(os.path.join(REPO, 'tests', d))]
    env = dict(os.environ, VERIF_CORPUS_DIR=out, PYTHONPATH=HARNESS, VERIF_REPO=REPO)
    p = subprocess.run(['/venv/bin/python', '-m', 'pytest', '-p', 'corpus_plugin', '-q', '--timeout=120', '-p', 'no:cacheprovider',
                        '-n', str(jobs), '--no-header', '-q'] + paths, cwd=REPO, env=env, stdout=subprocess.PIPE, stderr=subprocess.STDOUT,
                       text=True, timeout=timeout)
    return len(glob.glob(os.path.join(out, 'run_*.json'))), p.stdout[-300:]


def load(out):
    recs = []
    for f in sorted(glob.glob(os.path.join(out, 'run_*.json'))):
        r = json.load(open(f))
        r['id'] = os.path.basename(f)[4:-5]
        recs.append(r)
    return recs


def _un(x):
    if isinstance(x, dict):
        if '__path__' in x:
            return Path(x['__path__'])
        if '__dataframe_csv__' in x:
            import pandas as pd
            return pd.read_csv(x['__dataframe_csv__'])
        if '__repr__' in x:
            raise ValueError('unreplayable argument ' + x['__type__'])
        return {k: _un(v) for k, v in x.items()}
    if isinstance(x, list):
        return [_un(v) for v in x]
    return x


def _shuffled_csv(path, seed, tmp):
    import csv
    with open(path, newline='', encoding='utf-8') as f:
        rows = list(csv.reader(f))
    if len(rows) <= 2:
        return path
    head, body = rows[0], [row for row in rows[1:] if row]      # blank lines are not datapoints (the loader skips them)
    r = random.Random(seed)
    r.shuffle(body)
    order = list(range(len(head)))
    r.shuffle(order)
    p = os.path.join(tmp, os.path.basename(str(path)))
    with open(p, 'w', newline='', encoding='utf-8') as f:
        w = csv.writer(f)
        w.writerow([head[i] for i in order])
        for row in body:
            row = row + [''] * (len(head) - len(row))
            w.writerow([row[i] for i in order])
    return Path(p)


class _TO(KeyboardInterrupt):
    pass


def _alarm(*a):
    raise _TO()


def _init():
    import eng  # noqa: F401


def _worker(args):
    rec, var, budget = args
    import eng
    from vtlengine import run, semantic_analysis
    from sem.variants import _canon
    signal.signal(signal.SIGALRM, _alarm)
    signal.alarm(budget)
    tmp = None
    try:
        kw = {k: _un(v) for k, v in rec.items() if k not in ('test', 'id') and v is not None}
        if any(k in kw for k in ('output_folder', 'sdmx_mappings')):
            return ('skip', 'output_folder/sdmx')
        if var.get('semantic'):
            kws = {k: kw[k] for k in ('script', 'data_structures', 'value_domains', 'external_routines') if k in kw}
            out = eng.outcome(semantic_analysis, **kws)
            if out[0] == 'ok':
                res = {}
                for name, ds in out[1].items():
                    if hasattr(ds, 'components'):
                        res[name] = ('ds', [(c.name, c.role.value if hasattr(c.role, 'value') else str(c.role), c.data_type.__name__, bool(c.nullable))
                                            for c in ds.components.values()], None, None)
                    else:
                        dt = ds.data_type
                        res[name] = ('scalar', dt.__name__ if isinstance(dt, type) else type(dt).__name__, None)
                return ('ok', res)
            return out[:3] + (str(out[-1])[:200],)
        if var.get('perm_seed') is not None:
            tmp = tempfile.mkdtemp(prefix='verif_corpus_')
            dp = kw.get('datapoints')
            if isinstance(dp, dict):
                kw['datapoints'] = {k: (_shuffled_csv(v, var['perm_seed'], tmp) if isinstance(v, Path) and str(v).endswith('.csv') else v)
                                    for k, v in dp.items()}
            elif isinstance(dp, list):
                kw['datapoints'] = [(_shuffled_csv(v, var['perm_seed'], tmp) if isinstance(v, Path) and str(v).endswith('.csv') else v) for v in dp]
        if 'rop' in var:
            kw['return_only_persistent'] = var['rop']
        out = eng.outcome(run, **kw)
        if out[0] == 'raw' and 'interrupted' in str(out[-1]).lower():
            return ('timeout',)
        return _canon(eng, out)
    except _TO:
        return ('timeout',)
    except ValueError as e:
        return ('skip', str(e)[:100])
    finally:
        signal.alarm(0)
        if tmp:
            shutil.rmtree(tmp, ignore_errors=True)


def run_calls(jobs_list, budget=120, procs=None):
    procs = procs or min(14, max(1, (os.cpu_count() or 2) - 2))
    with mp.Pool(procs, initializer=_init) as pool:
        return pool.map(_worker, [(r, v, budget) for r, v in jobs_list], chunksize=2)


if __name__ == '__main__':
    out = sys.argv[1] if len(sys.argv) > 1 else '/tmp/verif_corpus'
    n, tail = harvest(out, sys.argv[2:] or None)
    print(n, 'recorded calls in', out)
    print(tail)

"""Fidelity self-check of the stand-in parser on the corpus (DESIGN 2.4).
usage: stubcheck.py [--limit N] [--budget SECONDS_PER_SCRIPT] [--jobs J]
Parses every tests/**/*.vtl through the real create_ast under the stub and reports
counts; compares ASTString of tests/AST/data/vtl/* with tests/AST/data/prettier/*.
"""
import sys, os, time, json, glob, signal, multiprocessing as mp
sys.path.insert(0, os.path.dirname(os.path.abspath(__file__)))
REPO = os.environ.get('VERIF_REPO', '/repo')

def _init():
    import vtlstub; vtlstub.install()
    import vtlengine  # noqa

class _TO(Exception): pass
def _alarm(*a): raise _TO()

def one(args):
    path, budget = args
    from vtlengine.API import create_ast
    from vtlengine.Exceptions import VTLEngineException
    txt = open(path, encoding='utf-8', errors='replace').read()
    signal.signal(signal.SIGALRM, _alarm); signal.alarm(budget)
    t = time.time()
    try:
        create_ast(txt); r = 'ok'
    except _TO: r = 'timeout'
    except VTLEngineException as e: r = 'vtl:' + type(e).__name__
    except RecursionError: r = 'recursion'
    except Exception as e: r = 'exc:' + type(e).__name__ + ':' + str(e)[:80]
    finally: signal.alarm(0)
    return path, r, time.time() - t

def main():
    import argparse
    ap = argparse.ArgumentParser(); ap.add_argument('--limit', type=int, default=0)
    ap.add_argument('--budget', type=int, default=20); ap.add_argument('--jobs', type=int, default=14)
    a = ap.parse_args()
    files = sorted(glob.glob(REPO + '/tests/**/*.vtl', recursive=True))
    if a.limit: files = files[::max(1, len(files)//a.limit)]
    t0 = time.time()
    with mp.Pool(a.jobs, initializer=_init) as pool:
        res = pool.map(one, [(f, a.budget) for f in files], chunksize=8)
    hist = {}
    for p, r, dt in res: hist[r.split(':')[0] if r.startswith('exc') else r] = hist.get(r.split(':')[0] if r.startswith('exc') else r, 0) + 1
    bad = [(p, r) for p, r, dt in res if r.startswith('exc') or r in ('timeout', 'recursion')]
    slow = sorted(res, key=lambda x: -x[2])[:5]
    print(json.dumps({'files': len(files), 'hist': hist, 'wall_s': round(time.time()-t0, 1),
                      'slowest': [(p.replace(REPO, ''), round(dt, 1)) for p, r, dt in slow]}, indent=1))
    for p, r in bad[:60]: print('BAD', p.replace(REPO, ''), r)

if __name__ == '__main__':
    main()

"""Build-time tool: merge known_findings.d/*.json into known_findings.json, marking the entries whose
defect has been repaired by a `fix:` commit in /repo as fixed (a fixed entry suppresses nothing)."""
import glob
import json
import os
import re

V = os.path.dirname(os.path.dirname(os.path.abspath(__file__)))
FIXED = [   # (property, regex on key, commit, )
    ('C26', r'.*', '7f85307'),
    ('C32', r'.*2-1-19-21.*', '2dc9ace'),
    ('C21', r'apply_time_period_representation:sdmx_gregorian.*', '2dc9ace'),
    ('C11', r'operand_order:.*|result_doc:(union|case):.*', '7ad5350'),
    ('C12', r'.*error-code-depends-on-order', 'c351e89'),
    ('C16', r'.*', 'CONFIG'),
    ('C30', r'.*(width-above|unset-variable|rejected-value).*', 'CONFIG'),
    ('C08', r'vtl_period_limit:(W=52|D=365):timeshift.*', 'TIMESHIFT'),
    ('C22', r'mutates-argument:.*', 'C22FIX'),
    ('C27', r'to_vtl_json:unmapped-dtype:.*', 'C27FIX'),
]
commits = {}
log = os.popen('git -C /repo log --format="%h %s"').read().split('\n')
def find(sub):
    for l in log:
        if sub in l:
            return l.split(' ')[0]
    return None
commits['CONFIG'] = find('a failure while connecting or configuring')
commits['TIMESHIFT'] = find('timeshift of weekly and daily periods')
commits['C22FIX'] = find("caller's")
commits['C27FIX'] = find('SDMX data type')
out = json.load(open(os.path.join(V, 'known_findings.json'))) if os.path.exists(os.path.join(V, 'known_findings.json')) else []
seen = {(e['property'], e['key']) for e in out}
for f in sorted(glob.glob(os.path.join(V, 'known_findings.d', '*.json'))):
    for e in json.load(open(f)):
        if (e['property'], e['key']) in seen:
            continue
        seen.add((e['property'], e['key']))
        for p, rx, c in FIXED:
            if e['property'] == p and re.fullmatch(rx, e['key']):
                c = commits.get(c, c)
                if c:
                    e['status'] = 'fixed'
                    e['commit'] = c
                    e['what'] = 'fixed: property=%s %s %s' % (p, c, e.get('what', ''))
                break
        out.append(e)
json.dump(out, open(os.path.join(V, 'known_findings.json'), 'w'), indent=1)
import collections
print(collections.Counter((e['status']) for e in out), len(out))

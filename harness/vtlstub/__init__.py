"""Stand-in for the compiled parser extension (harness side; /repo is untouched).

A generic interpreter for /repo's Vtl.g4 + VtlTokens.g4 exposing the interface of
`vtlengine.AST.Grammar._cpp_parser.vtl_cpp_parser` (ParseNode / TerminalNode / parse /
get_comments / get_input_text / get_syntax_error + token constants from VtlTokens.h).
See DESIGN.md section 2.4.  Fidelity is checked by harness/stubcheck.py.
"""
import os, re, sys, types, functools

REPO = os.environ.get('VERIF_REPO', '/repo')
G = REPO + '/src/vtlengine/AST/Grammar/'
sys.setrecursionlimit(20000)

# ---------------------------------------------------------------- lexer
def load_tokens():
    hdr = open(G + '_cpp_parser/VtlTokens.h').read()
    enum = re.search(r'enum\s*\{(.*?)\};', hdr, re.S).group(1)
    ttype = {n: int(v) for n, v in re.findall(r'(\w+)\s*=\s*(\d+)', enum)}
    src = open(G + 'VtlTokens.g4').read()
    src = re.sub(r'//[^\n]*', '', src)
    lits = []  # (name, literal, order)
    order = {}
    for i, m in enumerate(re.finditer(r'^\s*(fragment\s+)?([A-Z_][A-Z_0-9]*)\s*:(.*?);\s*$', src, re.M | re.S)):
        name, body = m.group(2), m.group(3).strip()
        order[name] = i
        mm = re.fullmatch(r"'((?:\\'|[^'])*)'", body)
        if mm and not m.group(1):
            lits.append((name, mm.group(1).replace("\\'", "'")))
    return ttype, lits, order

TTYPE, LITS, ORDER = load_tokens()
# EOL : ';' has a ';' inside the literal, regex above misses it -> add by hand
if not any(n == 'EOL' for n, _ in LITS):
    LITS.append(('EOL', ';'))
    ORDER.setdefault('EOL', 6)
for _i,_n in enumerate(['INTEGER_CONSTANT','NUMBER_CONSTANT','BOOLEAN_CONSTANT','STRING_CONSTANT','IDENTIFIER','WS','ML_COMMENT','SL_COMMENT']):
    ORDER.setdefault(_n, 1000+_i)
ID_PART = r'[A-Za-z_][A-Za-z0-9_.]*'
SDMX_VERSION = r'(?:[0-9]+(?:\.[0-9]+)*(?:\.[_+*~])?|[_+*~])'
REGEX_RULES = [
    ('INTEGER_CONSTANT', r'[0-9]+'),
    ('NUMBER_CONSTANT', r'[0-9]+\.[0-9]+'),
    ('BOOLEAN_CONSTANT', r'true|false'),
    ('STRING_CONSTANT', r'"[^"]*"'),
    ('IDENTIFIER', r"(?:(?:[0-9][a-zA-Z0-9_.]*)?[a-zA-Z][a-zA-Z0-9_.]*"
                   r"|" + ID_PART + ':' + ID_PART + r"(?:\(" + SDMX_VERSION + r"\))?(?::(?:\.|[A-Za-z0-9_]+)+)?"
                   r"|'(?:\\'|[^'])*')"),
    ('WS', r'[ \t\r\n\f]+'),
    ('ML_COMMENT', r'/\*.*?\*/'),
    ('SL_COMMENT', r'//[^\r\n]*'),
]
REGEX_C = [(n, re.compile(r, re.S)) for n, r in REGEX_RULES]
LIT_BY_FIRST = {}
for n, l in LITS:
    LIT_BY_FIRST.setdefault(l[0], []).append((n, l))


class Tok:
    __slots__ = ('type', 'name', 'text', 'line', 'column', 'start', 'stop')
    def __init__(s, type, name, text, line, column, start):
        s.type, s.name, s.text, s.line, s.column, s.start, s.stop = type, name, text, line, column, start, start + len(text) - 1


def lex(text):
    toks, comments, pos, line, col = [], [], 0, 1, 0
    n = len(text)
    err = None
    while pos < n:
        best = None  # (len, -order, name, text)
        for name, l in LIT_BY_FIRST.get(text[pos], ()):  # literals
            if text.startswith(l, pos):
                c = (len(l), -ORDER[name], name, l)
                if best is None or c[:2] > best[:2]:
                    best = c
        for name, rx in REGEX_C:
            m = rx.match(text, pos)
            if m and m.end() > pos:
                # IDENTIFIER alt 2/3 are alternatives: regex alternation is ordered, need longest
                t = m.group(0)
                if name == 'IDENTIFIER':
                    t = max((mm.group(0) for mm in (re.compile(a, re.S).match(text, pos) for a in IDENT_ALTS) if mm), key=len)
                c = (len(t), -ORDER[name], name, t)
                if best is None or c[:2] > best[:2]:
                    best = c
        if best is None:
            if err is None:
                err = dict(line=line, column=col, message=f"token recognition error at: '{text[pos]}'",
                           offending_text=text[pos], underline_length=1)
            pos += 1; col += 1
            continue
        ln, _, name, t = best
        tok = Tok(TTYPE[name], name, t, line, col, pos)
        if name == 'WS':
            pass
        elif name in ('ML_COMMENT', 'SL_COMMENT'):
            comments.append(dict(type=TTYPE[name], text=t, line=line, column=col))
        else:
            toks.append(tok)
        nl = t.count('\n')
        if nl:
            line += nl; col = len(t) - t.rfind('\n') - 1
        else:
            col += len(t)
        pos += ln
    toks.append(Tok(-1, 'EOF', '<EOF>', line, col, pos))
    return toks, comments, err

IDENT_ALTS = [r"(?:[0-9][a-zA-Z0-9_.]*)?[a-zA-Z][a-zA-Z0-9_.]*",
              ID_PART + ':' + ID_PART + r"(?:\(" + SDMX_VERSION + r"\))?(?::(?:\.|[A-Za-z0-9_]+)+)?",
              r"'(?:\\'|[^'])*'"]

# ---------------------------------------------------------------- grammar loader
def load_grammar():
    src = open(G + 'Vtl.g4').read()
    src = re.sub(r'/\*.*?\*/', ' ', src, flags=re.S)
    src = re.sub(r'//[^\n]*', ' ', src)
    src = src[src.index('start:'):]
    gtoks = re.findall(r"[A-Za-z_][A-Za-z_0-9]*|\+=|\*\?|\+\?|\?\?|[():;|*+?=#]", src)
    i = 0
    rules = []  # (name, [ (label, seq) ])
    def parse_alts(stop):
        nonlocal i
        alts = []
        while True:
            seq = []
            label = None
            while gtoks[i] not in ('|',) + stop:
                if gtoks[i] == '#':
                    label = gtoks[i + 1]; i += 2; continue
                seq.append(parse_elem())
            alts.append((label, seq))
            if gtoks[i] == '|':
                i += 1; continue
            return alts
    def parse_elem():
        nonlocal i
        # optional label
        if re.match(r'[A-Za-z_]', gtoks[i]) and gtoks[i + 1] in ('=', '+='):
            i += 2
        t = gtoks[i]
        if t == '(':
            i += 1
            alts = parse_alts((')',))
            i += 1
            atom = ('group', alts)
        else:
            i += 1
            atom = ('tok', t) if t[0].isupper() else ('rule', t)
        suf = ''
        if gtoks[i] in ('*', '+', '?', '*?', '+?', '??'):
            suf = gtoks[i]; i += 1
        return (atom, suf)
    while i < len(gtoks):
        name = gtoks[i]; assert gtoks[i + 1] == ':', (name, gtoks[i:i+5]); i += 2
        alts = parse_alts((';',))
        i += 1
        rules.append((name, alts))
    return rules

RULES = load_grammar()
RULE_INDEX = {n: i for i, (n, _) in enumerate(RULES)}
RULE_ALTS = dict(RULES)
ALT_INDEX = {}
for n, alts in RULES:
    labels = []
    for lab, _ in alts:
        if lab is not None and lab not in labels:
            labels.append(lab)
    ALT_INDEX[n] = {l: k for k, l in enumerate(labels)}

LEFTREC = {}
for n, alts in RULES:
    if any(seq and seq[0][0] == ('rule', n) and seq[0][1] == '' for _, seq in alts):
        prim, ops = [], []
        N = len(alts)
        for k, (lab, seq) in enumerate(alts):
            prec = N - k
            starts = bool(seq) and seq[0] == (('rule', n), '')
            ends = bool(seq) and seq[-1] == (('rule', n), '')
            if starts:
                ops.append((prec, lab, seq[1:], ends))
            else:
                prim.append((prec, lab, seq, ends))
        LEFTREC[n] = (prim, ops)


class Lazy:
    """Memoised lazy stream: caches what a generator has produced so far."""
    __slots__ = ('gen', 'items', 'done', 'busy')
    def __init__(s, gen):
        s.gen, s.items, s.done, s.busy = gen, [], False, False
    def __iter__(s):
        i = 0
        while True:
            if i < len(s.items):
                yield s.items[i]; i += 1
            elif s.done or s.busy:
                return
            else:
                s.busy = True
                try:
                    v = next(s.gen)
                except StopIteration:
                    s.done = True; s.busy = False
                    return
                s.busy = False
                s.items.append(v)


# FIRST sets (token names) for alternative pruning -------------------------
_FIRST = {}
_NULLABLE = {}
def _compute_first():
    for n, _ in RULES:
        _FIRST[n] = set(); _NULLABLE[n] = False
    changed = True
    while changed:
        changed = False
        for n, alts in RULES:
            for lab, seq in alts:
                fs, nl = seq_first(seq)
                if not fs <= _FIRST[n]:
                    _FIRST[n] |= fs; changed = True
                if nl and not _NULLABLE[n]:
                    _NULLABLE[n] = True; changed = True

def seq_first(seq):
    fs = set()
    for (atom, suf) in seq:
        afs, anl = atom_first(atom)
        fs |= afs
        if not (anl or suf in ('?', '*', '*?', '??')):
            return fs, False
    return fs, True

def atom_first(atom):
    kind, v = atom
    if kind == 'tok':
        return {v}, False
    if kind == 'rule':
        return _FIRST.get(v, set()), _NULLABLE.get(v, False)
    fs, nl = set(), False
    for lab, seq in v:
        a, b = seq_first(seq)
        fs |= a; nl = nl or b
    return fs, nl

_compute_first()
ALT_FIRST = {n: [seq_first(seq) for _, seq in alts] for n, alts in RULES}


class TerminalNode:
    is_terminal = True
    __slots__ = ('symbol_type', 'text', 'line', 'column', '_tok')
    def __init__(s, tok):
        s.symbol_type, s.text, s.line, s.column, s._tok = tok.type, tok.text, tok.line, tok.column, tok


class ParseNode:
    is_terminal = False
    def __init__(s, rule, alt_label, children, toks, start, stop):
        s.rule_index = RULE_INDEX[rule]
        s.alt_index = ALT_INDEX[rule].get(alt_label, -1) if alt_label else -1
        s.children = children
        s._toks, s._start, s._stop = toks, start, stop  # token indexes [start, stop)
    @property
    def ctx_id(s): return (s.rule_index, s.alt_index)
    def _st(s): return s._toks[s._start] if s._start < len(s._toks) else None
    def _sp(s): return s._toks[s._stop - 1] if s._stop > s._start else None
    @property
    def start_line(s): return s._st().line if s._st() else 0
    @property
    def start_column(s): return s._st().column if s._st() else 0
    @property
    def stop_line(s): return s._sp().line if s._sp() else 0
    @property
    def stop_column(s): return s._sp().column if s._sp() else 0
    @property
    def stop_text(s): return s._sp().text if s._sp() else ''
    @property
    def text(s): return ''.join(t.text for t in s._toks[s._start:s._stop] if t.name != 'EOF') + ('<EOF>' if any(t.name=='EOF' for t in s._toks[s._start:s._stop]) else '')


class Parser:
    def __init__(s, toks):
        s.toks = toks
        s.memo = {}
        s.far = 0

    def rule(s, name, pos, p=0):
        key = (name, pos, p)
        r = s.memo.get(key)
        if r is None:
            r = s.memo[key] = Lazy(s._rule(name, pos, p))
        return r

    def _la(s, pos):
        return s.toks[pos].name if pos < len(s.toks) else 'EOF'

    def _rule(s, name, pos, p):
        la = s._la(pos)
        if name in LEFTREC:
            yield from s._leftrec(name, pos, p, la)
            return
        for k, (lab, seq) in enumerate(RULE_ALTS[name]):
            fs, nullable = ALT_FIRST[name][k]
            if not nullable and la not in fs:
                if pos > s.far: s.far = pos
                continue
            for kids, q in s.seq(seq, 0, pos, name, None):
                yield ParseNode(name, lab, kids, s.toks, pos, q), q

    def _leftrec(s, name, pos, p, la=None):
        prim, ops = LEFTREC[name]
        for prec, lab, seq, ends in prim:
            fs, nullable = seq_first(seq)
            if la is not None and not nullable and la not in fs:
                if pos > s.far: s.far = pos
                continue
            for kids, q in s.seq(seq, 0, pos, name, prec if ends else None):
                left = ParseNode(name, lab, kids, s.toks, pos, q)
                yield from s._extend(name, left, pos, q, p, ops)

    def _extend(s, name, left, pos0, pos, p, ops):
        # greedy: try to extend first
        for prec, lab, rest, ends in ops:
            if prec < p:
                continue
            for kids, q in s.seq(rest, 0, pos, name, (prec + 1) if ends else None):
                node = ParseNode(name, lab, [left] + kids, s.toks, pos0, q)
                yield from s._extend(name, node, pos0, q, p, ops)
        yield left, pos

    def seq(s, elems, i, pos, self_rule, last_prec):
        """yield (children, newpos). last_prec: precedence arg for a trailing self reference."""
        if i == len(elems):
            yield [], pos
            return
        (atom, suf) = elems[i]
        is_last = i == len(elems) - 1
        for kids, q in s.elem(atom, suf, pos, self_rule, last_prec if is_last else None):
            for rest, q2 in s.seq(elems, i + 1, q, self_rule, last_prec):
                yield kids + rest, q2

    def atom(s, atom, pos, self_rule, prec):
        kind, v = atom
        if kind == 'tok':
            t = s.toks[pos] if pos < len(s.toks) else None
            if t is not None and t.name == v:
                yield [TerminalNode(t)], pos + 1
            else:
                if pos > s.far: s.far = pos
        elif kind == 'rule':
            pp = prec if (v == self_rule and prec is not None) else 0
            for node, q in s.rule(v, pos, pp):
                yield [node], q
        else:  # group
            la = s._la(pos)
            for lab, seq in v:
                fs, nullable = seq_first(seq)
                if not nullable and la not in fs:
                    if pos > s.far: s.far = pos
                    continue
                yield from s.seq(seq, 0, pos, self_rule, prec)

    def elem(s, atom, suf, pos, self_rule, prec):
        if suf == '':
            yield from s.atom(atom, pos, self_rule, prec)
        elif suf == '?':
            yield from s.atom(atom, pos, self_rule, prec)
            yield [], pos
        elif suf in ('*', '+'):
            yield from s.rep(atom, pos, self_rule, suf == '+', True)
        elif suf in ('*?', '+?'):
            yield from s.rep(atom, pos, self_rule, suf == '+?', False)
        else:
            yield [], pos
            yield from s.atom(atom, pos, self_rule, prec)

    def rep(s, atom, pos, self_rule, need_one, greedy):
        if greedy:
            # depth-first, longest first, with an explicit stack: the depth of the Python/C stack does not grow with the
            # number of repetitions (a script of thousands of statements is one long repetition)
            acc = []
            frames = [(iter(s.atom(atom, pos, None, None)), pos)]
            while frames:
                it, p = frames[-1]
                advanced = False
                for kids, q in it:
                    if q == p:
                        continue
                    acc.append(kids)
                    frames.append((iter(s.atom(atom, q, None, None)), q))
                    advanced = True
                    break
                if advanced:
                    continue
                frames.pop()
                if acc or not need_one:
                    yield [k for ks in acc for k in ks], p
                if acc:
                    acc.pop()
            return
        if not need_one:
            yield [], pos
        for kids, q in s.atom(atom, pos, None, None):
            if q == pos:
                continue
            for rest, q2 in s.rep(atom, q, None, False, greedy):
                yield kids + rest, q2


class State:
    text = ''
    comments = []
    error = None

ST = State()
TAB = 4

def parse(text):
    ST.text, ST.error = text, None
    toks, comments, lerr = lex(text)
    ST.comments = comments
    p = Parser(toks)
    res = None
    for node, q in p.rule('start', 0):
        if q == len(toks):
            res = node
            break
    if lerr is not None:
        ST.error = lerr
    elif res is None:
        t = toks[min(p.far, len(toks) - 1)]
        ST.error = dict(line=t.line, column=t.column, message=f"mismatched input '{t.text}'",
                        offending_text=t.text, underline_length=max(1, len(t.text)))
    if ST.error is not None:
        lines = text.split('\n')
        ln = ST.error['line']
        ST.error['source_line'] = lines[ln - 1].replace('\t', ' ' * TAB).replace('\r', '') if 1 <= ln <= len(lines) else ''
        if res is None:
            res = ParseNode('start', None, [], toks, 0, 0)
    return res

def install():
    m = types.ModuleType('vtlengine.AST.Grammar._cpp_parser.vtl_cpp_parser')
    m.ParseNode, m.TerminalNode = ParseNode, TerminalNode
    # every access to the module-level "last parse" state is reported to the verification sink (when the
    # guard is on), so that a read outside parser_lock is visible to the C17 analysis wherever it moves
    def _acc(mode, what):
        v = sys.modules.get('vtlengine._verif')
        if v is not None:
            v.access('parser_state', mode, what)

    def _parse(text):
        _acc('w', 'stub.parse')
        return parse(text)

    def _get_comments():
        _acc('r', 'stub.get_comments')
        return list(ST.comments)

    def _get_input_text():
        _acc('r', 'stub.get_input_text')
        return ST.text

    def _get_syntax_error():
        _acc('r', 'stub.get_syntax_error')
        return ST.error

    m.parse = _parse
    m.get_comments = _get_comments
    m.get_input_text = _get_input_text
    m.get_syntax_error = _get_syntax_error
    for n, v in TTYPE.items():
        setattr(m, n, v)
    sys.modules['vtlengine.AST.Grammar._cpp_parser.vtl_cpp_parser'] = m
    if REPO + '/src' not in sys.path:
        sys.path.insert(0, REPO + '/src')
    return m
